"""Catalogue of single-site edits used to test the checkers both ways (see sa/selftest.py, DESIGN §9).
`old` must occur in `file`; the first occurrence is replaced by `new`."""
VARIANTS = []

D = 'spatialpandas/dask.py'
PQ = 'spatialpandas/io/parquet.py'
RT = 'spatialpandas/spatialindex/rtree.py'
IX = 'spatialpandas/geometry/_algorithms/intersection.py'
BL = 'spatialpandas/geometry/baselist.py'
BF = 'spatialpandas/geometry/basefixed.py'
BA = 'spatialpandas/geometry/base.py'
PT = 'spatialpandas/geometry/point.py'
SJ = 'spatialpandas/tools/sjoin.py'
GD = 'spatialpandas/geodataframe.py'


def V(id, props, file, old, new, expect='fire', rule=None, **kw):
    if isinstance(props, str):
        props = [props]
    VARIANTS.append(dict(id=id, props=props, file=file, old=old, new=new, expect=expect, rule=rule, **kw))


# ------------------------------------------------------------------------------------------------ C10
V('C10-reintroduce-D7', 'C10', D, "                rm_retry(parts_tmp_path)\n                rm_retry(part_output_path)\n                return None",
  "                rm_retry(parts_tmp_path)\n                return None", rule='C10.a')
V('C10-drop-rm-tmp', 'C10', D, "            rm_retry(parts_tmp_path)\n            rm_retry(part_output_path)\n\n            # Sort",
  "            rm_retry(part_output_path)\n\n            # Sort", rule='C10.a')
V('C10-rm-after-write', 'C10', D, "            rm_retry(parts_tmp_path)\n            rm_retry(part_output_path)\n\n            # Sort by part_df by hilbert_distance index\n            part_df.sort_index(inplace=True)\n\n            # Write part_df as a single parquet file, collecting metadata for later use\n            # constructing the full dataset _metadata file.\n            md_list = []\n            filesystem.invalidate_cache()\n            write_concatted_part(part_df, part_output_path, md_list)\n",
  "            rm_retry(parts_tmp_path)\n\n            part_df.sort_index(inplace=True)\n            md_list = []\n            filesystem.invalidate_cache()\n            write_concatted_part(part_df, part_output_path, md_list)\n            rm_retry(part_output_path)\n", rule='C10.b')
V('C10-overwrite-after-mkdirs', 'C10', D, "        if overwrite:\n            rm_retry(path)\n\n        for out_partition in out_partitions:\n            part_dir = os.path.join(path, f\"part.{out_partition}.parquet\" )\n            mkdirs_retry(part_dir)\n            tmp_part_dir = tempdir_format.format(partition=out_partition, uuid=dataset_uuid)\n            mkdirs_retry(tmp_part_dir)\n",
  "        for out_partition in out_partitions:\n            part_dir = os.path.join(path, f\"part.{out_partition}.parquet\" )\n            mkdirs_retry(part_dir)\n            tmp_part_dir = tempdir_format.format(partition=out_partition, uuid=dataset_uuid)\n            mkdirs_retry(tmp_part_dir)\n\n        if overwrite:\n            rm_retry(path)\n", rule='C10.b')
V('C10-subpart-name-without-i', 'C10', D, "f'part{i}.parquet',", "'part.parquet',", rule='C10.c')
V('C10-subpart-dir-wrong-partition', 'C10', D, "tempdir_format.format(partition=out_partition, uuid=dataset_uuid),\n                    f'part{i}.parquet',",
  "tempdir_format.format(partition=i, uuid=dataset_uuid),\n                    f'part{i}.parquet',", rule='C10.c')
V('C10-placeholder-name-differs', 'C10', D, "part_dir = os.path.join(path, f\"part.{out_partition}.parquet\" )", "part_dir = os.path.join(path, f\"part{out_partition}.parquet\" )", rule='C10.c')
V('C10-no-common-metadata', 'C10', D, "        write_commonmetadata_file()\n", "        if len(write_info) > 1:\n            write_commonmetadata_file()\n", rule='C10.b')
V('C10-return-not-reread', 'C10', D, "        return read_parquet_dask(\n            path,\n            filesystem=filesystem,", "        return read_parquet_dask(\n            part_output_paths[0],\n            filesystem=filesystem,", rule='C10.b')
V('C10-compaction-swapped', 'C10', D, "                move_retry(p1, p2)", "                move_retry(p2, p1)", rule='C10.c')
V('C10-silent-rename-locals', 'C10', D, "part_dir = os.path.join(path, f\"part.{out_partition}.parquet\" )\n            mkdirs_retry(part_dir)",
  "placeholder = os.path.join(path, f\"part.{out_partition}.parquet\" )\n            mkdirs_retry(placeholder)", expect='silent')
V('C10-silent-swap-rm-order', 'C10', D, "            rm_retry(parts_tmp_path)\n            rm_retry(part_output_path)\n\n            # Sort", "            rm_retry(part_output_path)\n            rm_retry(parts_tmp_path)\n\n            # Sort", expect='silent')

# ------------------------------------------------------------------------------------------------ C18
V('C18-prange-neighbour-write', 'C18', BL, "            result[i] = fn(values, value_offsets0[i:i + 2])", "            result[i + 1 - 1] = fn(values, value_offsets0[i:i + 2])", rule='C18.a')
V('C18-prange-shared-scratch', 'C18', IX, "    for i in prange(n):\n        start = start_offsets[i]\n        stop = stop_offsets[i]\n\n        # Check for points in rect\n        point_in_rect = False",
  "    scratch = np.zeros(2)\n    for i in prange(n):\n        start = start_offsets[i]\n        stop = stop_offsets[i]\n        scratch[0] = start\n\n        # Check for points in rect\n        point_in_rect = False", rule='C18.a')
V('C18-prange-accumulate', 'C18', BL, "    n = len(value_offsets0) - 1\n    for i in prange(n):\n        if not missing[i]:\n            result[i] = fn(values, value_offsets0[i:i + 2])",
  "    n = len(value_offsets0) - 1\n    last = 0.0\n    for i in prange(n):\n        if not missing[i]:\n            last += 1.0\n            result[i] = fn(values, value_offsets0[i:i + 2])", rule='C18.a')
V('C18-task-captured-append', 'C18', D, "        def process_partition(df, i):\n            subpart_paths = {}", "        all_paths = []\n\n        def process_partition(df, i):\n            subpart_paths = {}\n            all_paths.append(i)", rule='C18.c')
V('C18-subpart-name-without-i', 'C18', D, "f'part{i}.parquet',", "'part.parquet',", rule='C18.c')
V('C18-orient-without-copy', ['C18', 'C15'], 'spatialpandas/geometry/polygon.py', "        buffer_values = self.buffer_values.copy()\n        poly_offsets, ring_offsets = self.buffer_offsets",
  "        buffer_values = self.buffer_values\n        poly_offsets, ring_offsets = self.buffer_offsets", rule=None, rules={'C18': 'C18.d', 'C15': 'C15.a'})
# (removing .copy() in distances_from_coordinates only turns it into an out-parameter kernel whose single caller passes a fresh array: no C18 violation)
V('C18-silent-prange-to-range', 'C18', IX, "    for i in prange(n):\n        start = start_offsets[i]", "    for i in range(n):\n        start = start_offsets[i]", expect='silent')
V('C18-silent-rename-induction', 'C18', BL, "    for i in prange(n):\n        if not missing[i]:\n            result[i] = fn(values, value_offsets0[i:i + 2])", "    for row in prange(n):\n        if not missing[row]:\n            result[row] = fn(values, value_offsets0[row:row + 2])", expect='silent')

# ------------------------------------------------------------------------------------------------ C19
V('C19-swallow-rm-error', 'C19', D, "            filesystem.invalidate_cache()\n            if filesystem.exists(file_path):\n                filesystem.rm(file_path, recursive=True)\n                if filesystem.exists(file_path):",
  "            filesystem.invalidate_cache()\n            if filesystem.exists(file_path):\n                try:\n                    filesystem.rm(file_path, recursive=True)\n                except OSError:\n                    pass\n                if filesystem.exists(file_path):", rule='C19.a')
V('C19-swallow-in-concat', 'C19', D, "                part_df = read_parquet_retry(parts_tmp_path, subpart_paths, part_output_path)\n",
  "                try:\n                    part_df = read_parquet_retry(parts_tmp_path, subpart_paths, part_output_path)\n                except Exception:\n                    rm_retry(parts_tmp_path)\n                    rm_retry(part_output_path)\n                    return None\n", rule='C19.a')
V('C19-gate-dropped', 'C19', D, "            if subpart_paths_stripped != ls_res:\n", "            if len(subpart_paths_stripped) > len(ls_res) + 10**9:\n", rule='C19.b')
V('C19-gate-after-read', 'C19', D, "            if subpart_paths_stripped != ls_res:\n                missing = set(subpart_paths) - set(ls_res)",
  "            if not ls_res:\n                return read_parquet(\n                    parts_tmp_path,\n                    filesystem=filesystem,\n                )\n            if subpart_paths_stripped != ls_res:\n                missing = set(subpart_paths) - set(ls_res)", rule='C19.b')
V('C19-rm-no-recheck', 'C19', D, "                if filesystem.exists(file_path):\n                    # Make sure we keep retrying until file does not exist\n                    raise ValueError(f\"Deletion of {file_path} not yet complete\")\n", "", rule='C19.c')
V('C19-append-mode', 'C19', D, "            with filesystem.open(part_output_path, 'wb') as f:", "            with filesystem.open(part_output_path, 'ab') as f:", rule='C19.d')
V('C19-os-remove', 'C19', D, "            filesystem.invalidate_cache()\n            if filesystem.exists(file_path):\n                filesystem.rm(file_path, recursive=True)",
  "            filesystem.invalidate_cache()\n            if filesystem.exists(file_path):\n                import shutil\n                shutil.rmtree(file_path)", rule='C19.e')
V('C19-read-without-fs', 'C19', D, "            return read_parquet(\n                parts_tmp_path,\n                filesystem=filesystem,", "            return read_parquet(\n                parts_tmp_path,", rule='C19.e')
V('C19-silent-gate-eq-form', 'C19', D, "            if subpart_paths_stripped != ls_res:\n", "            if ls_res != subpart_paths_stripped:\n", expect='silent')

# ------------------------------------------------------------------------------------------------ C12
V('C12-drop-astype-int', 'C12', PQ, "                bounds_df = (bounds_df\n                             .set_index(bounds_df.index.astype('int'))\n                             .sort_index()", "                bounds_df = (bounds_df\n                             .sort_index()", rule='C12.b')
V('C12-sort-pieces-by-path', ['C12'], PQ, "key=lambda piece: natural_sort_key(piece.path))", "key=lambda piece: piece.path)", rule='C12.c')
V('C12-filter-only-active', 'C12', PQ, "        for col in list(partition_bounds):\n            partition_bounds[col] = partition_bounds[col][inds]\n            partition_bounds[col].reset_index(drop=True, inplace=True)\n            partition_bounds[col].index.name = \"partition\"",
  "        for col in [geometry]:\n            partition_bounds[col] = partition_bounds[col][inds]\n            partition_bounds[col].reset_index(drop=True, inplace=True)\n            partition_bounds[col].index.name = \"partition\"", rule='C12.e')
V('C12-filter-strict', 'C12', PQ, "            (partitions_df.x1 < x0) |", "            (partitions_df.x1 <= x0) |", rule='C12.d')
V('C12-filter-wrong-corner', 'C12', PQ, "            (partitions_df.y0 > y1)\n", "            (partitions_df.y0 > y0)\n", rule='C12.d')
V('C12-filter-axis-mix', 'C12', PQ, "            (partitions_df.y1 < y0) |", "            (partitions_df.y1 < x0) |", rule='C12.d')
V('C12-no-reorient', 'C12', PQ, "        if y0 > y1:\n            y0, y1 = y1, y0\n", "", rule='C12.d')
V('C12-filter-and', 'C12', PQ, "            (partitions_df.x1 < x0) |\n            (partitions_df.y1 < y0) |", "            (partitions_df.x1 < x0) &\n            (partitions_df.y1 < y0) |", rule='C12.d')
V('C12-columns-swapped', 'C12', D, "                    [s.total_bounds], columns=['x0', 'y0', 'x1', 'y1']", "                    [s.total_bounds], columns=['x0', 'x1', 'y0', 'y1']", rule='C12.a')
V('C12-key-typo', 'C12', D, "            all_metadata[b'spatialpandas'] = b_spatial_metadata", "            all_metadata[b'spatial_pandas'] = b_spatial_metadata", rule='C12.a')
V('C12-getitem-propagates-on-rows', 'C12', D, "        elif isinstance(key, (np.ndarray, list)):", "        elif isinstance(result, DaskGeoDataFrame):", rule='C12.g')
V('C12-filter-first-geometry', 'C12', PQ, "    geometry = meta.geometry.name\n", "    geometry = [c for c in meta.columns if isinstance(meta[c].dtype, GeometryDtype)][0]\n", rule='C12.f')
V('C12-silent-demorgan', 'C12', PQ, "        inds = ~(\n            (partitions_df.x1 < x0) |\n            (partitions_df.y1 < y0) |\n            (partitions_df.x0 > x1) |\n            (partitions_df.y0 > y1)\n        )",
  "        inds = (\n            (partitions_df.x1 >= x0) &\n            (partitions_df.y1 >= y0) &\n            (partitions_df.x0 <= x1) &\n            (partitions_df.y0 <= y1)\n        )", expect='silent')
V('C12-silent-swap-operands', 'C12', PQ, "            (partitions_df.x1 < x0) |", "            (x0 > partitions_df.x1) |", expect='silent')

# ------------------------------------------------------------------------------------------------ C03
V('C03-node-outside-le', 'C03', RT, "                        query_bounds[n + d] < node_bounds[d] or", "                        query_bounds[n + d] <= node_bounds[d] or", rule='C03.a')
V('C03-node-inside-weaker', 'C03', RT, "                if (node_bounds[d] < query_bounds[d] or\n                        node_bounds[n + d] > query_bounds[n + d]):", "                if (node_bounds[d] < query_bounds[d] and\n                        node_bounds[n + d] > query_bounds[n + d]):", rule='C03.a')
V('C03-reintroduce-D4-node-nan', ['C03', 'C17'], RT, "                if (np.isnan(node_bounds[d]) or np.isnan(node_bounds[n + d]) or\n                        query_bounds[n + d] < node_bounds[d] or", "                if (query_bounds[n + d] < node_bounds[d] or", rule='C03.c', rules={'C03': 'C03.c', 'C17': 'C17'})
V('C03-reintroduce-D4-page-min', ['C03', 'C17'], RT, "d_mins = [np.nanmin(page_bounds[:, d]) for d in range(n)]", "d_mins = [np.min(page_bounds[:, d]) for d in range(n)]", rule='C03.c', rules={'C03': 'C03.c', 'C17': 'C17'})
V('C03-reintroduce-D4-covered-unfiltered', ['C03', 'C17'], RT, "            next_slice = self._keys[start:stop][self._valid_mask(start, stop)]\n            covers_inds[covers_start", "            next_slice = self._keys[start:stop]\n            covers_inds[covers_start", rule='C03.c', rules={'C03': 'C03.c', 'C17': 'C17'})
V('C03-reintroduce-D4-leaf-mask', ['C03', 'C17'], RT, "            outside_mask = ~self._valid_mask(start, stop)\n            for d in range(n):\n                outside_mask |= (bounds_slice[:, d + n] < query_bounds[d])\n                outside_mask |= (bounds_slice[:, d] > query_bounds[d + n])\n\n            next_slice = next_slice[~outside_mask]",
  "            outside_mask = np.zeros(bounds_slice.shape[0], dtype=np.bool_)\n            for d in range(n):\n                outside_mask |= (bounds_slice[:, d + n] < query_bounds[d])\n                outside_mask |= (bounds_slice[:, d] > query_bounds[d + n])\n\n            next_slice = next_slice[~outside_mask]", rule='C03.c', rules={'C03': 'C03.c', 'C17': 'C17'})
V('C03-leaf-outside-le', 'C03', RT, "                outside_mask |= (bounds_slice[:, d + n] < query_bounds[d])\n                outside_mask |= (bounds_slice[:, d] > query_bounds[d + n])\n\n            next_slice", "                outside_mask |= (bounds_slice[:, d + n] <= query_bounds[d])\n                outside_mask |= (bounds_slice[:, d] > query_bounds[d + n])\n\n            next_slice", rule='C03.b')
V('C03-covers-mask-gt', 'C03', RT, "                covers_mask &= (bounds_slice[:, d] >= query_bounds[d])", "                covers_mask &= (bounds_slice[:, d] > query_bounds[d])", rule='C03.b')
V('C03-covers-mask-init', 'C03', RT, "            covers_mask = np.ones(bounds_slice.shape[0], dtype=np.bool_)", "            covers_mask = np.zeros(bounds_slice.shape[0], dtype=np.bool_)", rule='C03.b')
V('C03-overlaps-includes-covered', 'C03', RT, "            overlaps_slice = next_slice[~(outside_mask | covers_mask)]", "            overlaps_slice = next_slice[~outside_mask]", rule='C03.b')
V('C03-cursor-not-advanced', 'C03', RT, "            covers_inds[covers_start:covers_start + len(covers_slice)] = covers_slice\n            covers_start += len(covers_slice)\n", "            covers_inds[covers_start:covers_start + len(covers_slice)] = covers_slice\n", rule='C03.f')
V('C03-cursor-wrong-len', 'C03', RT, "            next_slice = self._keys[start:stop][self._valid_mask(start, stop)]\n            result[result_start:result_start + len(next_slice)] = next_slice\n            result_start += len(next_slice)",
  "            next_slice = self._keys[start:stop][self._valid_mask(start, stop)]\n            result[result_start:result_start + len(next_slice)] = next_slice\n            result_start += stop - start", rule='C03.f')
V('C03-stop-index-off-by-one', 'C03', RT, "                page = node - leaf_start + 1\n", "                page = node - leaf_start\n", rule='C03.e')
V('C03-leaf-start-off', 'C03', RT, "        return (self._bounds_tree.shape[0] + 1) // 2 - 1", "        return (self._bounds_tree.shape[0] + 1) // 2", rule='C03.e')
V('C03-start-index-right-child', 'C03', RT, "        while True:\n            child = _left_child(node)\n            if child >= self._bounds_tree.shape[0]:\n                page = node - leaf_start\n", "        while True:\n            child = _right_child(node)\n            if child >= self._bounds_tree.shape[0]:\n                page = node - leaf_start\n", rule='C03.e')
V('C03-parent-max-of-lb', 'C03', RT, "d_maxes = [max(left_bounds[d + n], right_bounds[d + n]) for d in range(n)]", "d_maxes = [max(left_bounds[d], right_bounds[d + n]) for d in range(n)]", rule='C03.d')
V('C03-page-max-over-lb', 'C03', RT, "d_maxes = [np.nanmax(page_bounds[:, d + n]) for d in range(n)]", "d_maxes = [np.nanmax(page_bounds[:, d]) for d in range(n)]", rule='C03.d')
V('C03-bounds-slice-shifted', 'C03', RT, "            bounds_slice = self._bounds[start:stop, :]\n\n            # Check which bounds are fully outside query region", "            bounds_slice = self._bounds[start + 1:stop + 1, :]\n\n            # Check which bounds are fully outside query region", rule='C03.g')
V('C03-unsorted-bounds-stored', 'C03', RT, "        return sorted_bounds, keys, bounds_tree", "        return bounds, keys, bounds_tree", rule='C03.g')
V('C03-silent-node-inside-stricter', 'C03', RT, "                if (node_bounds[d] < query_bounds[d] or\n                        node_bounds[n + d] > query_bounds[n + d]):", "                if (node_bounds[d] <= query_bounds[d] or\n                        node_bounds[n + d] >= query_bounds[n + d]):", expect='silent')
V('C03-silent-mirrored-compare', 'C03', RT, "                outside_mask |= (bounds_slice[:, d] > query_bounds[d + n])\n\n            next_slice", "                outside_mask |= (query_bounds[d + n] < bounds_slice[:, d])\n\n            next_slice", expect='silent')
V('C03-silent-leaf-positive-form', 'C03', RT, "            outside_mask = ~self._valid_mask(start, stop)\n            for d in range(n):\n                outside_mask |= (bounds_slice[:, d + n] < query_bounds[d])\n                outside_mask |= (bounds_slice[:, d] > query_bounds[d + n])\n\n            next_slice = next_slice[~outside_mask]",
  "            keep_mask = np.ones(bounds_slice.shape[0], dtype=np.bool_)\n            for d in range(n):\n                keep_mask &= (bounds_slice[:, d + n] >= query_bounds[d])\n                keep_mask &= (bounds_slice[:, d] <= query_bounds[d + n])\n\n            next_slice = next_slice[keep_mask]", expect='silent')

# ------------------------------------------------------------------------------------------------ C20
V('C20-metadata-dropped', 'C20', GD, "    _metadata = ['_geometry']", "    _metadata = []", rule='C20.a')
V('C20-sjoin-first-geometry', 'C20', SJ, "    sindex = left_df.geometry.sindex", "    sindex = left_df[[c for c in left_df.columns if c != 'x'][0]].sindex", rule='C20.b')
V('C20-sjoin-right-iloc', 'C20', SJ, "    right_geom = right_df.geometry.array", "    right_geom = right_df.iloc[:, 0].array", rule='C20.b', analysis_error_ok=True)
V('C20-build-sindex-literal', 'C20', GD, "        self.geometry.build_sindex(**kwargs)", "        self['geometry'].build_sindex(**kwargs)", rule='C20.b')
V('C20-hilbert-first-col', 'C20', D, "        geometry = self.geometry\n        # Compute distance", "        geometry = self[self.columns[0]]\n        # Compute distance", rule='C20.b')
V('C20-reintroduce-D8', ['C20', 'C06'], PQ, "            convert_string=convert_string,\n            geometry=geometry,\n        )", "            convert_string=convert_string,\n        )", rule=None, rules={'C20': 'C20.d', 'C06': 'C06.d'})
V('C20-reintroduce-D10a', ['C20'], GD, """    def __finalize__(self, other, method=None, **kwargs):
        result = super().__finalize__(other, method=method, **kwargs)
        # pandas only propagates _metadata from a single source frame. When several
        # objects are combined (concat, merge) adopt the active geometry that all
        # GeoDataFrame inputs agree on, provided the column is still present.
        input_objs = getattr(other, "input_objs", None)
        if input_objs is not None and not isinstance(other, pd.DataFrame):
            geometries = {obj._geometry for obj in input_objs
                          if isinstance(obj, GeoDataFrame) and obj._has_valid_geometry()}
            if len(geometries) == 1:
                geometry = geometries.pop()
                if ((result.columns == geometry).sum() == 1 and
                        isinstance(result[geometry].dtype, GeometryDtype)):
                    result._geometry = geometry
        return result

""", "", rule='C20.e')
V('C20-reintroduce-D10c', ['C20', 'C06'], D, "    return GeoDataFrame(meta_nonempty(pd.DataFrame(df.head(0))), geometry=geometry)", "    return GeoDataFrame(meta_nonempty(pd.DataFrame(df.head(0))))", rule=None, rules={'C20': 'C20.e', 'C06': 'C06.d'})
V('C20-reintroduce-D10b', ['C20'], SJ, "        return GeoDataFrame(joined, geometry=geometry)\n", "        return GeoDataFrame(joined)\n", rule='C20.e')
V('C20-dask-set-geometry-meta-only', ['C20', 'C06'], D, "            return self.map_partitions(lambda df: df.set_geometry(geometry))", "            return self.map_partitions(lambda df: df, meta=self._meta.set_geometry(geometry))", rule=None, rules={'C20': 'C20.d', 'C06': 'C06.d'})
V('C20-set-geometry-unvalidated', 'C20', GD, "        if (geometry not in self or\n                not isinstance(self[geometry].dtype, GeometryDtype)):", "        if geometry is None:", rule='C20.c')
V('C20-ctor-no-inherit', 'C20', GD, "            if isinstance(data, GeoDataFrame) and data._has_valid_geometry():\n                geometry = data._geometry", "            if isinstance(data, GeoDataFrame) and data._has_valid_geometry():\n                geometry = first_geometry_col", rule='C20.c')
V('C20-silent-rename-local', 'C20', SJ, "    sindex = left_df.geometry.sindex", "    left_series = left_df.geometry\n    sindex = left_series.sindex", expect='silent')

# ------------------------------------------------------------------------------------------------ C06
V('C06-area-maps-length', 'C06', D, "        return self.map_partitions(lambda s: s.area)", "        return self.map_partitions(lambda s: s.length)", rule='C06.a')
V('C06-total-bounds-nan-propagating', ['C06', 'C13'], D, "            np.nanmin(partition_bounds['x0']),", "            np.min(partition_bounds['x0'].values),", rule=None, rules={'C06': 'C06.b', 'C13': 'C13.d'})
V('C06-silent-pandas-min', ['C06'], D, "            np.nanmin(partition_bounds['x0']),", "            partition_bounds['x0'].min(),", expect='silent')  # pandas reductions skip NaN
V('C06-total-bounds-wrong-column', ['C06', 'C13'], D, "            np.nanmax(partition_bounds['x1']),", "            np.nanmax(partition_bounds['x0']),", rule=None, rules={'C06': 'C06.b', 'C13': 'C13.d'})
V('C06-total-bounds-vectorised', ['C06'], D, "        return (\n            np.nanmin(partition_bounds['x0']),\n            np.nanmin(partition_bounds['y0']),\n            np.nanmax(partition_bounds['x1']),\n            np.nanmax(partition_bounds['y1']),\n        )",
  "        values = partition_bounds.to_numpy()\n        return (*values[:, :2].min(axis=0), *values[:, 2:].max(axis=0))", rule='C06.b')
V('C06-cx-enumerate', 'C06', D, "        for partition_ind, delayed_df in zip(all_partition_inds, ddf.to_delayed(), strict=True):", "        for partition_ind, delayed_df in enumerate(ddf.to_delayed()):", rule='C06.c')
V('C06-cx-covers-only', 'C06', D, "        all_partition_inds = sorted(covers_inds.union(overlaps_inds))\n        if len(all_partition_inds) == 0:\n            # No partitions intersect with query region, return empty result\n            return dd.from_pandas(self._obj._meta, npartitions=1)\n\n        @delayed",
  "        all_partition_inds = sorted(overlaps_inds)\n        if len(all_partition_inds) == 0:\n            # No partitions intersect with query region, return empty result\n            return dd.from_pandas(self._obj._meta, npartitions=1)\n\n        @delayed", rule='C06.c')
V('C06-cx-refilter-swapped-box', 'C06', D, "            return df.cx[x0:x1, y0:y1]", "            return df.cx[y0:y1, x0:x1]", rule='C06.c')
V('C06-cx-no-refilter', 'C06', D, "            if partition_ind in overlaps_inds:\n                delayed_dfs.append(\n                    cx_fn(delayed_df)\n                )\n            else:\n                delayed_dfs.append(delayed_df)", "            delayed_dfs.append(delayed_df)", rule='C06.c')
V('C06-sjoin-skip-nan-partition', 'C06', SJ, "        right_inds = right_sindex.intersects(bounds.values)\n", "        if bounds.isna().any():\n            continue\n        right_inds = right_sindex.intersects(bounds.values)\n", rule='C06.e')
V('C06-sjoin-left-drops-empty', 'C06', SJ, "        if how == \"left\" or len(right_inds) > 0:", "        if len(right_inds) > 0:", rule='C06.e')
V('C06-sjoin-unfiltered-bounds', 'C06', SJ, "    partition_bounds = left_ddf.geometry.partition_bounds\n", "    partition_bounds = left_ddf[left_ddf.columns[0]].partition_bounds\n", rule='C06.e')
V('C06-persist-like-cache-on-filter', 'C06', D, "    def _compute_packing_npartitions(self, npartitions):", "    def query(self, expr, **kwargs):\n        result = super().query(expr, **kwargs)\n        result._partition_bounds = self._partition_bounds\n        return result\n\n    def _compute_packing_npartitions(self, npartitions):", rule='C06.d')
V('C06-silent-rename', 'C06', D, "        for partition_ind, delayed_df in zip(all_partition_inds, ddf.to_delayed(), strict=True):\n            if partition_ind in overlaps_inds:\n                delayed_dfs.append(\n                    cx_fn(delayed_df)\n                )\n            else:\n                delayed_dfs.append(delayed_df)",
  "        for pnum, part in zip(all_partition_inds, ddf.to_delayed(), strict=True):\n            if pnum in overlaps_inds:\n                delayed_dfs.append(\n                    cx_fn(part)\n                )\n            else:\n                delayed_dfs.append(part)", expect='silent')

# ------------------------------------------------------------------------------------------------ C03 (builder, from seeded changes)
V('C03-drop-right-valid-branch', ['C03'], RT, "                elif right_valid:\n                    bounds_tree[node, :] = right_bounds\n", "", rule='C03.d')
V('C03-tree-init-zeros', ['C03'], RT, "        bounds_tree = np.full((tree_length, 2 * n), np.nan)", "        bounds_tree = np.zeros((tree_length, 2 * n))", rule='C03.c')

# ------------------------------------------------------------------------------------------------ C04
V('C04-default-wrong-side', 'C04', BA, "            xs.stop if xs.stop is not None else xmax,", "            xs.stop if xs.stop is not None else xmin,", rule='C04.a')
V('C04-default-wrong-axis', 'C04', BA, "            ys.start if ys.start is not None else ymin,", "            ys.start if ys.start is not None else xmin,", rule='C04.a')
V('C04-no-swap', 'C04', BA, "        if y1 < y0:\n            y0, y1 = y1, y0\n        return x0, x1, y0, y1", "        return x0, x1, y0, y1", rule='C04.a')
V('C04-return-layout', 'C04', BA, "        return x0, x1, y0, y1\n", "        return x0, y0, x1, y1\n", rule='C04.a')
V('C04-rtree-box-layout', 'C04', BA, "self._sindex.covers_overlaps((x0, y0, x1, y1))", "self._sindex.covers_overlaps((x0, x1, y0, y1))", rule='C04.a')
V('C04-exact-test-box-layout', 'C04', BA, "        overlaps_inds_mask = self._obj.intersects_bounds(\n            (x0, y0, x1, y1), overlaps_inds\n        )", "        overlaps_inds_mask = self._obj.intersects_bounds(\n            (x0, x1, y0, y1), overlaps_inds\n        )", rule='C04.a')
V('C04-swap-before-defaults', 'C04', BA, "        x0, y0, x1, y1 = (\n            xs.start if xs.start is not None else xmin,\n            ys.start if ys.start is not None else ymin,\n            xs.stop if xs.stop is not None else xmax,\n            ys.stop if ys.stop is not None else ymax,\n        )\n        # Handle inverted bounds\n        if x1 < x0:\n            x0, x1 = x1, x0\n        if y1 < y0:\n            y0, y1 = y1, y0\n",
  "        x0, y0, x1, y1 = xs.start, ys.start, xs.stop, ys.stop\n        # Handle inverted bounds\n        if x0 is not None and x1 is not None and x1 < x0:\n            x0, x1 = x1, x0\n        if y0 is not None and y1 is not None and y1 < y0:\n            y0, y1 = y1, y0\n        x0 = x0 if x0 is not None else xmin\n        y0 = y0 if y0 is not None else ymin\n        x1 = x1 if x1 is not None else xmax\n        y1 = y1 if y1 is not None else ymax\n", rule='C04.a')
V('C04-no-sort', 'C04', BA, "            selected_inds = np.sort(\n                np.concatenate([covers_inds, overlaps_inds[overlaps_inds_mask]])\n            )", "            selected_inds = np.concatenate([covers_inds, overlaps_inds[overlaps_inds_mask]])", rule='C04.b')
V('C04-mask-on-covers', 'C04', BA, "np.concatenate([covers_inds, overlaps_inds[overlaps_inds_mask]])", "np.concatenate([overlaps_inds, covers_inds[overlaps_inds_mask]])", rule='C04.b')
V('C04-loc-instead-of-iloc', 'C04', BA, "                    return self._parent.iloc[selected_inds]", "                    return self._parent.loc[selected_inds]", rule='C04.b')
V('C04-exact-test-all-rows', 'C04', BA, "            (x0, y0, x1, y1), overlaps_inds\n        )", "            (x0, y0, x1, y1), covers_inds\n        )", rule='C04.b')
V('C04-take-copies-sindex', ['C04', 'C16'], BA, "        return self.__class__(self.data.take(indices), dtype=self.dtype)", "        result = self.__class__(self.data.take(indices), dtype=self.dtype)\n        result._sindex = self._sindex\n        return result", rule=None, rules={'C04': 'C04.d', 'C16': 'C16.c'})
V('C04-geoseries-cx-no-parent', 'C04', 'spatialpandas/geoseries.py', "        return _CoordinateIndexer(self.array, parent=self)", "        return _CoordinateIndexer(self.array)", rule='C04.c')
V('C04-silent-swap-mirrored', 'C04', BA, "        if x1 < x0:\n            x0, x1 = x1, x0\n        if y1 < y0:", "        if x0 > x1:\n            x1, x0 = x0, x1\n        if y1 < y0:", expect='silent')

# ------------------------------------------------------------------------------------------------ C05
V('C05-bbox-only-pairs', 'C05', SJ, "            intersecting_inds = candidate_inds[intersecting_mask]", "            intersecting_inds = candidate_inds", rule='C05.a')
V('C05-mask-other-inds', 'C05', SJ, "            intersecting_mask = left_geom.intersects(right_shape, inds=candidate_inds)", "            intersecting_mask = left_geom.intersects(right_shape)[candidate_inds - 1]", rule='C05.a')
V('C05-neighbour-shape', 'C05', SJ, "            right_shape = right_geom[i]", "            right_shape = right_geom[i - 1]", rule='C05.b')
V('C05-right-key-const', 'C05', SJ, "            right_inds[i] = np.full(len(intersecting_inds), i)", "            right_inds[i] = np.full(len(intersecting_inds), 0)", rule='C05.b')
V('C05-left-chain-inner-merge', 'C05', SJ, "            left_df.merge(\n                result, left_index=True, right_index=True, how=\"left\"\n            ).merge(", "            left_df.merge(\n                result, left_index=True, right_index=True\n            ).merge(", rule='C05.c')
V('C05-left-chain-second-inner', 'C05', SJ, "                right_df.drop(right_df.geometry.name, axis=1),\n                how=\"left\",", "                right_df.drop(right_df.geometry.name, axis=1),\n                how=\"inner\",", rule='C05.c')
V('C05-inner-chain-outer', 'C05', SJ, "            left_df.merge(\n                result, left_index=True, right_index=True\n            ).merge(", "            left_df.merge(\n                result, left_index=True, right_index=True, how=\"outer\"\n            ).merge(", expect='silent')  # outer-then-inner is still an inner join at outcome level
V('C05-right-chain-suffix-swap', 'C05', SJ, "                right_on=\"_key_left\",\n                suffixes=(f\"_{lsuffix}\", f\"_{rsuffix}\"),", "                right_on=\"_key_left\",\n                suffixes=(f\"_{rsuffix}\", f\"_{lsuffix}\"),", rule='C05.c')
V('C05-right-chain-key-swap', 'C05', SJ, "                    right_df, left_on=\"_key_right\", right_index=True, how=\"right\"", "                    right_df, left_on=\"_key_left\", right_index=True, how=\"right\"", rule='C05.c')
V('C05-right-chain-inner', 'C05', SJ, "                    right_df, left_on=\"_key_right\", right_index=True, how=\"right\"", "                    right_df, left_on=\"_key_right\", right_index=True, how=\"inner\"", rule='C05.c')
V('C05-right-keeps-left-geometry', 'C05', SJ, "            left_df.drop(\n                left_df.geometry.name, axis=1\n            ).merge(\n                result.merge(", "            left_df.merge(\n                result.merge(", rule='C05.c')
V('C05-index-restore-wrong-side', 'C05', SJ, "            ).set_index(\n                index_right\n            )", "            ).set_index(\n                index_left\n            )", rule='C05.c')
V('C05-silent-left-then-inner', 'C05', SJ, "            left_df.merge(\n                result, left_index=True, right_index=True\n            ).merge(", "            left_df.merge(\n                result, left_index=True, right_index=True, how=\"right\"\n            ).merge(", expect='silent')

# ------------------------------------------------------------------------------------------------ C08
UT = 'spatialpandas/utils.py'
V('C08-reintroduce-D5', 'C08', BA, "        if total_bounds is None:\n            total_bounds = self.total_bounds\n\n        # Work on a copy so that any sequence type is accepted and the caller's\n        # object is left unmodified\n        total_bounds = list(total_bounds)\n", "        if total_bounds is None:\n            total_bounds = list(self.total_bounds)\n", rule='C08.a')
V('C08-asarray-view', 'C08', BA, "        total_bounds = list(total_bounds)\n", "        total_bounds = np.asarray(total_bounds, dtype=np.float64)\n", rule='C08.a')
V('C08-normalise-by-own-min', 'C08', RT, "    dim_mids = [(bounds[:, d] + bounds[:, d + n]) / 2.0 for d in range(n)]", "    dim_mids = [(bounds[:, d] + bounds[:, d + n]) / 2.0 - bounds[:, d].min() for d in range(n)]", rule='C08.b')
V('C08-mid-wrong-dim', 'C08', RT, "    dim_mids = [(bounds[:, d] + bounds[:, d + n]) / 2.0 for d in range(n)]", "    dim_mids = [(bounds[:, d] + bounds[:, n]) / 2.0 for d in range(n)]", rule='C08.c')
V('C08-range-wrong-dim', 'C08', RT, "    dim_ranges = [(total_bounds[d], total_bounds[d + n]) for d in range(n)]", "    dim_ranges = [(total_bounds[d], total_bounds[n]) for d in range(n)]", rule='C08.c')
V('C08-scale-cross-dim', 'C08', RT, "        coords[:, d] = _data2coord(dim_mids[d], dim_ranges[d], side_length)", "        coords[:, d] = _data2coord(dim_mids[d], dim_ranges[0], side_length)", rule='C08.c')
V('C08-widen-isclose', 'C08', RT, "        if dim_ranges[d][0] == dim_ranges[d][1]:", "        if np.isclose(dim_ranges[d][0], dim_ranges[d][1]):", rule='C08.c')
V('C08-widen-wrong-axis', 'C08', BA, "        if total_bounds[1] == total_bounds[3]:\n            total_bounds[3] += 1.0", "        if total_bounds[1] == total_bounds[2]:\n            total_bounds[3] += 1.0", rule='C08.c')
V('C08-no-upper-clip', 'C08', UT, "    res[res > n - 1] = n - 1\n", "", rule='C08.d')
V('C08-no-lower-clip', 'C08', UT, "    res[res < 0] = 0\n", "", rule='C08.d')
V('C08-int32', 'C08', UT, ".astype(np.int64)", ".astype(np.int32)", rule='C08.d')
V('C08-geoseries-drops-total-bounds', 'C08', 'spatialpandas/geoseries.py', "            self.array.hilbert_distance(total_bounds=total_bounds, p=p),", "            self.array.hilbert_distance(p=p),", rule='C08.e')
V('C08-silent-tuple-copy', 'C08', BA, "        total_bounds = list(total_bounds)\n", "        total_bounds = [float(b) for b in total_bounds]\n", expect='silent')

# ------------------------------------------------------------------------------------------------ C09
V('C09-per-partition-total-bounds', 'C09', D, "            lambda s: s.hilbert_distance(total_bounds=total_bounds, p=p))", "            lambda s: s.hilbert_distance(p=p))", rule='C09.a')
V('C09-total-bounds-inside-lambda', 'C09', D, "            lambda s: s.hilbert_distance(total_bounds=total_bounds, p=p))", "            lambda s: s.hilbert_distance(total_bounds=s.total_bounds, p=p))", rule='C09.a')
V('C09-p-dropped', 'C09', D, "            lambda s: s.hilbert_distance(total_bounds=total_bounds, p=p))", "            lambda s: s.hilbert_distance(total_bounds=total_bounds))", rule='C09.a')
V('C09-first-geometry', ['C09', 'C20'], D, "        geometry = self.geometry\n        # Compute distance", "        geometry = self[self.columns[0]]\n        # Compute distance", rule=None, rules={'C09': 'C09.a', 'C20': 'C20.b'})
V('C09-no-repartition-guard', 'C09', D, "        if ddf.npartitions != npartitions:\n            # set_index doesn't change the number of partitions if the partitions\n            # happen to be already sorted\n            ddf = ddf.repartition(npartitions=npartitions)\n", "", rule='C09.b')
V('C09-npartitions-not-passed', 'C09', D, "ddf.set_index('hilbert_distance', npartitions=npartitions, shuffle_method=shuffle)", "ddf.set_index('hilbert_distance', shuffle_method=shuffle)", rule='C09.b')
V('C09-wrong-p', 'C09', D, "        ddf = self._with_hilbert_distance_column(p)\n\n        # Set index to distance.", "        ddf = self._with_hilbert_distance_column(15)\n\n        # Set index to distance.", rule='C09.b')
V('C09-default-always', 'C09', D, "        if npartitions is None:\n            # Make partitions of ~8 million rows with a minimum of 8\n            # partitions\n            nrows = len(self)\n            npartitions = max(nrows // 2 ** 23, 8)\n        return npartitions", "        nrows = len(self)\n        return max(nrows // 2 ** 23, npartitions or 8)", rule='C09.c')
V('C09-silent-rename', 'C09', D, "        total_bounds = geometry.total_bounds\n        ddf = self.assign(hilbert_distance=geometry.map_partitions(\n            lambda s: s.hilbert_distance(total_bounds=total_bounds, p=p))", "        extent = geometry.total_bounds\n        ddf = self.assign(hilbert_distance=geometry.map_partitions(\n            lambda part: part.hilbert_distance(total_bounds=extent, p=p))", expect='silent')
V('C09-int32-distances', 'C09', D, "            lambda s: s.hilbert_distance(total_bounds=total_bounds, p=p))", "            lambda s: s.hilbert_distance(total_bounds=total_bounds, p=p).astype(np.int32))", rule='C09.a')
V('C09-silent-int64-cast', 'C09', D, "            lambda s: s.hilbert_distance(total_bounds=total_bounds, p=p))", "            lambda s: s.hilbert_distance(total_bounds=total_bounds, p=p).astype(np.int64))", expect='silent')
V('C09-getitem-propagates-on-rows', 'C09', D, "        elif isinstance(key, (np.ndarray, list)):", "        elif isinstance(result, DaskGeoDataFrame):", rule='C09.a')
V('C05-reintroduce-D18', 'C05', SJ, "        if np.isnan(shape_bounds).any():\n            continue\n", "", rule='C05.f')
V('C20-reintroduce-D20', 'C20', D, "            filesystem=filesystem,\n            geometry=self.geometry.name,\n", "            filesystem=filesystem,\n", rule='C20.e')

# ------------------------------------------------------------------------------------------------ C11
PG = 'spatialpandas/geometry/polygon.py'
V('C11-dtype-wrong-array', 'C11', 'spatialpandas/geometry/ring.py', "    def construct_array_type(cls, *args):\n        return RingArray", "    def construct_array_type(cls, *args):\n        return LineArray", rule='C11.a')
V('C11-array-wrong-dtype-class', 'C11', 'spatialpandas/geometry/multiline.py', "    def _dtype_class(self):\n        return MultiLineDtype", "    def _dtype_class(self):\n        return GeometryDtype", rule='C11.a')
V('C11-duplicate-geometry-name', 'C11', 'spatialpandas/geometry/ring.py', "    _geometry_name = 'ring'", "    _geometry_name = 'line'", rule='C11.a')
V('C11-example-ignores-dtype', 'C11', PG, "            [[1.0, 1.0, 2.0, 1.0, 2.0, 2.0, 1.0, 2.0, 1.0, 1.0]]\n        ], dtype=dtype\n    )", "            [[1.0, 1.0, 2.0, 1.0, 2.0, 2.0, 1.0, 2.0, 1.0, 1.0]]\n        ]\n    )", rule='C11.a')
V('C11-element-type-wrong', 'C11', 'spatialpandas/geometry/multipolygon.py', "    _element_type = MultiPolygon\n", "    _element_type = Polygon\n", rule='C11.a')
V('C11-from-arrow-base-class', 'C11', BA, "        return self.construct_array_type()(data, dtype=self)", "        return GeometryArray(data, dtype=self)", rule='C11.b')
V('C11-index-columns-not-prepended', 'C11', PQ, "        columns = extra_index_columns + list(columns)", "        columns = list(columns)", rule='C11.c')
V('C11-index-column-twice', 'C11', PQ, "            if name is not None and name not in columns and name in all_columns:", "            if name is not None and name in all_columns:", rule='C11.c')
V('C11-global-sort', ['C11'], PQ, "        dataset_pieces = sorted(fragments, key=lambda piece: natural_sort_key(piece.path))\n        pieces.extend(dataset_pieces)\n", "        pieces.extend(fragments)\n    pieces.sort(key=lambda piece: natural_sort_key(piece.path))\n", rule='C11.d')
V('C11-silent-rename-example-fn', 'C11', PG, "def _polygon_array_non_empty(dtype):", "def _polygon_array_non_empty(dtype):\n    # example array for Dask meta inference", expect='silent')
V('C19-retried-writer-accumulates', 'C19', D, "        meta = write_info[0]['meta']\n        for i in range(1, len(write_info)):\n            meta.append_row_groups(write_info[i][\"meta\"])\n\n        @retryit\n        def write_metadata_file():\n            with filesystem.open(os.path.join(path, \"_metadata\"), 'wb') as f:",
  "        meta = write_info[0]['meta']\n\n        @retryit\n        def write_metadata_file():\n            for i in range(1, len(write_info)):\n                meta.append_row_groups(write_info[i][\"meta\"])\n            with filesystem.open(os.path.join(path, \"_metadata\"), 'wb') as f:", rule='C19.d')
V('C19-move-swallows-fnf', 'C19', D, "            if filesystem.exists(p1):\n                filesystem.move(p1, p2)", "            try:\n                filesystem.move(p1, p2)\n            except FileNotFoundError:\n                pass", rule='C19.a')
V('C19-gate-subset', 'C19', D, "            if subpart_paths_stripped != ls_res:\n", "            if not set(ls_res).issubset(subpart_paths_stripped):\n", rule='C19.b')

# ------------------------------------------------------------------------------------------------ C13
BN = 'spatialpandas/geometry/_algorithms/bounds.py'
V('C13-y-from-even-index', 'C13', BN, "        y = values[i + 1]\n        if np.isfinite(y):\n            ymin = min(ymin, y)", "        y = values[i]\n        if np.isfinite(y):\n            ymin = min(ymin, y)", rule='C13')
V('C13-ymin-uses-x', 'C13', BN, "            ymin = min(ymin, y)\n            ymax = max(ymax, y)", "            ymin = min(ymin, x)\n            ymax = max(ymax, y)", rule='C13')
V('C13-xmax-is-min', 'C13', BN, "            xmax = max(xmax, x)", "            xmax = min(xmax, x)", rule='C13.a')
V('C13-return-layout', 'C13', BN, "    return (xmin, ymin, xmax, ymax)", "    return (xmin, xmax, ymin, ymax)", rule='C13.a')
V('C13-drop-isfinite-guard', 'C13', BN, "        x = values[i]\n        if np.isfinite(x):\n            xmin = min(xmin, x)\n            xmax = max(xmax, x)", "        x = values[i]\n        xmin = min(xmin, x)\n        xmax = max(xmax, x)", rule='C13.a')
V('C13-1d-undershoot', 'C13', BN, "    for i in range(0, len(values), 2):\n        v = values[i + offset]", "    for i in range(offset, len(values) - 1, 2):\n        v = values[i]", rule='C13.a')
V('C13-row-neighbour-stop', 'C13', BN, "        stop = flat_value_offsets[i + 1]", "        stop = flat_value_offsets[i + 2]", rule='C13', analysis_error_ok=True)
V('C13-bounds-window-with-abs-offsets', 'C13', BL, "        return bounds_interleaved(self.buffer_values, self.buffer_outer_offsets)", "        return bounds_interleaved(self.flat_values, self.buffer_outer_offsets)", rule='C13.b')
V('C13-total-bounds-whole-buffer', 'C13', BL, "        return total_bounds_interleaved(self.flat_values)", "        return total_bounds_interleaved(self.buffer_values)", rule='C13', analysis_error_ok=True)
V('C13-flat-values-fast-path', ['C13', 'C16'], BL, "        # Compute valid start/stop index into buffer values array.\n        buffer_offsets = self.buffer_offsets", "        if self.listarray.offset == 0:\n            return self.buffer_values\n        # Compute valid start/stop index into buffer values array.\n        buffer_offsets = self.buffer_offsets", rule=None, rules={'C13': 'C13.b', 'C16': 'C16'})
V('C13-outer-offsets-skip-level', 'C13', BL, "        flat_offsets = buffer_offsets[0]\n        for offsets in buffer_offsets[1:]:\n            flat_offsets = offsets[flat_offsets]", "        flat_offsets = buffer_offsets[0]\n        for offsets in buffer_offsets[2:]:\n            flat_offsets = offsets[flat_offsets]", rule='C13')
V('C13-reintroduce-D2', ['C13', 'C17'], BF, "        return total_bounds_interleaved(self._valid_flat_values)", "        return total_bounds_interleaved(self.flat_values)", rule=None, rules={'C13': 'C13.c', 'C17': 'C17.a'})
V('C13-reintroduce-D1', ['C13', 'C17'], BF, "        flat_values = self._valid_flat_values\n        if len(self) == 0:", "        flat_values = self.flat_values\n        if len(self) == 0:", rule=None, rules={'C13': 'C13.c', 'C17': 'C17.a'})
V('C13-fixed-ignores-offset', ['C13', 'C16'], BF, "            start = self.data.offset * self._element_len", "            start = 0", rule=None, rules={'C13': 'C13', 'C16': 'C16'})
V('C13-geoseries-columns', 'C13', 'spatialpandas/geoseries.py', "            self.array.bounds, columns=['x0', 'y0', 'x1', 'y1'], index=self.index", "            self.array.bounds, columns=['x0', 'x1', 'y0', 'y1'], index=self.index", rule='C13.d')
V('C13-silent-rename-accumulators', 'C13', BN, "    vmin = np.inf\n    vmax = -np.inf\n\n    for i in range(0, len(values), 2):\n        v = values[i + offset]\n        if np.isfinite(v):\n            vmin = min(vmin, v)\n            vmax = max(vmax, v)\n\n    if np.isfinite(vmin):\n        return (vmin, vmax)",
  "    lo = np.inf\n    hi = -np.inf\n\n    for k in range(0, len(values), 2):\n        c = values[k + offset]\n        if np.isfinite(c):\n            lo = min(c, lo)\n            hi = max(c, hi)\n\n    if np.isfinite(lo):\n        return (lo, hi)", expect='silent')

# ------------------------------------------------------------------------------------------------ C14
ME = 'spatialpandas/geometry/_algorithms/measures.py'
MP = 'spatialpandas/geometry/multipolygon.py'
V('C14-length-mixes-axes', 'C14', ME, "total_len += sqrt((x1 - x0) ** 2 + (y1 - y0) ** 2)", "total_len += sqrt((x1 - x0) ** 2 + (y1 - x0) ** 2)", rule='C14')
V('C14-length-no-square', 'C14', ME, "total_len += sqrt((x1 - x0) ** 2 + (y1 - y0) ** 2)", "total_len += sqrt((x1 - x0) ** 2 + (y1 - y0))", rule='C14')
V('C14-shoelace-reads-x-for-y', 'C14', ME, "            jy = values[j + 1]", "            jy = values[j]", rule='C14')
V('C14-area-early-return', 'C14', ME, "            # A degenerate polygon, zero area\n            continue", "            # A degenerate polygon, zero area\n            return 0.0", rule='C14.a')
V('C14-area-threshold-3', 'C14', ME, "        if poly_length < 6:", "        if poly_length < 3:", rule='C14.a')
V('C14-area-not-halved', 'C14', ME, "    return area / 2.0", "    return area", rule='C14.a')
V('C14-length-drops-isfinite', 'C14', ME, "            if (np.isfinite(x0) and np.isfinite(y0) and\n                    np.isfinite(x1) and np.isfinite(y1)):\n                total_len += sqrt((x1 - x0) ** 2 + (y1 - y0) ** 2)", "            total_len += sqrt((x1 - x0) ** 2 + (y1 - y0) ** 2)", rule='C14.a')
V('C14-area-loop-overrun', 'C14', ME, "        for k in range(start, stop - 4, 2):", "        for k in range(start, stop - 2, 2):", rule='C14')
V('C14-nested3-skips-level', 'C14', BL, "            start = value_offsets1[value_offsets0[i]]\n            stop = value_offsets1[value_offsets0[i + 1]]", "            start = value_offsets0[i]\n            stop = value_offsets0[i + 1]", rule='C14')
V('C14-nested3-wrong-plus-one', 'C14', BL, "            stop = value_offsets1[value_offsets0[i + 1]]", "            stop = value_offsets1[value_offsets0[i] + 1]", rule='C14')
V('C14-nested2-no-fencepost', 'C14', BL, "            result[i] = fn(values, value_offsets1[start:stop + 1])", "            result[i] = fn(values, value_offsets1[start:stop])", rule='C14')
V('C14-missing-guard-dropped', ['C14', 'C17'], BL, "        if not missing[i]:\n            start = value_offsets0[i]\n            stop = value_offsets0[i + 1]\n            result[i] = fn(values, value_offsets1[start:stop + 1])", "        if True:\n            start = value_offsets0[i]\n            stop = value_offsets0[i + 1]\n            result[i] = fn(values, value_offsets1[start:stop + 1])", rule=None, rules={'C14': 'C14.b', 'C17': 'C17'})
V('C14-zero-prefill', ['C14', 'C17'], 'spatialpandas/geometry/polygon.py', "    def area(self):\n        result = np.full(len(self), np.nan, dtype=np.float64)", "    def area(self):\n        result = np.zeros(len(self), dtype=np.float64)", rule=None, rules={'C14': 'C14.b', 'C17': 'C17'})
V('C14-polygon-length-uses-area', 'C14', 'spatialpandas/geometry/polygon.py', "    def length(self):\n        result = np.full(len(self), np.nan, dtype=np.float64)\n        _geometry_map_nested2(\n            compute_line_length,", "    def length(self):\n        result = np.full(len(self), np.nan, dtype=np.float64)\n        _geometry_map_nested2(\n            compute_area,", rule='C14.c')
V('C14-multipolygon-wrong-depth', 'C14', MP, "from ..geometry.baselist import (\n    GeometryList,\n    GeometryListArray,\n    _geometry_map_nested3,\n)", "from ..geometry.baselist import (\n    GeometryList,\n    GeometryListArray,\n    _geometry_map_nested2 as _geometry_map_nested3,\n)", rule='C14', analysis_error_ok=True)
V('C14-reintroduce-D6', ['C14', 'C17'], MP, "        new_data = pa.ListArray.from_arrays(\n            pa.array(offsets[1][offsets[0]], mask=missing), inner_data\n        )", "        new_data = pa.ListArray.from_arrays(offsets[1][offsets[0]], inner_data)", rule=None, rules={'C14': 'C14.d', 'C17': 'C17'})
V('C14-boundary-skips-polygon-level', 'C14', MP, "            pa.array(offsets[1][offsets[0]], mask=missing), inner_data", "            pa.array(offsets[0], mask=missing), inner_data", rule='C14')
V('C14-reintroduce-D16', ['C14', 'C01', 'C02'], BL, "        inner_offsets = buffer_offsets[0]\n        for offsets in buffer_offsets[1:]:\n            # offsets of the next level restricted to the parts selected so far\n            inner_offsets = offsets[inner_offsets[0]:inner_offsets[-1] + 1]\n        return inner_offsets",
  "        start = buffer_offsets[0][0]\n        stop = buffer_offsets[0][-1]\n        for offsets in buffer_offsets[1:-1]:\n            start = offsets[start]\n            stop = offsets[stop]\n        return buffer_offsets[-1][start:stop + 1]", rule=None, rules={'C14': 'C14', 'C01': 'C01', 'C02': 'C02'})
V('C14-inner-offsets-gather', ['C14', 'C02'], BL, "            inner_offsets = offsets[inner_offsets[0]:inner_offsets[-1] + 1]", "            inner_offsets = offsets[inner_offsets]", rule=None, rules={'C14': 'C14.c', 'C02': 'C02'})
V('C14-silent-range-minus-5', 'C14', ME, "        for k in range(start, stop - 4, 2):", "        for k in range(start, stop - 5, 2):", expect='silent')

# ------------------------------------------------------------------------------------------------ C15
PGY = 'spatialpandas/geometry/polygon.py'
OR = 'spatialpandas/geometry/_algorithms/orientation.py'
V('C15-no-copy', ['C15'], PGY, "        buffer_values = self.buffer_values.copy()\n        poly_offsets, ring_offsets = self.buffer_offsets", "        buffer_values = self.buffer_values\n        poly_offsets, ring_offsets = self.buffer_offsets", rule='C15.a')
V('C15-mask-dropped', ['C15', 'C17'], PGY, "            pa.array(poly_offsets, mask=missing), pa_rings,", "            pa.array(poly_offsets), pa_rings,", rule=None, rules={'C15': 'C15.b', 'C17': 'C17'})
V('C15-offsets-swapped', 'C15', PGY, "        orient_polygons(buffer_values, poly_offsets, ring_offsets)", "        orient_polygons(buffer_values, ring_offsets, poly_offsets)", rule='C15.c')
V('C15-rebuild-from-original-values', 'C15', PGY, "            pa.array(ring_offsets), pa.array(buffer_values)\n        )\n        pa_polys = pa.ListArray.from_arrays(\n            pa.array(poly_offsets, mask=missing), pa_rings,", "            pa.array(ring_offsets), pa.array(self.buffer_values)\n        )\n        pa_polys = pa.ListArray.from_arrays(\n            pa.array(poly_offsets, mask=missing), pa_rings,", rule='C15.b')
V('C15-multipolygon-kernel-levels', 'C15', MP, "        orient_polygons(buffer_values, poly_offsets, ring_offsets)", "        orient_polygons(buffer_values, multipoly_offsets, ring_offsets)", rule='C15.c')
V('C15-shell-is-last-ring', 'C15', OR, "    expected_ccw[polygon_offsets[:-1]] = True", "    expected_ccw[polygon_offsets[1:] - 1] = True", rule='C15.c')
V('C15-shell-clamped', 'C15', OR, "    expected_ccw[polygon_offsets[:-1]] = True", "    expected_ccw[np.minimum(polygon_offsets[:-1], num_rings - 1)] = True", rule='C15.c')
V('C15-flip-only-x', 'C15', OR, "        values[flip_start + 1:flip_stop:2] = ys[::-1]\n", "", rule='C15.c')
V('C15-flip-y-range-shifted', 'C15', OR, "        values[flip_start + 1:flip_stop:2] = ys[::-1]", "        values[flip_start + 1:flip_stop - 2:2] = ys[::-1]", rule='C15.c', analysis_error_ok=True)
V('C15-flip-x-gets-y', 'C15', OR, "        values[flip_start:flip_stop:2] = xs[::-1]", "        values[flip_start:flip_stop:2] = ys[::-1]", rule='C15.c')
V('C15-silent-rename-marker', 'C15', OR, "    expected_ccw[polygon_offsets[:-1]] = True", "    first_rings = polygon_offsets[:-1]\n    expected_ccw[first_rings] = True", expect='silent')

# ------------------------------------------------------------------------------------------------ C16
V('C16-buffer-offsets-ignore-offset', ['C16', 'C13'], BL, "        start = self.listarray.offset\n        stop = start + len(self.listarray) + 1", "        start = 0\n        stop = start + len(self.listarray) + 1", rule=None, rules={'C16': 'C16.a', 'C13': 'C13'}, analysis_error_ok=True)
V('C16-buffer-offsets-no-fencepost', ['C16'], BL, "        stop = start + len(self.listarray) + 1", "        stop = start + len(self.listarray)", rule='C16.a')
V('C16-flat-values-fast-path', ['C16'], BL, "        # Compute valid start/stop index into buffer values array.\n        buffer_offsets = self.buffer_offsets", "        if self.listarray.offset == 0:\n            return self.buffer_values\n        # Compute valid start/stop index into buffer values array.\n        buffer_offsets = self.buffer_offsets", rule='C16.a')
V('C16-fixed-hardcoded-itemsize', ['C16'], BF, "            start = self.data.offset * self._element_len\n            stop = start + len(self.data) * self._element_len\n            return np.asarray(self.data.buffers()[1]).view(self.numpy_dtype)[start:stop]",
  "            count = len(self.data) * self._element_len\n            return np.frombuffer(self.data.buffers()[1], dtype=self.numpy_dtype, count=count, offset=self.data.offset * self._element_len * 8)", rule='C16.b')
V('C16-isnull-ignores-offset', ['C16', 'C17'], BA, "        _perform_extract_isnull_bytemap(buf, len(chunk), chunk.offset, offset, result)", "        _perform_extract_isnull_bytemap(buf, len(chunk), 0, offset, result)", rule=None, rules={'C16': 'C16.a', 'C17': 'C17'})
V('C16-raw-read-elsewhere', 'C16', 'spatialpandas/geometry/line.py', "        offsets = self.buffer_outer_offsets\n        start_offsets0 = offsets[:-1]\n        stop_offsets0 = offsets[1:]", "        offsets = np.asarray(self.data.buffers()[1]).view(np.uint32)\n        start_offsets0 = offsets[:-1]\n        stop_offsets0 = offsets[1:]", rule='C16.a')
V('C16-slice-returns-base-class', 'C16', BA, "                return self.__class__(self.data[item], dtype=self.dtype)", "                return GeometryArray(self.data[item], dtype=self.dtype)", rule='C16.d')
V('C16-getitem-abs-check', 'C16', BA, "            if item < -len(self) or item >= len(self):", "            if abs(item) >= len(self):", rule='C16.e', analysis_error_ok=True)
V('C16-getitem-negative-not-normalised', 'C16', BA, "                if item < 0:\n                    item += len(self)\n", "", rule='C16.e')
V('C16-take-copies-sindex', ['C16'], BA, "        return self.__class__(self.data.take(indices), dtype=self.dtype)", "        result = self.__class__(self.data.take(indices), dtype=self.dtype)\n        result._sindex = self._sindex\n        return result", rule='C16.c')
V('C16-silent-type-self', 'C16', BA, "                return self.__class__(self.data[item], dtype=self.dtype)", "                return type(self)(self.data[item], dtype=self.dtype)", expect='silent')

# ------------------------------------------------------------------------------------------------ C01
LN = 'spatialpandas/geometry/line.py'
V('C01-y-from-even-index', 'C01', IX, "        y = flat_values[k + 1]\n        if x0 <= x <= x1 and y0 <= y <= y1:\n            vert_in_rect = True", "        y = flat_values[k]\n        if x0 <= x <= x1 and y0 <= y <= y1:\n            vert_in_rect = True", rule='C01.a')
V('C01-offsets1-for-offsets2', 'C01', IX, "polygon_offsets[:-1], polygon_offsets[1:], offsets2, element_result", "polygon_offsets[:-1], polygon_offsets[1:], offsets1, element_result", rule='C01.a')
V('C01-wrapper-box-args-swapped', 'C01', 'spatialpandas/geometry/polygon.py', "            float(x0), float(y0), float(x1), float(y1),\n            self.buffer_values, start_offsets0, stop_offsets0, offsets1, result\n        )\n        return result\n", "            float(x0), float(x1), float(y0), float(y1),\n            self.buffer_values, start_offsets0, stop_offsets0, offsets1, result\n        )\n        return result\n", rule='C01.a')
V('C01-segment-loop-overrun', 'C01', IX, "    for j in range(start, stop - 2, 2):\n        ex0 = flat_values[j]", "    for j in range(start, stop, 2):\n        ex0 = flat_values[j]", rule='C01.a')
V('C01-box-edge-swapped-axes', 'C01', IX, "        if segments_intersect(ex0, ey0, ex1, ey1, x0, y1, x1, y1):\n            segment_intersects = True\n            break\n\n        # bottom", "        if segments_intersect(ex0, ey0, ex1, ey1, y1, x0, x1, y1):\n            segment_intersects = True\n            break\n\n        # bottom", rule='C01.a')
V('C01-bbox-reject-axis-mix', 'C01', IX, "    if bounds[0] > x1 or bounds[1] > y1 or bounds[2] < x0 or bounds[3] < y0:\n        # bounds outside of rect, does not intersect\n        return\n\n    if ((bounds[0] >= x0 and bounds[2] <= x1) or\n            (bounds[1] >= y0 and bounds[3] <= y1)):\n        # bounds is fully contained in rect when both are projected onto the\n        # x or y axis\n        result[i] = True\n        return\n\n    # Check for vertices in rect",
  "    if bounds[0] > x1 or bounds[1] > x1 or bounds[2] < x0 or bounds[3] < y0:\n        # bounds outside of rect, does not intersect\n        return\n\n    if ((bounds[0] >= x0 and bounds[2] <= x1) or\n            (bounds[1] >= y0 and bounds[3] <= y1)):\n        # bounds is fully contained in rect when both are projected onto the\n        # x or y axis\n        result[i] = True\n        return\n\n    # Check for vertices in rect", rule='C01')
V('C01-cross-product-dimension', 'C01', 'spatialpandas/geometry/_algorithms/orientation.py', "    ab_x_ac = (ab_x * ac_y) - (ab_y * ac_x)", "    ab_x_ac = (ab_x * ac_x) - (ab_y * ac_y)", rule='C01.a')
V('C01-polygon-flat-segment-loop', 'C01', IX, "    for j in range(start0, stop0):\n        for k in range(offsets1[j], offsets1[j + 1] - 2, 2):", "    for j in range(1):\n        for k in range(start1, stop1 - 2, 2):", rule='C01.a')
V('C01-no-reorient-lines', 'C01', IX, "    if x1 < x0:\n        x0, x1 = x1, x0\n    if y1 < y0:\n        y0, y1, = y1, y0\n\n    if x0 == x1 or y0 == y1:\n        # Zero width/height rect does not intersect with anything\n        return\n\n    for i in range(n):\n        _perform_line_intersect_bounds(", "    if y1 < y0:\n        y0, y1, = y1, y0\n\n    if x0 == x1 or y0 == y1:\n        # Zero width/height rect does not intersect with anything\n        return\n\n    for i in range(n):\n        _perform_line_intersect_bounds(", rule='C01.b')
V('C01-point-no-reorient', 'C01', PT, "        x0, y0, x1, y1 = bounds\n        if x1 < x0:\n            x0, x1 = x1, x0\n        if y1 < y0:\n            y0, y1 = y1, y0\n        outside = (np.isnan(self.x) or", "        x0, y0, x1, y1 = bounds\n        if x1 < x0:\n            x0, x1 = x1, x0\n        outside = (np.isnan(self.x) or", rule='C01')
V('C01-inds-only-start', 'C01', LN, "        if inds is not None:\n            start_offsets0 = start_offsets0[inds]\n            stop_offsets0 = stop_offsets0[inds]", "        if inds is not None:\n            start_offsets0 = start_offsets0[inds]", rule='C01.c')
V('C01-flat-values-into-kernel', ['C01', 'C16'], LN, "            float(x0), float(y0), float(x1), float(y1),\n            self.buffer_values, start_offsets0, stop_offsets0, result\n        )\n        return result", "            float(x0), float(y0), float(x1), float(y1),\n            self.flat_values, start_offsets0, stop_offsets0, result\n        )\n        return result", rule=None, rules={'C01': 'C01', 'C16': 'C16.b'})
V('C01-multilines-all-parts', 'C01', IX, "        result[i] = element_result.any()\n\n\n@ngjit\ndef _perform_polygon", "        result[i] = element_result.all()\n\n\n@ngjit\ndef _perform_polygon", rule='C01.d')
V('C01-multipoint-strict', 'C01', IX, "            y = flat_values[j + 1]\n            if x0 <= x <= x1 and y0 <= y <= y1:\n                point_in_rect = True", "            y = flat_values[j + 1]\n            if x0 < x <= x1 and y0 <= y <= y1:\n                point_in_rect = True", rule='C01.e')
V('C01-point-strict', 'C01', PT, "                   self.x < x0 or self.x > x1 or", "                   self.x <= x0 or self.x > x1 or", rule='C01')
V('C01-pointarray-raw-values', ['C01', 'C17'], PT, "        xs = self.x\n        ys = self.y\n        if inds is not None:", "        xs = self.flat_values[0::2]\n        ys = self.flat_values[1::2]\n        if inds is not None:", rule=None, rules={'C01': 'C01', 'C17': 'C17.a'})
V('C01-1d-overlap-strict', 'C01', IX, "    return max(ax0, bx0) <= min(ax1, bx1)", "    return max(ax0, bx0) < min(ax1, bx1)", rule='C01.e')
V('C01-bbox-reject-ge', 'C01', IX, "    if bounds[0] > x1 or bounds[1] > y1 or bounds[2] < x0 or bounds[3] < y0:\n        # bounds outside of rect, does not intersect\n        return\n\n    if ((bounds[0] >= x0 and bounds[2] <= x1) or\n            (bounds[1] >= y0 and bounds[3] <= y1)):\n        # bounds is fully contained in rect when both are projected onto the\n        # x or y axis\n        result[i] = True\n        return\n\n    # Check for vertices in rect",
  "    if bounds[0] >= x1 or bounds[1] > y1 or bounds[2] < x0 or bounds[3] < y0:\n        # bounds outside of rect, does not intersect\n        return\n\n    if ((bounds[0] >= x0 and bounds[2] <= x1) or\n            (bounds[1] >= y0 and bounds[3] <= y1)):\n        # bounds is fully contained in rect when both are projected onto the\n        # x or y axis\n        result[i] = True\n        return\n\n    # Check for vertices in rect", rule='C01.f')
V('C01-shortcut-weaker', 'C01', IX, "    if ((bounds[0] >= x0 and bounds[2] <= x1) or\n            (bounds[1] >= y0 and bounds[3] <= y1)):\n        # bounds is fully contained in rect when both are projected onto the\n        # x or y axis\n        result[i] = True\n        return\n\n    # Check for vertices in rect", "    if ((bounds[0] >= x0 or bounds[2] <= x1) or\n            (bounds[1] >= y0 and bounds[3] <= y1)):\n        # bounds is fully contained in rect when both are projected onto the\n        # x or y axis\n        result[i] = True\n        return\n\n    # Check for vertices in rect", rule='C01.g')
V('C01-shortcut-demorgan-nan', ['C01', 'C17'], IX, "    if ((bounds[0] >= x0 and bounds[2] <= x1) or\n            (bounds[1] >= y0 and bounds[3] <= y1)):\n        # bounds is fully contained in rect when both are projected onto the\n        # x or y axis\n        result[i] = True\n        return\n\n    # Check for vertices in rect",
  "    if not ((bounds[0] < x0 or bounds[2] > x1) and\n            (bounds[1] < y0 or bounds[3] > y1)):\n        # bounds is fully contained in rect when both are projected onto the\n        # x or y axis\n        result[i] = True\n        return\n\n    # Check for vertices in rect", rule=None, rules={'C01': 'C01.d', 'C17': 'C17'})
V('C01-segment-prefilter-unsound', 'C01', IX, "        ey1 = flat_values[j + 3]\n\n        # top\n        if segments_intersect(ex0, ey0, ex1, ey1, x0, y1, x1, y1):\n            segment_intersects = True\n            break\n\n        # bottom\n        if segments_intersect(ex0, ey0, ex1, ey1, x0, y0, x1, y0):\n            segment_intersects = True\n            break\n\n        # left\n        if segments_intersect(ex0, ey0, ex1, ey1, x0, y0, x0, y1):\n            segment_intersects = True\n            break\n\n        # right\n        if segments_intersect(ex0, ey0, ex1, ey1, x1, y0, x1, y1):\n            segment_intersects = True\n            break\n\n    if segment_intersects:\n        result[i] = True\n\n\n@ngjit\ndef lines_intersect_bounds(",
  "        ey1 = flat_values[j + 3]\n\n        if (ex0 <= x0 and ex1 <= x0) or (ex0 >= x1 and ex1 >= x1):\n            continue\n\n        # top\n        if segments_intersect(ex0, ey0, ex1, ey1, x0, y1, x1, y1):\n            segment_intersects = True\n            break\n\n        # bottom\n        if segments_intersect(ex0, ey0, ex1, ey1, x0, y0, x1, y0):\n            segment_intersects = True\n            break\n\n        # left\n        if segments_intersect(ex0, ey0, ex1, ey1, x0, y0, x0, y1):\n            segment_intersects = True\n            break\n\n        # right\n        if segments_intersect(ex0, ey0, ex1, ey1, x1, y0, x1, y1):\n            segment_intersects = True\n            break\n\n    if segment_intersects:\n        result[i] = True\n\n\n@ngjit\ndef lines_intersect_bounds(", rule='C01.f')
V('C01-no-containment-fallback', 'C01', IX, "    if segment_intersects:\n        return\n\n        # Check if a rectangle corners is in rect\n    polygon_offsets = offsets1[start0:stop0 + 1]", "    if segment_intersects:\n        return\n\n    if stop0 - start0 > 1:\n        return\n\n        # Check if a rectangle corners is in rect\n    polygon_offsets = offsets1[start0:stop0 + 1]", rule='C01.h')
V('C01-fallback-offsets-no-fencepost', 'C01', IX, "    polygon_offsets = offsets1[start0:stop0 + 1]\n    if point_intersects_polygon(x0, y0,", "    polygon_offsets = offsets1[start0:stop0]\n    if point_intersects_polygon(x0, y0,", rule='C01')
V('C01-silent-mirrored-vertex-test', 'C01', IX, "        if x0 <= x <= x1 and y0 <= y <= y1:\n            vert_in_rect = True\n            break\n\n    if vert_in_rect:\n        result[i] = True\n        return\n\n    # Check for segment that crosses rectangle edge\n    segment_intersects = False\n    for j in range(start, stop - 2, 2):", "        if x1 >= x >= x0 and y1 >= y >= y0:\n            vert_in_rect = True\n            break\n\n    if vert_in_rect:\n        result[i] = True\n        return\n\n    # Check for segment that crosses rectangle edge\n    segment_intersects = False\n    for j in range(start, stop - 3, 2):", expect='silent')
V('C01-silent-three-edges', 'C01', IX, "        # right\n        if segments_intersect(ex0, ey0, ex1, ey1, x1, y0, x1, y1):\n            segment_intersects = True\n            break\n\n    if segment_intersects:\n        result[i] = True\n\n\n@ngjit\ndef lines_intersect_bounds(", "    if segment_intersects:\n        result[i] = True\n\n\n@ngjit\ndef lines_intersect_bounds(", expect='silent')
V('C01-silent-stricter-vertex-shortcut', 'C01', IX, "        if x0 <= x <= x1 and y0 <= y <= y1:\n            vert_in_rect = True\n            break\n\n    if vert_in_rect:\n        result[i] = True\n        return\n\n    # Check for segment that crosses rectangle edge\n    segment_intersects = False\n    for j in range(start, stop - 2, 2):", "        if x0 < x < x1 and y0 < y < y1:\n            vert_in_rect = True\n            break\n\n    if vert_in_rect:\n        result[i] = True\n        return\n\n    # Check for segment that crosses rectangle edge\n    segment_intersects = False\n    for j in range(start, stop - 2, 2):", expect='silent')

# ------------------------------------------------------------------------------------------------ C02
V('C02-edge-rule-closed', 'C02', IX, "            if y0 >= y or y1 < y or (x0 < x and x1 < x):", "            if y0 > y or y1 < y or (x0 < x and x1 < x):", rule='C02.c')
V('C02-edge-rule-open', 'C02', IX, "            if y0 >= y or y1 < y or (x0 < x and x1 < x):", "            if y0 >= y or y1 <= y or (x0 < x and x1 < x):", rule='C02.c')
V('C02-silent-horizontal-test-redundant', 'C02', IX, "            if y1 == y0:\n                # skip horizontal edges\n                continue\n", "", expect='silent')   # the half-open test already skips horizontal edges
V('C02-swap-only-y', 'C02', IX, "                y0, y1 = y1, y0\n                x0, x1 = x1, x0\n            else:\n                ascending = 1", "                y0, y1 = y1, y0\n            else:\n                ascending = 1", rule=None, expect='silent')   # x end points are only used symmetrically in the comparison-only part; the cross product (arithmetic) is not decided
V('C02-y-read-as-x', 'C02', PT, "        x = flat_points[2 * j]\n        y = flat_points[2 * j + 1]\n\n        result[i] = point_intersects_polygon(", "        x = flat_points[2 * j]\n        y = flat_points[2 * j]\n\n        result[i] = point_intersects_polygon(", rule='C02')
V('C02-write-index-j', 'C02', PT, "        result[i] = point_intersects_polygon(\n            x, y, flat_polygons, offsets\n        )", "        result[j] = point_intersects_polygon(\n            x, y, flat_polygons, offsets\n        )", rule='C02.b')
V('C02-array-polygon-outer-offsets', 'C02', PT, "            self.flat_values, polygon.buffer_values,  polygon.buffer_inner_offsets, inds\n        )", "            self.flat_values, polygon.buffer_values,  polygon.buffer_outer_offsets, inds\n        )", rule='C02')
V('C02-array-line-flat-values', 'C02', PT, "            self.flat_values, line.buffer_values,  line.buffer_inner_offsets, inds", "            self.flat_values, line.flat_values,  line.buffer_inner_offsets, inds", rule='C02.a')
V('C02-multiline-dispatch-missing', 'C02', PT, "        elif isinstance(shape, MultiLine):\n            result = self._intersects_line(shape, inds)\n", "", rule='C02.b')
V('C02-array-line-no-segment-routine', 'C02', PT, "                intersects_segment = segment_intersects_point(ax0, ay0, ax1, ay1, x, y)\n                if intersects_segment:", "                intersects_segment = (ax1 - ax0) * (y - ay0) - (ay1 - ay0) * (x - ax0) == 0\n                if intersects_segment:", rule='C02.b')
V('C02-accumulator-reset', 'C02', PT, "                intersects_segment = segment_intersects_point(ax0, ay0, ax1, ay1, x, y)\n                if intersects_segment:\n                    result[i] = True\n                    break", "                result[i] = segment_intersects_point(ax0, ay0, ax1, ay1, x, y)\n                if result[i]:\n                    break", rule='C02.b')
V('C02-prefilter-strict', 'C02', PT, "            if x < bounds[0] or y < bounds[1] or x > bounds[2] or y > bounds[3]:", "            if x <= bounds[0] or y < bounds[1] or x > bounds[2] or y > bounds[3]:", rule='C02.b')
V('C02-segment-bbox-open', 'C02', IX, "    if bx < min(ax0, ax1) or bx > max(ax0, ax1):\n        return False", "    if bx <= min(ax0, ax1) or bx > max(ax0, ax1):\n        return False", rule='C02.e')
V('C02-segment-bbox-axis', 'C02', IX, "    if by < min(ay0, ay1) or by > max(ay0, ay1):\n        return False", "    if by < min(ay0, ay1) or by > max(ax0, ay1):\n        return False", rule='C02')
V('C02-segment-cross-dimension', 'C02', IX, "    sxp = sx * py - sy * px", "    sxp = sx * px - sy * py", rule='C02.e')
V('C02-neighbour-vertices-skip', 'C02', PT, "                ax1 = line_xs[m + 1]\n                ay1 = line_ys[m + 1]\n                intersects_segment", "                ax1 = line_xs[m + 1]\n                ay1 = line_ys[m]\n                intersects_segment", rule='C02.a')
V('C02-reintroduce-D3', ['C02', 'C17'], PT, "        return result & ~missing\n", "        return result\n", rule=None, rules={'C02': 'C02.d', 'C17': 'C17.a'})
V('C02-default-inds-dropped', 'C02', PT, "    def _intersects_polygon(self, polygon, inds):\n        if inds is None:\n            inds = np.arange(len(self))\n", "    def _intersects_polygon(self, polygon, inds):\n", rule='C02.b')
V('C02-silent-other-half-open', 'C02', IX, "            if y0 >= y or y1 < y or (x0 < x and x1 < x):", "            if y0 > y or y1 <= y or (x0 < x and x1 < x):", expect='silent')

# ------------------------------------------------------------------------------------------------ C17
V('C17-line-length-reads-before-loop', 'C17', ME, "            x0 = x1\n            y0 = y1\n\n    return total_len", "            x0 = x1\n            y0 = y1\n        total_len += 0.0 * x0\n\n    return total_len", rule='C17.b')
V('C17-reintroduce-D18', ['C17'], SJ, "        if np.isnan(shape_bounds).any():\n            continue\n", "", rule='C17.d')
V('C17-dask-total-bounds-numpy', ['C17'], D, "            np.nanmin(partition_bounds['x0']),", "            np.min(partition_bounds['x0'].values),", rule='C17.f')
