"""D31 (C12): reading some of the part files of a dataset (a list or a glob of part files) attached the
WHOLE bounds table of the dataset's _common_metadata to every file read: 16 bounds rows for 4 partitions,
row i does not describe partition i, `cx` raises IndexError or silently looks at the wrong extents, and
`bounds=` raises.  After the fix the table is only reported when it has one row per file read.

Run:  /venv/bin/python demos/D31_bounds_rows_of_other_files.py      (exit 0 = property holds)
"""
import os
import sys
import tempfile
import warnings

import dask.dataframe as dd
import numpy as np

from spatialpandas import GeoDataFrame
from spatialpandas.geometry import PointArray
from spatialpandas.io import read_parquet_dask

warnings.filterwarnings('ignore')
n = 40
df = GeoDataFrame({'g': PointArray(np.arange(2 * n, dtype='f8').reshape(n, 2)), 'a': np.arange(n)})
ddf = dd.from_pandas(df, npartitions=4)
d = tempfile.mkdtemp()
p = os.path.join(d, 'ds.parquet')
ddf.to_parquet(p)
p2 = os.path.join(d, 'packed.parquet')
ddf.pack_partitions_to_parquet(p2, npartitions=4)

bad = 0
specs = {
    'dataset directory': p,
    'glob of the part files': os.path.join(p, '*.parquet'),
    'glob of dataset directories': os.path.join(d, 'ds*.parquet'),
    'two of the part files': [os.path.join(p, 'part.2.parquet'), os.path.join(p, 'part.3.parquet')],
    'packed dataset': p2,
    'packed dataset, part files': os.path.join(p2, '*.parquet'),
    'both datasets': [p, p2],
}
for what, spec in specs.items():
    r = read_parquet_dask(spec)
    whole = r.compute()
    pb = r._partition_bounds or {}
    for col, tbl in pb.items():
        if len(tbl) != r.npartitions:
            print(f'{what}: {len(tbl)} bounds rows for {r.npartitions} partitions')
            bad += 1
            continue
        for i in range(r.npartitions):
            tb = r.partitions[i].compute()[col].total_bounds
            if not np.allclose(tbl.iloc[i].values, tb, equal_nan=True):
                print(f'{what}: bounds row {i} = {tuple(tbl.iloc[i])} but the partition spans {tb}')
                bad += 1
    for box in [(0, 0, 10, 10), (50, 50, 60, 62), (30, 1, 2, 40)]:
        x0, y0, x1, y1 = box
        expected = len(whole.cx[x0:x1, y0:y1])
        try:
            got = len(r.cx[x0:x1, y0:y1].compute())
        except Exception as e:
            print(f'{what}: cx{box} raised {type(e).__name__}: {e}')
            bad += 1
            continue
        if got != expected:
            print(f'{what}: cx{box} gave {got} rows, expected {expected}')
            bad += 1
        try:
            r2 = read_parquet_dask(spec, bounds=box)
            got2 = len(r2.cx[x0:x1, y0:y1].compute())
            if got2 != expected:
                print(f'{what}: bounds={box} then cx gave {got2} rows, expected {expected}')
                bad += 1
        except Exception as e:
            print(f'{what}: bounds={box} raised {type(e).__name__}: {e}')
            bad += 1
print('violations:', bad)
sys.exit(1 if bad else 0)
