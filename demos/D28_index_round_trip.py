import numpy as np, pandas as pd, tempfile, os, shutil
import dask.dataframe as dd
from spatialpandas import GeoDataFrame
from spatialpandas.geometry import PointArray
from spatialpandas.io import read_parquet, read_parquet_dask, to_parquet
if __name__ == "__main__":
    d = tempfile.mkdtemp()
    bad = []
    try:
        for name in (None, 'id'):
            for idx in ([10, 20, 30], [0, 1, 2], ['a', 'b', 'c'], [5, 5, 7]):
                df = GeoDataFrame({'geometry': PointArray([[0, 0], [1, 1], [2, 2]]), 'v': [1, 2, 3], 'w': [4, 5, 6]}, index=pd.Index(idx, name=name))
                p = os.path.join(d, 'a.parquet')
                to_parquet(df, p)
                for cols in (None, ['v', 'geometry'], ['geometry']):
                    r = read_parquet(p, columns=cols)
                    if r.index.tolist() != idx or r.index.name != name or (cols is not None and r.columns.tolist() != cols):
                        bad.append(('pandas', name, idx, cols, r.index.tolist(), r.index.name, r.columns.tolist()))
                p4 = os.path.join(d, 'd.parq')
                shutil.rmtree(p4, ignore_errors=True)
                dd.from_pandas(df, npartitions=2, sort=False).to_parquet(p4)
                for cols in (None, ['v', 'geometry']):
                    r = read_parquet_dask(p4, columns=cols).compute()
                    if r.index.tolist() != idx or r.index.name != name or (cols is not None and r.columns.tolist() != cols):
                        bad.append(('dask', name, idx, cols, r.index.tolist(), r.index.name, r.columns.tolist()))
    finally:
        shutil.rmtree(d, ignore_errors=True)
    for b in bad:
        print('WRONG', b)
    print(len(bad), 'wrong round trips')
    raise SystemExit(1 if bad else 0)
