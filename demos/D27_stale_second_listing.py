import os, shutil, tempfile, numpy as np, pandas as pd, dask
import dask.dataframe as dd
from fsspec.implementations.local import LocalFileSystem
from spatialpandas import GeoDataFrame
from spatialpandas.geometry import PointArray
from spatialpandas.io import read_parquet_dask


class StaleOnce(LocalFileSystem):
    """The k-th directory enumeration (ls/find) of a temp part directory omits one entry (a stale listing); everything else is normal."""
    log = []
    k = None
    count = 0

    def _maybe_stale(self, path, res, kind):
        if 'tmp' not in str(path) and 'part.' not in os.path.basename(str(path).rstrip('/')):
            return res
        entries = res if isinstance(res, list) else list(res)
        if not any(str(e if isinstance(e, str) else e.get('name', '')).endswith('.parquet') for e in (entries if isinstance(res, list) else res.values() if isinstance(res, dict) else entries)):
            return res
        type(self).count += 1
        type(self).log.append((type(self).count, kind, str(path)))
        if type(self).count == type(self).k:
            if isinstance(res, dict):
                key = sorted(k_ for k_ in res if k_.endswith('.parquet'))[0]
                res = {k_: v for k_, v in res.items() if k_ != key}
            else:
                names = sorted((e if isinstance(e, str) else e['name']) for e in res)
                drop = [n for n in names if n.endswith('.parquet')][0]
                res = [e for e in res if (e if isinstance(e, str) else e['name']) != drop]
        return res

    def ls(self, path, detail=False, **kw):
        return self._maybe_stale(path, super().ls(path, detail=detail, **kw), 'ls')

    def find(self, path, maxdepth=None, withdirs=False, detail=False, **kw):
        return self._maybe_stale(path, super().find(path, maxdepth=maxdepth, withdirs=withdirs, detail=detail, **kw), 'find')


def run(k):
    StaleOnce.k, StaleOnce.count, StaleOnce.log = k, 0, []
    root = tempfile.mkdtemp()
    try:
        rng = np.random.default_rng(1)
        df = GeoDataFrame({'geometry': PointArray(rng.random((60, 2)) * 100), 'v': np.arange(60)})
        ddf = dd.from_pandas(df, npartitions=4)
        fs = StaleOnce()
        path = os.path.join(root, 'ds')
        with dask.config.set(scheduler='synchronous'):
            try:
                out = ddf.pack_partitions_to_parquet(path, filesystem=fs, npartitions=3, p=6, _retry_args=dict(wait_exponential_multiplier=1, wait_exponential_max=2, stop_max_attempt_number=3))
            except Exception as e:
                return 'raised ' + type(e).__name__, None
            rows = sorted(read_parquet_dask(path, filesystem=LocalFileSystem()).compute().v.tolist())
        return 'returned', rows
    finally:
        shutil.rmtree(root, ignore_errors=True)


if __name__ == "__main__":
    status, rows = run(None)
    n_calls = StaleOnce.count
    print('fault-free:', status, len(rows), 'rows;', n_calls, 'enumerations of part directories')
    bad = []
    for k in range(1, n_calls + 1):
        status, rows = run(k)
        what = [l for l in StaleOnce.log if l[0] == k]
        if status == 'returned' and rows != list(range(60)):
            bad.append((k, what, len(rows)))
        print(k, status, None if rows is None else len(rows), what[:1])
    print('SILENTLY WRONG:', bad)
    raise SystemExit(1 if bad else 0)
