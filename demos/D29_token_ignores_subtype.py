"""D29: the dask token of a geometry array ignored its coordinate subtype.

Two frames with equal numbers but float32 / float64 coordinates had equal tokens, so
dd.from_pandas(second) returned the collection built from the first (wrong dtype in
meta, partitions and results).  Exits 1 on the defective tree, 0 on the repaired one.
Run: /venv/bin/python demos/D29_token_ignores_subtype.py
"""
import sys

import dask.dataframe as dd
from dask.base import tokenize

import spatialpandas as sp
from spatialpandas.geometry import LineArray

if __name__ == "__main__":
    a32 = LineArray([[0, 0, 1, 1], [2, 2, 3, 3]], dtype='float32')
    a64 = LineArray([[0, 0, 1, 1], [2, 2, 3, 3]], dtype='float64')
    d32, d64 = sp.GeoDataFrame({'g': a32}), sp.GeoDataFrame({'g': a64})
    x32 = dd.from_pandas(d32, npartitions=1)
    x64 = dd.from_pandas(d64, npartitions=1)
    got = str(x64.compute().dtypes['g'])
    print('tokens equal:', tokenize(a32) == tokenize(a64), '| dtype of the float64 frame through dask:', got)
    sys.exit(0 if got == 'line[float64]' and tokenize(a32) != tokenize(a64) else 1)
