"""D30: a missing element in the input of PointArray(...) changed the coordinates of the other points.

With a None in the list the constructor infers the dtype from the first non-missing element only:
[None, [1, 2], [1.5, 2.5]] became int64 and stored (1, 2) for the last point.
Exits 1 on the defective tree, 0 on the repaired one.  Run: /venv/bin/python demos/D30_dtype_from_first_element.py
"""
import sys

from spatialpandas.geometry import PointArray

if __name__ == "__main__":
    plain = PointArray([[1, 2], [1.5, 2.5]])
    bad = 0
    for data, rows in (([None, [1, 2], [1.5, 2.5]], (1, 2)), ([[1, 2], None, [1.5, 2.5]], (0, 2)), ([[1, 2], [1.5, 2.5], None], (0, 1))):
        a = PointArray(data)
        got = [(a[i].x, a[i].y) for i in rows]
        want = [(plain[i].x, plain[i].y) for i in (0, 1)]
        print(a.dtype, got, 'expected', want)
        bad += got != want
    sys.exit(1 if bad else 0)
