"""E-CFG: statement-level control-flow graph per function, reachability with blocked nodes
(must-pass-through / ordering queries) and dominators.

Nodes are integers; node -> ast statement (the header for compound statements) or a marker string
('ENTRY', 'EXIT' = normal return / fall off the end, 'RAISE' = exceptional exit).
`raise`, and calls to local helpers that always raise, go to RAISE.  Exceptions raised implicitly by
calls are not modelled except inside `try` bodies (every statement of a try body may jump to each handler).
"""
import ast


class CFG:
    def __init__(self, func_node, always_raises=()):
        self.succ = {}
        self.stmt = {}
        self.always_raises = set(always_raises)
        self.ENTRY = self._new('ENTRY')
        self.EXIT = self._new('EXIT')
        self.RAISE = self._new('RAISE')
        body = func_node.body if isinstance(func_node.body, list) else [ast.Expr(func_node.body)]
        first, outs = self._block(body, None, None, [])
        self._edge(self.ENTRY, first if first is not None else self.EXIT)
        for o in outs:
            self._edge(o, self.EXIT)
        self.pred = {n: set() for n in self.succ}
        for a, bs in self.succ.items():
            for b in bs:
                self.pred[b].add(a)
        self.node_of = {}
        for n, s in self.stmt.items():
            if isinstance(s, ast.AST):
                self.node_of[id(s)] = n

    def _new(self, s):
        n = len(self.succ)
        self.succ[n] = set()
        self.stmt[n] = s
        return n

    def _edge(self, a, b):
        if a is not None and b is not None:
            self.succ[a].add(b)

    def _is_always_raise_call(self, s):
        if isinstance(s, ast.Expr) and isinstance(s.value, ast.Call) and isinstance(s.value.func, ast.Name):
            return s.value.func.id in self.always_raises
        return False

    def _block(self, body, loop_head, loop_exit_collect, handlers):
        """Returns (first_node, [dangling nodes that fall through to whatever follows])."""
        first = None
        dangling = []          # nodes whose fall-through goes to the next statement
        started = False
        for s in body:
            n_first, n_outs = self._stmt(s, loop_head, loop_exit_collect, handlers)
            if n_first is None:
                continue
            if not started:
                first = n_first
                started = True
            else:
                for d in dangling:
                    self._edge(d, n_first)
            dangling = n_outs
        if not started:
            return None, []
        return first, dangling

    def _stmt(self, s, loop_head, loop_breaks, handlers):
        n = self._new(s)
        for h in handlers:
            self._edge(n, h)
        if isinstance(s, ast.Return):
            self._edge(n, self.EXIT)
            return n, []
        if isinstance(s, ast.Raise) or self._is_always_raise_call(s):
            if not handlers:
                self._edge(n, self.RAISE)
            return n, []
        if isinstance(s, ast.Break):
            loop_breaks.append(n)
            return n, []
        if isinstance(s, ast.Continue):
            self._edge(n, loop_head)
            return n, []
        if isinstance(s, ast.If):
            outs = []
            for branch in (s.body, s.orelse):
                f, o = self._block(branch, loop_head, loop_breaks, handlers)
                if f is None:
                    outs.append(n)
                else:
                    self._edge(n, f)
                    outs.extend(o)
            return n, outs
        if isinstance(s, (ast.For, ast.While, ast.AsyncFor)):
            breaks = []
            f, o = self._block(s.body, n, breaks, handlers)
            if f is not None:
                self._edge(n, f)
                for d in o:
                    self._edge(d, n)
            outs = list(breaks)
            infinite = isinstance(s, ast.While) and isinstance(s.test, ast.Constant) and s.test.value is True
            if s.orelse:
                ef, eo = self._block(s.orelse, loop_head, loop_breaks, handlers)
                if ef is not None:
                    if not infinite:
                        self._edge(n, ef)
                    outs.extend(eo)
                elif not infinite:
                    outs.append(n)
            elif not infinite:
                outs.append(n)
            return n, outs
        if isinstance(s, (ast.With, ast.AsyncWith)):
            f, o = self._block(s.body, loop_head, loop_breaks, handlers)
            if f is None:
                return n, [n]
            self._edge(n, f)
            return n, o
        if isinstance(s, ast.Try):
            hfirsts = []
            houts = []
            for h in s.handlers:
                hn = self._new(h)
                for oh in handlers:
                    self._edge(hn, oh)
                f, o = self._block(h.body, loop_head, loop_breaks, handlers)
                if f is None:
                    houts.append(hn)
                else:
                    self._edge(hn, f)
                    houts.extend(o)
                hfirsts.append(hn)
            f, o = self._block(s.body, loop_head, loop_breaks, handlers + hfirsts)
            outs = []
            if f is None:
                o = [n]
            else:
                self._edge(n, f)
            if s.orelse:
                ef, eo = self._block(s.orelse, loop_head, loop_breaks, handlers)
                if ef is not None:
                    for d in o:
                        self._edge(d, ef)
                    o = eo
            outs = list(o) + houts
            if s.finalbody:
                ff, fo = self._block(s.finalbody, loop_head, loop_breaks, handlers)
                if ff is not None:
                    for d in outs:
                        self._edge(d, ff)
                    outs = fo
            return n, outs
        # simple statement (Assign, Expr, nested def, ...)
        return n, [n]

    # ------------------------------------------------------------------ queries
    def nodes(self, pred=None):
        return [n for n, s in self.stmt.items() if isinstance(s, ast.AST) and (pred is None or pred(s))]

    def reachable_from(self, src, blocked=()):
        blocked = set(blocked)
        seen = set()
        stack = [src]
        while stack:
            n = stack.pop()
            if n in seen:
                continue
            seen.add(n)
            for m in self.succ[n]:
                if m not in blocked and m not in seen:
                    stack.append(m)
        return seen

    def can_reach(self, src, dst, blocked=()):
        """Is there a path src -> ... -> dst that avoids `blocked` nodes (src itself is never blocked)?"""
        return dst in self.reachable_from(src, blocked)

    def every_path_passes(self, src, dst, through):
        """Every path from src to dst passes through a node of `through`."""
        through = set(through)
        if src in through or dst in through:
            return True
        return not self.can_reach(src, dst, blocked=through)

    def dominates(self, a, b):
        """Every path ENTRY -> b passes through a."""
        if a == b:
            return True
        return not self.can_reach(self.ENTRY, b, blocked={a})

    def node(self, stmt):
        return self.node_of.get(id(stmt))


def build(func_node, always_raises=()):
    return CFG(func_node, always_raises)
