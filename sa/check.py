#!/usr/bin/env python3
"""Driver:  python3 sa/check.py <Cxx> [--tier quick|thorough] [--replay <file>]

Parses /repo's (or $VERIF_REPO's) current working tree, runs the rules of one property and reports.
Static analysis only: nothing from the repository is imported or executed.
"""
import argparse
import importlib
import json
import os
import sys
import traceback

HERE = os.path.dirname(os.path.abspath(__file__))
sys.path.insert(0, HERE)

from model import AnalysisError, load_program  # noqa: E402
import report  # noqa: E402


def main():
    ap = argparse.ArgumentParser()
    ap.add_argument('prop')
    ap.add_argument('--tier', default=os.environ.get('VERIF_TIER', 'quick'), choices=['quick', 'thorough'])
    ap.add_argument('--replay', default=None)
    ap.add_argument('--no-selftest', action='store_true')
    a = ap.parse_args()
    if a.replay:
        print(open(a.replay).read())
        print('(static findings: re-run the check to re-evaluate them on the current tree)')
    try:
        mod = importlib.import_module(f'rules.{a.prop}')
        P = load_program()
        res = report.Results(a.prop, a.tier)
        try:
            mod.run(P, res, a.tier)
            res.raise_deferred()
        except AnalysisError as e:
            # definite violations found before the analysis got stuck are still a verdict
            known = {(k['rule'], k['site'], k['construct']) for k in report.load_known() if k.get('property') == a.prop and k.get('status') == 'known'}
            if not any(o.status == 'violated' and o.key() not in known for o in res.obs):
                raise
            res.notes.append(f'analysis incomplete after the reported violations: {e}')
            print(f'note: analysis incomplete after the reported violations: {e}')
        if a.tier == 'thorough' and not a.no_selftest and os.environ.get('VERIF_REPO') is None:
            import selftest
            selftest.run_for_property(a.prop, res)
            selftest.run_transforms_for_property(a.prop, res)
        rc = report.finish(res, mod.EXPLANATION)
    except AnalysisError as e:
        print(f'ANALYSIS-ERROR property={a.prop} {e}')
        return 2
    except Exception:
        traceback.print_exc()
        print(f'ANALYSIS-ERROR property={a.prop} internal exception (see traceback)')
        return 2
    return rc


if __name__ == '__main__':
    sys.exit(main())
