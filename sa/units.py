"""E-UNITS: a units / levels type system for Arrow-backed geometry, by abstract interpretation.

Structure is concrete (tuples, lists, lengths, isinstance on abstract objects, class attributes, MRO lookup) and
numbers are abstract.  Abstract values:

  Idx(level, base, parity, origin, delta)   index into level k (0 = elements ... L = coordinates)
  Off(level, win, top)                      offsets array: indexed by Idx(level) -> Idx(level+1, abs)
  OffC(level, to, win, top)                 composed offsets level -> to
  Vals(L, base, placeholder)                interleaved coordinate buffer (even = x, odd = y)
  Q(dim, pos, role, owner)                  dimensioned quantity (Coord = Q({axis:1}, pos=True))
  Arr / Rows / Sel / Mask / Tup / Const / Obj / ArrowArr / Buf / Func / ClassV / Ext / TOP

Only DEFINITE mismatches are reported (anything involving TOP never is).  Report kinds: axis, level, base,
parity, layout/role, dim, range (in-loop read beyond the part), fencepost.
"""
import ast

from model import FuncInfo, ClassInfo, full as norm


class AV:
    def __repr__(self):
        return self.__class__.__name__ + '(' + ','.join(f'{k}={v!r}' for k, v in self.__dict__.items() if not k.startswith('_')) + ')'

    def key(self):
        return repr(self)


class Top(AV):
    pass


class Empty(AV):
    """An empty array literal (np.array([])): the identity of join."""
    pass


EMPTY = Empty()


TOP = Top()


class Const(AV):
    def __init__(self, v):
        self.v = v


class Tup(AV):
    def __init__(self, items, islist=False):
        self.items = list(items)
        self.islist = islist


class Idx(AV):
    def __init__(self, level, base='abs', parity=None, origin=None, delta=0):
        self.level, self.base, self.parity, self.origin, self.delta = level, base, parity, origin, delta


class Off(AV):
    def __init__(self, level, win, top, role=None, tbase='abs'):
        # role: None | 'start' | 'stop' (views offs[:-1] / offs[1:]); tbase: base of the indices it yields ('abs' whole buffer, 'win' re-based)
        self.level, self.win, self.top, self.role, self.tbase = level, win, top, role, tbase


class OffC(AV):
    def __init__(self, level, to, win, top):
        self.level, self.to, self.win, self.top = level, to, win, top


class Vals(AV):
    def __init__(self, L, base='abs', placeholder=False, fresh=False):
        self.L, self.base, self.placeholder, self.fresh = L, base, placeholder, fresh


class Q(AV):
    def __init__(self, dim, pos=False, role=None, owner=None):
        self.dim, self.pos, self.role, self.owner = dict(dim), pos, role, owner


def Coord(axis, role='vertex', owner='elem'):
    return Q({axis: 1}, True, role, owner)


class Arr(AV):
    def __init__(self, el, level=None):
        self.el, self.level = el, level


class Rows(AV):
    def __init__(self, layout, level=None):
        self.layout, self.level = layout, level


class Sel(AV):
    def __init__(self, level):
        self.level = level


class SelFx(AV):
    def __init__(self, level, parity):
        self.level, self.parity = level, parity


class Mask(AV):
    def __init__(self, level):
        self.level = level


class Boolean(AV):
    pass


BOOL = Boolean()


class Num(AV):
    pass


NUM = Num()


class ArrowArr(AV):
    """pyarrow list array with L list levels (window at level 0); fixed=True for FixedSizeBinary; mask = validity supplied?"""

    def __init__(self, L, fixed=False, mask=None, offsets=None, scalar=False):
        self.L, self.fixed, self.mask, self.offsets, self.scalar = L, fixed, mask, offsets, scalar


class Buf(AV):
    def __init__(self, kind, level=None, L=None):
        self.kind, self.level, self.L = kind, level, L


class Obj(AV):
    def __init__(self, cls, fields=None):
        self.cls, self.fields = cls, fields or {}

    def __repr__(self):
        return f'Obj({self.cls.name})'

    def key(self):
        return f'Obj({self.cls.name},{sorted((k, v.key()) for k, v in self.fields.items() if isinstance(v, AV))})'


class Func(AV):
    def __init__(self, fi, self_obj=None):
        self.fi, self.self_obj = fi, self_obj

    def __repr__(self):
        return f'Func({self.fi.qualname})'


class ClassV(AV):
    def __init__(self, ci):
        self.ci = ci

    def __repr__(self):
        return f'ClassV({self.ci.name})'


class Ext(AV):
    def __init__(self, name):
        self.name = name


class BoundExt(AV):
    def __init__(self, obj, name):
        self.obj, self.name = obj, name


class RangeV(AV):
    def __init__(self, a, b, s):
        self.a, self.b, self.s = a, b, s
        self.hi_slack = 0


class EnumV(AV):
    def __init__(self, inner):
        self.inner = inner


class ZipV(AV):
    def __init__(self, parts):
        self.parts = parts


class FreshSlot(AV):
    n = 0

    def __init__(self):
        FreshSlot.n += 1
        self.i = FreshSlot.n
        self._bound = None

    def bind(self, v):
        if isinstance(v, FreshSlot):
            v = v._bound
        if v is not None:
            self._bound = join(self._bound, v)

    def key(self):
        return f'Slot({self._bound.key() if self._bound is not None else "?"})'

    def __repr__(self):
        return self.key()


class Return(Exception):
    def __init__(self, v):
        self.v = v


class LoopCtl(Exception):
    def __init__(self, kind):
        self.kind = kind


def fmt(q):
    if isinstance(q, Q):
        d = '·'.join(f'{k}^{v}' if v != 1 else str(k) for k, v in q.dim.items()) if q.dim else 'scalar'
        return d + (f'[{q.role}]' if q.role and q.role != 'vertex' else '')
    return repr(q)


def is_sq(q):
    return len(q.dim) == 1 and list(q.dim.values()) == [2]


def join(a, b):
    if a is None:
        return b
    if b is None:
        return a
    if a is b or a.key() == b.key():
        return a
    if isinstance(a, Empty):
        return b
    if isinstance(b, Empty):
        return a
    if isinstance(a, FreshSlot):
        a = a._bound if a._bound is not None else None
        return join(a, b)
    if isinstance(b, FreshSlot):
        b = b._bound if b._bound is not None else None
        return join(a, b)
    if isinstance(a, Tup) and isinstance(b, Tup) and len(a.items) == len(b.items):
        return Tup([join(x, y) for x, y in zip(a.items, b.items)], a.islist)
    if isinstance(a, Idx) and isinstance(b, Idx) and a.level == b.level and a.base == b.base:
        return Idx(a.level, a.base, a.parity if a.parity == b.parity else None)
    if isinstance(a, Q) and isinstance(b, Q) and a.dim == b.dim:
        return Q(a.dim, a.pos and b.pos, a.role if a.role == b.role else None, a.owner if a.owner == b.owner else None)
    if (isinstance(a, Q) and isinstance(b, Const)) or (isinstance(b, Q) and isinstance(a, Const)):
        return a if isinstance(a, Q) else b          # nan / inf sentinels joined with coordinates
    if isinstance(a, Off) and isinstance(b, Off) and a.level == b.level and a.top == b.top and a.tbase == b.tbase:
        r_ = Off(a.level, a.win or b.win, a.top, a.role if a.role == b.role else None, a.tbase)
        if getattr(a, 'synthetic', False) or getattr(b, 'synthetic', False):
            r_.synthetic = True       # may be the scalar wrappers' one-element offsets: positions count in the array they were measured on
        return r_
    if isinstance(a, Vals) and isinstance(b, Vals) and a.L == b.L:
        return Vals(a.L, a.base if a.base == b.base else 'mixed', a.placeholder or b.placeholder, a.fresh and b.fresh)
    if isinstance(a, Arr) and isinstance(b, Arr):
        return Arr(join(a.el, b.el), a.level if a.level == b.level else None)
    if isinstance(a, Rows) and isinstance(b, Rows) and len(a.layout.items) == len(b.layout.items):
        return Rows(Tup([join(x, y) or FreshSlot() for x, y in zip(a.layout.items, b.layout.items)]), a.level if a.level is not None else b.level)
    if isinstance(a, (Boolean, Mask)) and isinstance(b, (Boolean, Mask, Const)):
        return a
    if isinstance(b, (Boolean, Mask)) and isinstance(a, Const):
        return b
    if isinstance(a, Num) and isinstance(b, (Num, Const)) or isinstance(b, Num) and isinstance(a, Const):
        return NUM
    if isinstance(a, Const) and isinstance(b, Const):
        if isinstance(a.v, (int, float)) and isinstance(b.v, (int, float)):
            return NUM
    return TOP


def join_all(items):
    v = items[0]
    for w in items[1:]:
        v = join(v, w)
    return v


BUILTINS = {'len', 'range', 'enumerate', 'float', 'int', 'min', 'max', 'isinstance', 'any', 'tuple', 'list', 'zip', 'sqrt', 'prange', 'abs', 'all', 'sum', 'type', 'bool'}


class Reports:
    def __init__(self):
        self.items = []
        self.keys = set()
        self.stats = {'cmp': 0, 'sub': 0, 'arith': 0, 'calls': 0, 'minmax': 0}

    def add(self, kind, fi, node, msg, stack):
        k = (kind, fi.key if fi is not None else '', norm(node) if node is not None else '', msg)
        if k in self.keys:
            return
        self.keys.add(k)
        self.items.append({'kind': kind, 'fi': fi, 'node': node, 'msg': msg, 'stack': ' <- '.join(reversed(stack[-5:]))})


class Interp:
    def __init__(self, prog):
        self.P = prog
        self.R = Reports()
        self.stack = []
        self.fstack = []
        self.memo = {}
        self.events = []      # (kind, fi, node, payload) for rule modules: 'from_arrays', 'call', 'ctor', 'store'
        self.typed_funcs = set()

    @property
    def cur(self):
        return self.fstack[-1] if self.fstack else None

    def err(self, kind, node, msg):
        self.R.add(kind, self.cur, node, msg, self.stack)

    # ------------------------------------------------------------------ calls
    def call_func(self, f, args, kwargs, node=None):
        if len(self.stack) > 25:
            return TOP
        fi = f.fi
        fn = fi.node
        if isinstance(fn, ast.Lambda):
            params = [a.arg for a in fn.args.args]
            defaults = fn.args.defaults
        else:
            params = [a.arg for a in fn.args.posonlyargs + fn.args.args]
            defaults = fn.args.defaults
        env = {}
        pos = list(args)
        if f.self_obj is not None and fi.kind in ('method', 'property'):
            pos = [f.self_obj] + pos
        elif fi.kind == 'classmethod':
            pos = [ClassV(f.self_obj.cls) if isinstance(f.self_obj, Obj) else (f.self_obj if f.self_obj is not None else TOP)] + pos
        for i, p in enumerate(params):
            if i < len(pos):
                env[p] = pos[i]
            elif p in kwargs:
                env[p] = kwargs[p]
            else:
                di = i - (len(params) - len(defaults))
                env[p] = self.eval(defaults[di], {}, fi) if di >= 0 else TOP
        if not isinstance(fn, ast.Lambda):
            for a, d in zip(fn.args.kwonlyargs, fn.args.kw_defaults):
                env[a.arg] = kwargs.get(a.arg, self.eval(d, {}, fi) if d is not None else TOP)
        # calls that receive a mutable result slot are never memoised
        mutable = any(isinstance(v, (Arr, Rows)) and isinstance(getattr(v, 'el', None) or getattr(v, 'layout', None), (FreshSlot, Tup)) for v in env.values())
        key = (id(fn), tuple(v.key() for v in env.values()))
        if not mutable and key in self.memo:
            return self.memo[key]
        self.memo[key] = TOP
        self.stack.append(fi.qualname)
        self.fstack.append(fi)
        self.typed_funcs.add(fi.key)
        self.R.stats['calls'] += 1
        ret = None
        try:
            if isinstance(fn, ast.Lambda):
                ret = self.eval(fn.body, env, fi)
            else:
                self.exec_block(fn.body, env, fi)
        except Return as r:
            ret = r.v
        except LoopCtl:
            pass
        ret = join(ret, env.get('__ret__'))
        self.stack.pop()
        self.fstack.pop()
        if ret is None:
            ret = Const(None)
        self.memo[key] = ret
        return ret

    # ------------------------------------------------------------------ statements
    def exec_block(self, body, env, fi):
        for s in body:
            self.exec(s, env, fi)

    def record_ret(self, env, v):
        env['__ret__'] = join(env.get('__ret__'), v)

    def exec(self, s, env, fi):
        if isinstance(s, ast.Return):
            v = self.eval(s.value, env, fi) if s.value else Const(None)
            raise Return(v)
        if isinstance(s, ast.Assign):
            v = self.eval(s.value, env, fi)
            for t in s.targets:
                self.assign(t, v, env, fi, s)
        elif isinstance(s, ast.AnnAssign):
            if s.value is not None:
                self.assign(s.target, self.eval(s.value, env, fi), env, fi, s)
        elif isinstance(s, ast.AugAssign):
            load = ast.parse(ast.unparse(s.target), mode='eval').body
            ast.copy_location(load, s.target)
            for n in ast.walk(load):
                ast.copy_location(n, s.target)
            cur = self.binop(self.eval(load, env, fi), s.op, self.eval(s.value, env, fi), s)
            self.assign(s.target, cur, env, fi, s)
        elif isinstance(s, ast.Expr):
            self.eval(s.value, env, fi)
        elif isinstance(s, ast.If):
            c = self.eval(s.test, env, fi)
            if isinstance(c, Const) and not isinstance(c.v, (Top,)):
                self.exec_block(s.body if c.v else s.orelse, env, fi)
            else:
                e1, e2 = dict(env), dict(env)
                r1 = self.exec_branch(s.body, e1, fi)
                r2 = self.exec_branch(s.orelse, e2, fi)
                live = [e for e, r in ((e1, r1), (e2, r2)) if r is None]
                for r in (r1, r2):
                    if isinstance(r, Return):
                        self.record_ret(env, r.v)
                for e in (e1, e2):
                    if '__ret__' in e:
                        self.record_ret(env, e['__ret__'])
                if not live:
                    if isinstance(r1, Return) and isinstance(r2, Return):
                        raise Return(join(r1.v, r2.v))
                    raise (r1 if not isinstance(r1, Return) else r2)
                ks = set().union(*[set(e) for e in live])
                for k in ks:
                    if k.startswith('__'):
                        continue
                    vals = [e.get(k) for e in live]
                    v = vals[0]
                    for w in vals[1:]:
                        v = join(v, w) if (v is not None and w is not None) else (v or w)
                    env[k] = v
        elif isinstance(s, ast.For):
            self.exec_for(s, env, fi)
        elif isinstance(s, ast.While):
            for _ in range(2):
                try:
                    self.exec_block(s.body, env, fi)
                except LoopCtl as l:
                    if l.kind in ('break', 'raise'):
                        break
        elif isinstance(s, ast.Break):
            raise LoopCtl('break')
        elif isinstance(s, ast.Continue):
            raise LoopCtl('continue')
        elif isinstance(s, ast.Raise):
            raise LoopCtl('raise')
        elif isinstance(s, (ast.FunctionDef, ast.AsyncFunctionDef)):
            sub = getattr(s, '_fi', None)
            if sub is not None:
                env[s.name] = Func(sub)
        elif isinstance(s, (ast.With, ast.AsyncWith)):
            self.exec_block(s.body, env, fi)
        elif isinstance(s, ast.Try):
            self.exec_block(s.body, env, fi)
        else:
            pass

    def exec_branch(self, body, env, fi):
        try:
            self.exec_block(body, env, fi)
            return None
        except Return as r:
            return r
        except LoopCtl as l:
            return l

    def exec_for(self, s, env, fi):
        it = self.eval(s.iter, env, fi)
        vals, abstract = self.iter_values(it, s)
        for v in vals:
            self.assign(s.target, v, env, fi, s)
            try:
                self.exec_block(s.body, env, fi)
            except LoopCtl as l:
                if l.kind in ('break', 'raise'):
                    if not abstract:
                        break
        if abstract:
            for v in vals:
                self.assign(s.target, v, env, fi, s)
                try:
                    self.exec_block(s.body, env, fi)
                except LoopCtl:
                    pass

    def iter_values(self, it, s):
        """-> (list of values, abstract?)"""
        if isinstance(it, Tup):
            return it.items, False
        if isinstance(it, RangeV):
            if all(isinstance(x, Const) and isinstance(x.v, int) for x in (it.a, it.b, it.s)) and it.s.v != 0 and len(range(it.a.v, it.b.v, it.s.v)) <= 16:
                return [Const(i) for i in range(it.a.v, it.b.v, it.s.v)], False
            a, b = it.a, it.b
            step = it.s.v if isinstance(it.s, Const) and isinstance(it.s.v, int) else None
            src = a if isinstance(a, Idx) else b if isinstance(b, Idx) else None
            if src is None:
                return [NUM], True
            if isinstance(a, Const) and isinstance(a.v, int):
                par0 = a.v % 2
            elif isinstance(a, Idx):
                par0 = a.parity
            else:
                par0 = None
            par = par0 if (step is not None and step % 2 == 0) else None
            base = src.base if src.base != 'pos' else 'abs'
            v = Idx(src.level, base, par, origin=('loop', id(s)), delta=0)
            v.hi_slack = it.hi_slack
            v.step = step
            v.lo, v.hi = a, b
            v.single_part = self.single_part(a, b)
            return [v], True
        if isinstance(it, EnumV):
            inner, _ = self.iter_values(it.inner, s)
            return [Tup([Idx('result', 'abs', None, origin=('enum', id(s))), el]) for el in inner], True
        if isinstance(it, ZipV):
            parts = [self.iter_values(p, s)[0] for p in it.parts]
            if all(len(p) == 1 for p in parts):
                return [Tup([p[0] for p in parts])], True
            return [TOP], True
        if isinstance(it, Sel):
            return [Idx(it.level, 'win', None, origin=('sel', id(s)))], True
        if isinstance(it, Off):
            return [Idx(it.level + 1, 'abs', 0 if it.level + 1 == it.top else None)], True
        if isinstance(it, Arr):
            return [it.el], True
        if isinstance(it, ArrowArr):
            return [TOP], True
        return [TOP], True

    def assign(self, t, v, env, fi, stmt=None):
        if isinstance(t, ast.Name):
            env[t.id] = v
        elif isinstance(t, (ast.Tuple, ast.List)):
            if isinstance(v, Tup) and len(v.items) == len([e for e in t.elts if not isinstance(e, ast.Starred)]) and not any(isinstance(e, ast.Starred) for e in t.elts):
                for e, x in zip(t.elts, v.items):
                    self.assign(e, x, env, fi, stmt)
            else:
                for e in t.elts:
                    self.assign(e.value if isinstance(e, ast.Starred) else e, TOP, env, fi, stmt)
        elif isinstance(t, ast.Subscript):
            base = self.eval(t.value, env, fi)
            self.subscript(base, t.slice, env, fi, t, store=v)
        elif isinstance(t, ast.Attribute):
            o = self.eval(t.value, env, fi)
            if isinstance(o, Obj):
                o.fields[t.attr] = v

    # ------------------------------------------------------------------ expressions
    def eval(self, e, env, fi):
        if e is None:
            return Const(None)
        m = getattr(self, 'e_' + type(e).__name__, None)
        if m is None:
            return TOP
        return m(e, env, fi)

    def e_Constant(self, e, env, fi):
        return Const(e.value)

    def e_Name(self, e, env, fi):
        if e.id in env:
            return env[e.id] if env[e.id] is not None else TOP
        r = self.P.resolve_expr_static(fi.mod, e, fi if isinstance(fi, FuncInfo) else None)
        if r is None:
            imp = self.P.local_import(fi, e.id) if isinstance(fi, FuncInfo) else None
            if imp is not None:
                r = imp
        if r is None:
            return Ext(e.id) if e.id in BUILTINS else TOP
        if r[0] == 'func':
            return Func(r[1])
        if r[0] == 'class':
            return ClassV(r[1])
        if r[0] == 'ext':
            return Ext(r[1])
        if r[0] == 'mod':
            return Ext('mod:' + r[1].name)
        if r[0] == 'assign':
            return TOP
        return TOP

    def e_Tuple(self, e, env, fi):
        items = []
        for x in e.elts:
            if isinstance(x, ast.Starred):
                v = self.eval(x.value, env, fi)
                if isinstance(v, Tup):
                    items += v.items
                else:
                    return TOP
            else:
                items.append(self.eval(x, env, fi))
        return Tup(items)

    def e_List(self, e, env, fi):
        t = self.e_Tuple(e, env, fi)
        if isinstance(t, Tup):
            t.islist = True
        return t

    def e_Attribute(self, e, env, fi):
        o = self.eval(e.value, env, fi)
        return self.getattr(o, e.attr, fi, e)

    def e_Subscript(self, e, env, fi):
        return self.subscript(self.eval(e.value, env, fi), e.slice, env, fi, e)

    def e_UnaryOp(self, e, env, fi):
        v = self.eval(e.operand, env, fi)
        if isinstance(e.op, ast.Not):
            return Const(not v.v) if isinstance(v, Const) else BOOL
        if isinstance(e.op, ast.USub):
            if isinstance(v, Const) and isinstance(v.v, (int, float)):
                return Const(-v.v)
            return v if isinstance(v, Q) else TOP
        if isinstance(e.op, ast.Invert):
            return v if isinstance(v, (Mask, Boolean)) else TOP
        return TOP

    def e_BoolOp(self, e, env, fi):
        vals = [self.eval(v, env, fi) for v in e.values]
        if all(isinstance(v, Const) for v in vals):
            r = vals[0].v
            for v in vals[1:]:
                r = (r and v.v) if isinstance(e.op, ast.And) else (r or v.v)
            return Const(r)
        return BOOL

    def e_Compare(self, e, env, fi):
        left = self.eval(e.left, env, fi)
        res = None
        for op, c in zip(e.ops, e.comparators):
            right = self.eval(c, env, fi)
            r = self.compare(left, op, right, e)
            if res is None:
                res = r
            elif isinstance(res, Const) and isinstance(r, Const):
                res = Const(res.v and r.v)
            else:
                res = r if isinstance(r, Mask) else BOOL
            left = right
        return res

    def compare(self, a, op, b, node):
        if isinstance(a, Const) and isinstance(b, Const):
            try:
                f = {ast.Lt: lambda x, y: x < y, ast.LtE: lambda x, y: x <= y, ast.Gt: lambda x, y: x > y, ast.GtE: lambda x, y: x >= y,
                     ast.Eq: lambda x, y: x == y, ast.NotEq: lambda x, y: x != y, ast.Is: lambda x, y: x is y, ast.IsNot: lambda x, y: x is not y,
                     ast.In: lambda x, y: x in y, ast.NotIn: lambda x, y: x not in y}[type(op)]
                return Const(f(a.v, b.v))
            except Exception:
                return BOOL
        if isinstance(op, (ast.Is, ast.IsNot)):
            if isinstance(b, Const) and b.v is None and not isinstance(a, (Top, Const)):
                return Const(isinstance(op, ast.IsNot))
            return BOOL
        qa, qb = self.elemq(a), self.elemq(b)
        if qa is not None and qb is not None:
            self.R.stats['cmp'] += 1
            if qa.dim != qb.dim:
                self.err('axis', node, f'comparison of {fmt(qa)} with {fmt(qb)}')
        if isinstance(a, Idx) and isinstance(b, Idx) and a.level != b.level and 'result' not in (a.level, b.level) \
                and not isinstance(a.level, tuple) and not isinstance(b.level, tuple):
            self.err('level', node, f'comparison of a level-{a.level} index with a level-{b.level} index')
        if isinstance(a, (Arr, Rows)) or isinstance(b, (Arr, Rows)):
            lv = a.level if isinstance(a, (Arr, Rows)) else getattr(b, 'level', None)
            return Mask(lv)
        return BOOL

    def elemq(self, v):
        if isinstance(v, FreshSlot):
            v = v._bound
        if isinstance(v, Q):
            return v
        if isinstance(v, Arr):
            el = v.el._bound if isinstance(v.el, FreshSlot) else v.el
            if isinstance(el, Q):
                return el
        return None

    def e_IfExp(self, e, env, fi):
        c = self.eval(e.test, env, fi)
        if isinstance(c, Const):
            return self.eval(e.body if c.v else e.orelse, env, fi)
        return join(self.eval(e.body, env, fi), self.eval(e.orelse, env, fi))

    def e_BinOp(self, e, env, fi):
        return self.binop(self.eval(e.left, env, fi), e.op, self.eval(e.right, env, fi), e)

    def binop(self, a, op, b, node):
        if isinstance(a, FreshSlot):
            a = a._bound if a._bound is not None else TOP
        if isinstance(b, FreshSlot):
            b = b._bound if b._bound is not None else TOP
        if isinstance(a, Const) and isinstance(b, Const) and isinstance(a.v, (int, float)) and isinstance(b.v, (int, float)) \
                and not isinstance(a.v, bool) and not isinstance(b.v, bool):
            try:
                t = type(op)
                if t is ast.Add:
                    return Const(a.v + b.v)
                if t is ast.Sub:
                    return Const(a.v - b.v)
                if t is ast.Mult:
                    return Const(a.v * b.v)
                if t is ast.FloorDiv:
                    return Const(a.v // b.v)
                if t is ast.Div:
                    return Const(a.v / b.v)
                if t is ast.Mod:
                    return Const(a.v % b.v)
                if t is ast.Pow:
                    return Const(a.v ** b.v)
            except Exception:
                return TOP
        if isinstance(op, ast.Add) and isinstance(a, Tup) and isinstance(b, Tup):
            return Tup(a.items + b.items, a.islist)
        if isinstance(op, ast.Mult) and isinstance(a, Tup) and isinstance(b, Const) and isinstance(b.v, int) and 0 <= b.v <= 8:
            return Tup(a.items * b.v, a.islist)
        for x, y, swapped in ((a, b, False), (b, a, True)):
            if isinstance(x, Idx) and isinstance(y, Const) and isinstance(y.v, int) and not isinstance(y.v, bool):
                if isinstance(op, ast.Add) or (isinstance(op, ast.Sub) and not swapped):
                    d = y.v if isinstance(op, ast.Add) else -y.v
                    r = Idx(x.level, x.base, None if x.parity is None else (x.parity + d) % 2, x.origin, x.delta + d)
                    for at in ('hi_slack', 'step', 'lo', 'hi', 'count_of', 'top', 'single_part', 'from_synthetic'):
                        if hasattr(x, at):
                            setattr(r, at, getattr(x, at))
                    return r
                if isinstance(op, ast.Mult) and isinstance(x.level, tuple) and x.level[0] == 'fx':
                    r = Idx(('bytes', x.level[1]), x.base, None, x.origin, 0)
                    r.byte_scale = y.v          # element index scaled to bytes with a literal item size
                    return r
                if isinstance(op, ast.Mult) and y.v == 2:
                    return Idx(('fx', x.level), x.base, 0, x.origin, 0)
                if isinstance(op, (ast.FloorDiv,)) and y.v == 2 and not swapped:
                    return Idx(('half', x.level), x.base, None, x.origin, 0)
            if isinstance(x, Sel) and isinstance(y, Const) and isinstance(op, ast.Mult) and y.v == 2:
                return SelFx(x.level, 0)
            if isinstance(x, SelFx) and isinstance(y, Const) and isinstance(y.v, int) and isinstance(op, ast.Add):
                return SelFx(x.level, (x.parity + y.v) % 2)
        for x, y in ((a, b), (b, a)):
            if isinstance(x, Idx) and isinstance(y, Num) and isinstance(op, (ast.Add, ast.Sub)):
                return Idx(x.level, x.base, None)
        if isinstance(a, Idx) and isinstance(b, Idx):
            if a.level != b.level and not isinstance(a.level, (tuple, str)) and not isinstance(b.level, (tuple, str)):
                self.err('level', node, f'arithmetic on a level-{a.level} index and a level-{b.level} index')
                return TOP
            if isinstance(op, ast.Sub):
                r = Num()
                r.count_level = a.level
                return r
            if isinstance(op, ast.Add):
                r = Idx(a.level, a.base if a.base != 'pos' else b.base, None)
                origins = {a.origin, b.origin}
                if origins == {'array.offset', 'len'}:
                    r.origin = 'array.end'
                    r.delta = a.delta + b.delta
                    r.base = 'abs'
                return r
            return TOP
        # offsets arrays: rebasing `offs - offs[0]`
        for x, y in ((a, b),):
            if isinstance(x, (Off, OffC)) and isinstance(y, Idx) and isinstance(op, ast.Sub):
                to = x.level + 1 if isinstance(x, Off) else x.to
                if y.level != to and not isinstance(y.level, (tuple, str)):
                    self.err('level', node, f'offsets that point into level {to} are re-based by an index of level {y.level}')
                    return TOP
                r = OffC(x.level, to, x.win, x.top) if isinstance(x, Off) else OffC(x.level, x.to, x.win, x.top)
                # `offs - offs[0]` turns positions into window-relative ones only for offsets that were themselves cut to the window (their first entry is the
                # window start).  The whole, unsliced offsets of an inner level start at the beginning of the buffer: re-basing them is a no-op, they stay absolute
                r.rebased = bool(x.win)
                return r
        if isinstance(a, Arr) and isinstance(b, Arr) and getattr(a, 'storage', False) and getattr(b, 'storage', False) and isinstance(op, (ast.Add, ast.Sub, ast.Mult)):
            # element-wise arithmetic of two views of the coordinate buffer is carried out in the buffer's own width: int8/int16/int32 coordinates wrap
            # silently, whereas scalars read from the buffer are promoted (numba: to int64 / float64 accumulators; python: to int / float)
            self.err('width', node, 'element-wise arithmetic on two views of the coordinate buffer is done in the storage width of the coordinates: '
                                    'narrow integer subtypes (int8, int16, int32) wrap around silently; read the operands as scalars or cast the views to 64 bits first')
        qa, qb = self.elemq(a), self.elemq(b)
        isarr = isinstance(a, Arr) or isinstance(b, Arr)
        lvl = a.level if isinstance(a, Arr) else (b.level if isinstance(b, Arr) else None)
        wrap = (lambda q: Arr(q, lvl)) if isarr else (lambda q: q)

        def num(v):
            return isinstance(v, (Const, Num)) and not isinstance(getattr(v, 'v', 0), (str, type(None), bool))
        if qa is not None and qb is not None:
            self.R.stats['arith'] += 1
            if isinstance(op, (ast.Add, ast.Sub)):
                if qa.dim != qb.dim:
                    if is_sq(qa) and is_sq(qb) and isinstance(op, ast.Add):
                        ks = sorted(list(qa.dim) + list(qb.dim))
                        if ks == ['X', 'Y']:
                            return wrap(Q({'L': 2}))
                    self.err('dim', node, f'{fmt(qa)} {"+" if isinstance(op, ast.Add) else "-"} {fmt(qb)}')
                    return TOP
                if isinstance(op, ast.Add):
                    return wrap(Q(qa.dim, qa.pos and qb.pos, None, None))
                return wrap(Q(qa.dim, False))
            if isinstance(op, ast.Mult):
                d = dict(qa.dim)
                for k, v in qb.dim.items():
                    d[k] = d.get(k, 0) + v
                r = Q(d)
                r.factors = (qa, qb)
                return wrap(r)
            if isinstance(op, ast.Div):
                d = dict(qa.dim)
                for k, v in qb.dim.items():
                    d[k] = d.get(k, 0) - v
                return wrap(Q({k: v for k, v in d.items() if v}))
        if qa is not None and num(b):
            if isinstance(op, ast.Pow) and isinstance(b, Const) and isinstance(b.v, int):
                return wrap(Q({k: v * b.v for k, v in qa.dim.items()}))
            if isinstance(op, (ast.Mult, ast.Div)):
                return wrap(Q(qa.dim, False, qa.role, qa.owner))
            if isinstance(op, (ast.Add, ast.Sub)):
                return wrap(Q(qa.dim, qa.pos, qa.role, qa.owner))
        if qb is not None and num(a):
            if isinstance(op, ast.Mult):
                return wrap(Q(qb.dim, False))
            if isinstance(op, (ast.Add, ast.Sub)):
                return wrap(Q(qb.dim, qb.pos))
            if isinstance(op, ast.Div):
                return wrap(Q({k: -v for k, v in qb.dim.items()}))
        if isinstance(op, (ast.BitAnd, ast.BitOr)) and isinstance(a, (Mask, Boolean)) and isinstance(b, (Mask, Boolean)):
            return a if isinstance(a, Mask) else b
        if num(a) and num(b):
            return NUM
        return TOP

    def e_ListComp(self, e, env, fi):
        if len(e.generators) != 1:
            return TOP
        g = e.generators[0]
        it = self.eval(g.iter, env, fi)
        vals, abstract = self.iter_values(it, e)
        out = []
        for v in vals:
            e2 = dict(env)
            self.assign(g.target, v, e2, fi)
            out.append(self.eval(e.elt, e2, fi))
        if abstract:
            return Arr(out[0]) if out else TOP
        return Tup(out, True)

    e_GeneratorExp = e_ListComp

    def e_Lambda(self, e, env, fi):
        sub = getattr(e, '_fi', None)
        return Func(sub) if sub is not None else TOP

    def e_Call(self, e, env, fi):
        f = self.eval(e.func, env, fi)
        args = []
        for a in e.args:
            if isinstance(a, ast.Starred):
                v = self.eval(a.value, env, fi)
                if isinstance(v, Tup):
                    args += v.items
                else:
                    args.append(TOP)
            else:
                args.append(self.eval(a, env, fi))
        kwargs = {k.arg: self.eval(k.value, env, fi) for k in e.keywords if k.arg}
        if isinstance(f, Func):
            self.events.append(('call', self.cur, e, (f.fi, args, kwargs)))
            return self.call_func(f, args, kwargs, e)
        if isinstance(f, ClassV):
            return self.construct(f.ci, args, kwargs, e)
        if isinstance(f, Ext):
            return self.call_ext(f.name, args, kwargs, e, env)
        if isinstance(f, BoundExt):
            return self.call_method(f.obj, f.name, args, kwargs, e)
        return TOP

    # ------------------------------------------------------------------ objects
    def getattr(self, o, name, fi, node):
        if isinstance(o, Obj):
            if name in o.fields:
                return o.fields[name]
            if name == '__class__':
                return ClassV(o.cls)
            ci, m = self.P.lookup(o.cls, name)
            if m is None:
                return TOP
            if m[0] == 'assign':
                return self.eval(m[1], {}, _ClsScope(ci))
            f = m[1]
            F = Func(f, o)
            if f.kind == 'property':
                return self.call_func(F, [], {}, node)
            return F
        if isinstance(o, ClassV):
            ci, m = self.P.lookup(o.ci, name)
            if m is None:
                return TOP
            if m[0] == 'assign':
                return self.eval(m[1], {}, _ClsScope(ci))
            f = m[1]
            if f.kind == 'classmethod':
                return Func(f, Obj(o.ci))
            return Func(f, None)
        if isinstance(o, Ext):
            if o.name in ('numpy', 'np', 'math') and name in ('inf', 'nan'):
                return Const(float(name))
            if o.name.startswith('mod:'):
                m = self.P.mods.get(o.name[4:])
                if m is not None:
                    r = self.P.resolve_global(m, name)
                    if r and r[0] == 'func':
                        return Func(r[1])
                    if r and r[0] == 'class':
                        return ClassV(r[1])
                return TOP
            return Ext(o.name + '.' + name)
        if isinstance(o, ArrowArr):
            if name == 'offset':
                return Idx(0, 'abs', None, origin='array.offset')
            if name == 'type':
                return Ext('arrowtype')
            if name == 'values' and o.scalar:
                return ArrowArr(o.L, o.fixed)
            return BoundExt(o, name)
        if isinstance(o, (Off, OffC, Vals, Arr, Rows, Mask, Sel, Tup, Buf, Q, Idx, Const, Num, Boolean)):
            if name == 'shape' and isinstance(o, Rows):
                return Tup([NUM, Const(len(o.layout.items))])
            if name == 'size':
                return NUM
            if name == 'dtype':
                return Ext('dtype')
            if name == 'T':
                return TOP
            return BoundExt(o, name)
        return TOP

    def construct(self, ci, args, kwargs, node):
        obj = Obj(ci, {'__ctor_args__': Tup(args), '__ctor_kwargs__': kwargs})
        self.events.append(('ctor', self.cur, node, (ci, args, kwargs)))
        # geometry array / scalar classes wrapped around an abstract arrow array keep it as data/listarray
        if args and isinstance(args[0], ArrowArr):
            obj.fields['data'] = args[0]
            obj.fields['listarray'] = args[0]
            obj.fields['_sindex'] = Const(None)
        return obj

    def subscript(self, base, sl, env, fi, node, store=None):
        if isinstance(sl, ast.Slice):
            lo = self.eval(sl.lower, env, fi) if sl.lower else None
            hi = self.eval(sl.upper, env, fi) if sl.upper else None
            st = self.eval(sl.step, env, fi) if sl.step else None
            return self.slice_(base, lo, hi, st, node, store)
        if isinstance(sl, ast.Tuple):
            idx = [('slice', s) if isinstance(s, ast.Slice) else self.eval(s, env, fi) for s in sl.elts]
            if isinstance(base, Rows) and len(idx) == 2:
                r, c = idx
                if isinstance(c, Const) and isinstance(c.v, int):
                    try:
                        el = base.layout.items[c.v]
                    except IndexError:
                        return TOP
                    if store is not None and isinstance(el, FreshSlot):
                        el.bind(store.el if isinstance(store, Arr) else store)
                    return Arr(el, base.level) if isinstance(r, tuple) or isinstance(r, (Mask, Sel)) else el
                if isinstance(c, tuple):
                    if store is not None:
                        self.store_rows(base, store, node)
                    if isinstance(r, tuple) or isinstance(r, (Mask, Sel)):
                        return base
                    return base.layout
            return TOP
        i = self.eval(sl, env, fi)
        return self.index(base, i, node, store)

    def store_rows(self, base, v, node):
        lay = v.layout if isinstance(v, Rows) else v if isinstance(v, Tup) else None
        if lay is None:
            return
        for want, got in zip(base.layout.items, lay.items):
            if isinstance(want, FreshSlot):
                want.bind(got)
                continue
            if isinstance(want, Q) and isinstance(got, Q) and (want.dim != got.dim or (want.role and got.role and want.role != got.role)):
                self.err('layout', node, f'row slot {fmt(want)} receives {fmt(got)}')

    def index(self, base, i, node, store=None):
        self.R.stats['sub'] += 1
        if isinstance(base, Tup):
            if isinstance(i, Const) and isinstance(i.v, int):
                try:
                    return base.items[i.v]
                except IndexError:
                    return TOP
            return join_all(base.items) if base.items else TOP
        if isinstance(base, Off):
            top_par = 0 if base.level + 1 == base.top else None
            if isinstance(i, Idx):
                if i.level != base.level and not isinstance(i.level, (tuple, str)):
                    self.err('level', node, f'offsets of level {base.level} indexed by an index of level {i.level}')
                    return TOP
                r = Idx(base.level + 1, base.tbase, top_par, origin=('off', base.level, i.origin, i.delta, base.role))
                if getattr(base, 'synthetic', False):
                    r.from_synthetic = True
                return r
            if isinstance(i, Const) and isinstance(i.v, int):
                r = Idx(base.level + 1, base.tbase, top_par, origin=('off', base.level, 'c', i.v, base.role))
                if getattr(base, 'synthetic', False):
                    r.from_synthetic = True
                return r
            if isinstance(i, Sel):
                if i.level != base.level and i.level is not None:
                    self.err('level', node, f'offsets of level {base.level} gathered by a level-{i.level} selection')
                r = Off(base.level, base.win, base.top, base.role, base.tbase)
                r.gathered = True
                return r
            if isinstance(i, Off):
                if i.level + 1 != base.level:
                    self.err('level', node, f'offsets of level {base.level} composed with offsets of level {i.level} (which point into level {i.level + 1})')
                    return TOP
                r = OffC(i.level, base.level + 1, i.win, base.top)
                r.role = i.role
                return r
            if isinstance(i, OffC):
                if i.to != base.level:
                    self.err('level', node, f'offsets of level {base.level} composed with offsets reaching level {i.to}')
                    return TOP
                r = OffC(i.level, base.level + 1, i.win, base.top)
                r.role = getattr(i, 'role', None)
                return r
            return TOP
        if isinstance(base, OffC):
            if isinstance(i, Idx):
                if i.level != base.level and not isinstance(i.level, (tuple, str)):
                    self.err('level', node, f'composed offsets (level {base.level} -> {base.to}) indexed by an index of level {i.level}')
                    return TOP
                return Idx(base.to, 'win' if getattr(base, 'rebased', False) else 'abs', 0 if base.to == base.top else None, origin=('offc', base.level, i.origin, i.delta, getattr(base, 'role', None)))
            if isinstance(i, Const) and isinstance(i.v, int):
                return Idx(base.to, 'win' if getattr(base, 'rebased', False) else 'abs', 0 if base.to == base.top else None, origin=('offc', base.level, 'c', i.v, getattr(base, 'role', None)))
            if isinstance(i, Sel):
                return base
            return TOP
        if isinstance(base, Vals):
            if isinstance(i, Idx):
                lv = i.level
                if isinstance(lv, tuple) and lv[0] == 'fx':
                    pass
                elif isinstance(lv, (tuple, str)):
                    return TOP
                else:
                    if lv != base.L:
                        self.err('level', node, f'coordinate buffer indexed by an index of level {lv} (coordinates are level {base.L})')
                        return TOP
                    if i.base != base.base and i.base in ('abs', 'win') and base.base in ('abs', 'win'):
                        self.err('base', node, f'{_b(base.base)} coordinate buffer indexed by {_b(i.base, True)} index')
                if i.parity is None:
                    return TOP
                self.check_slack(i, node)
                c = Coord('X' if i.parity == 0 else 'Y')
                c.placeholder = base.placeholder
                return c
            if isinstance(i, SelFx):
                return Arr(Coord('X' if i.parity == 0 else 'Y'), i.level)
            if isinstance(i, Const) and isinstance(i.v, int):
                return Coord('X' if i.v % 2 == 0 else 'Y')
            if isinstance(i, (Mask, Boolean)) and getattr(base, 'reshaped', False):
                r = Vals(base.L, base.base, False, base.fresh)     # rows selected by a mask: placeholder rows dropped
                r.reshaped = True
                return r
            return TOP
        if isinstance(base, Arr):
            if store is not None and isinstance(base.el, FreshSlot):
                base.el.bind(store.el if isinstance(store, Arr) else store)
            if isinstance(i, (Mask, Sel)):
                return Arr(base.el, base.level)
            return base.el._bound if isinstance(base.el, FreshSlot) and base.el._bound is not None else base.el
        if isinstance(base, Rows):
            if isinstance(i, (Mask, Sel)):
                return base
            return base.layout
        if isinstance(base, Mask):
            return BOOL if isinstance(i, (Idx, Const)) else base
        if isinstance(base, Sel):
            if isinstance(i, (Mask, Sel)):
                return base
            return Idx(base.level, 'win', None)
        return TOP

    @staticmethod
    def single_part(a, b):
        """Is [a, b) the coordinate range of ONE innermost part?  True / False / None (unknown)."""
        if not (isinstance(a, Idx) and isinstance(b, Idx)):
            return None
        oa, ob = a.origin, b.origin
        if not (isinstance(oa, tuple) and isinstance(ob, tuple) and oa[0] == 'off' and ob[0] == 'off' and oa[1] == ob[1]):
            return None
        ia, da, ra = oa[2], oa[3], oa[4]
        ib, db, rb = ob[2], ob[3], ob[4]
        if ia == ib and ia not in ('c', None):
            if ra == rb and isinstance(da, int) and isinstance(db, int):
                return db == da + 1
            if ra == 'start' and rb == 'stop':
                return da == db
            return None
        if isinstance(ia, tuple) and isinstance(ib, tuple):
            # the two lookups in the innermost offsets use different part indices (e.g. first ring .. one past the last ring of a polygon)
            return False
        return None

    def check_slack(self, i, node):
        if i.origin is not None and isinstance(i.origin, tuple) and i.origin[0] == 'loop' and getattr(i, 'single_part', None) is False and i.delta >= 2:
            self.err('range', node, f'vertex at loop index +{i.delta} is paired with the vertex at the loop index, but the loop runs over several rings/lines of the element: '
                                    f'the last vertex of one part is joined to the first vertex of the next (phantom segment)')
        if i.origin is not None and isinstance(i.origin, tuple) and i.origin[0] == 'loop' and getattr(i, 'step', None):
            if i.delta > i.hi_slack + i.step - 1:
                self.err('range', node, f'read at loop index +{i.delta} although the loop stops only {i.hi_slack} before the end of the part (step {i.step}): '
                                        f'the read runs into the next part')

    def slice_(self, base, lo, hi, st, node, store=None):
        if isinstance(base, Tup):
            def g(v):
                return v.v if isinstance(v, Const) else None
            if all(v is None or (isinstance(v, Const) and (v.v is None or isinstance(v.v, int))) for v in (lo, hi, st)):
                return Tup(base.items[slice(g(lo) if lo else None, g(hi) if hi else None, g(st) if st else None)], base.islist)
            return TOP
        if isinstance(base, Off):
            for b in (lo, hi):
                if isinstance(b, Idx) and b.level != base.level and not isinstance(b.level, (tuple, str)):
                    self.err('level', node, f'offsets of level {base.level} sliced by a bound of level {b.level}')
                    return TOP
            for b in (lo, hi):
                if base.win and isinstance(b, Idx) and isinstance(b.origin, tuple) and b.origin and b.origin[0] in ('off', 'offc') and getattr(b, 'base', 'abs') == 'abs' \
                        and not getattr(base, 'gathered', False) and not getattr(b, 'from_synthetic', False):
                    self.err('base', node, f'offsets array that was cut to the window (positions count from the first selected part) is sliced by an absolute part index taken from the '
                                           f'outer offsets: for a sliced array the parts of later elements are read')
                    return TOP
            role = base.role
            if lo is None and isinstance(hi, Const) and hi.v == -1 and st is None:
                role = 'start'
            elif isinstance(lo, Const) and lo.v == 1 and hi is None and st is None:
                role = 'stop'
            win = base.win or any(isinstance(b, Idx) for b in (lo, hi))
            r = Off(base.level, win, base.top, role, base.tbase)
            if getattr(base, 'synthetic', False):
                r.synthetic = True
            # fencepost: a sub-array of offsets for the parts [start, stop) must be cut as offs[start : stop + 1]
            if isinstance(lo, Idx) and isinstance(hi, Idx):
                r.cut = (lo, hi)
                self.check_fencepost(base, lo, hi, node)
                hi0 = Idx(hi.level, hi.base, hi.parity, hi.origin, 0)
                self.check_element_range(lo, hi0, node)
            return r
        if isinstance(base, OffC):
            return base
        if isinstance(base, Vals):
            for b in (lo, hi):
                if isinstance(b, Idx):
                    if b.level != base.L and not isinstance(b.level, (tuple, str)):
                        self.err('level', node, f'coordinate buffer sliced by a bound of level {b.level} (coordinates are level {base.L})')
                        return TOP
                    if b.base != base.base and b.base in ('abs', 'win') and base.base in ('abs', 'win'):
                        self.err('base', node, f'{_b(base.base)} coordinate buffer sliced by {_b(b.base, True)} bound')
            if st is not None and isinstance(st, Const) and st.v == 2:
                par = lo.parity if isinstance(lo, Idx) else (lo.v % 2 if isinstance(lo, Const) and isinstance(lo.v, int) else 0 if lo is None else None)
                if store is not None:
                    q = self.elemq(store)
                    if q is not None and par is not None and q.dim != {('X' if par == 0 else 'Y'): 1}:
                        self.err('axis', node, f'{"X" if par == 0 else "Y"} stride receives {fmt(q)}')
                if par is None:
                    return TOP
                r_ = Arr(Coord('X' if par == 0 else 'Y'))
                r_.storage = True        # a strided VIEW of the coordinate buffer: its elements have the buffer's own width (int8 .. float64)
                return r_
            if st is not None and isinstance(st, Const) and st.v == -1:
                return base
            win = any(isinstance(b, Idx) for b in (lo, hi))
            if isinstance(lo, Idx) and isinstance(hi, Idx):
                self.check_part_range(lo, hi, node)
            r = Vals(base.L, 'win' if win else base.base, base.placeholder, base.fresh)
            r.cut = (lo, hi)
            return r
        if isinstance(base, (Arr, Rows, Mask, Sel)):
            return base
        return TOP

    @staticmethod
    def flatten(origin):
        """('off', lvl, inner, delta, role) chains -> (root, [(level, delta, role), ...]) outermost level last."""
        chain = []
        o = origin
        while isinstance(o, tuple) and o and o[0] in ('off', 'offc'):
            chain.append((o[1], o[3], o[4]))
            o = o[2]
        return o, chain

    def check_element_range(self, lo, hi, node):
        """[lo, hi) derived through several offset levels from one element index: lo = compose(i), hi = compose(i + 1)."""
        ra, ca = self.flatten(lo.origin)
        rb, cb = self.flatten(hi.origin)
        if len(ca) < 2 or len(ca) != len(cb) or ra != rb or ra in ('c', None) or [c[0] for c in ca] != [c[0] for c in cb]:
            return False
        if not all(isinstance(c[1], int) for c in ca + cb):
            return False
        ok = all(c[1] == 0 for c in ca) and all(c[1] == 0 for c in cb[:-1]) and cb[-1][1] == 1
        if not ok and lo.delta == 0:
            self.err('fencepost', node, f'element range built from offsets at deltas {[c[1] for c in ca]} .. {[c[1] for c in cb]} (innermost first): the parts of element i are '
                                        f'[compose(i), compose(i + 1)), the +1 belongs to the element index')
        return True

    def check_part_range(self, lo, hi, node):
        """[lo, hi) as the coordinate (or part) range of ONE part: lo = offs[i], hi = offs[i + 1] of the same offsets and the same i
        (or start_view[i], stop_view[i])."""
        a, b = lo.origin, hi.origin
        if isinstance(a, tuple) and isinstance(b, tuple) and a[0] in ('off', 'offc') and b[0] == a[0] and a[1] == b[1] and a[2] == b[2] \
                and isinstance(a[3], int) and isinstance(b[3], int) and lo.delta == 0 and hi.delta == 0 and a[2] != 'c' and a[2] is not None:
            ra, rb = a[4], b[4]
            if ra == rb and b[3] == a[3] + 1 and isinstance(a[2], tuple) and a[2] and a[2][0] in ('off', 'offc') and a[3] == 0:
                # the part addressed is "the first part of element i" (its index is the element's START offset, not a loop index over [start, stop)):
                # an element without parts (empty, not missing) has start == stop, and part `start` then belongs to the NEXT element
                self.err('range', node, 'the first part of an element is read through the element\'s start offset without a loop over [start, stop): for an element without parts '
                                        '(empty polygon / multi-part geometry) this is the first part of the next element')
            if ra == rb:
                if b[3] != a[3] + 1:
                    self.err('fencepost', node, f'range [offsets[i{a[3]:+d}], offsets[i{b[3]:+d}]) is not the range of one part (expected [offsets[i], offsets[i + 1]))')
            elif ra == 'start' and rb == 'stop':
                if a[3] != b[3]:
                    self.err('fencepost', node, f'start offsets taken at i{a[3]:+d} but stop offsets at i{b[3]:+d}: not the range of one part')
            elif ra == 'stop' and rb == 'start':
                self.err('fencepost', node, 'range runs from a stop offset to a start offset')

    def check_fencepost(self, base, lo, hi, node):
        """offs[lo:hi]: lo, hi are level-k indices. When hi derives from the *stop* of the parent part (offs_parent[i+1] or a stop view)
        the cut must include the fencepost: hi must carry delta +1."""
        o = hi.origin
        if isinstance(o, tuple) and o[0] in ('off', 'offc'):
            parent_delta, role = o[3], o[4]
            is_stop = (role == 'stop') or (role is None and isinstance(parent_delta, int) and parent_delta >= 1 and isinstance(lo.origin, tuple)
                                           and lo.origin[0] in ('off', 'offc') and lo.origin[3] == parent_delta - 1)
            is_last = (o[2] == 'c' and o[3] == -1)
            if (is_stop or is_last) and hi.delta != 1:
                self.err('fencepost', node, f'offsets cut at [start : stop{"%+d" % hi.delta if hi.delta else ""}] — the last part needs its closing offset, the cut must be [start : stop + 1]')

    # ------------------------------------------------------------------ externals (numpy / pyarrow / builtins)
    def call_ext(self, name, args, kwargs, node, env):
        a0 = args[0] if args else None
        if isinstance(a0, FreshSlot):
            a0 = a0._bound if a0._bound is not None else TOP
        short = name.split('.')[-1]
        if name == 'len':
            if isinstance(a0, Tup):
                return Const(len(a0.items))
            if isinstance(a0, (Off, OffC)):
                r = Idx(a0.level, 'pos', None, origin='len')
                r.count_of = 'offsets'
                r.top = a0.top
                return r
            if isinstance(a0, Vals):
                r = Idx(a0.L, a0.base, 0, origin='len')
                r.top = a0.L
                return r
            if isinstance(a0, (Sel, Arr, Rows, Mask)) and getattr(a0, 'level', None) is not None:
                return Idx(a0.level, 'pos', None, origin='len')
            if isinstance(a0, Obj):
                f = self.getattr(a0, '__len__', None, node)
                if isinstance(f, Func):
                    return self.call_func(f, [], {}, node)
            if isinstance(a0, ArrowArr):
                r = Idx(0, 'pos', 0 if a0.L == 0 else None, origin='len')
                r.top = a0.L
                return r
            return NUM
        if name == 'range' or short == 'prange':
            if short == 'prange' or len(args) == 1:
                a = [Const(0), args[0], Const(1)]
            else:
                a = [args[0], args[1], args[2] if len(args) > 2 else Const(1)]
            r = RangeV(*a)
            if isinstance(a[1], Idx):
                r.hi_slack = -a[1].delta if a[1].delta <= 0 else 0
            if isinstance(a[0], Idx) and isinstance(a[1], Idx) and a[0].level == a[1].level:
                lo0 = Idx(a[0].level, a[0].base, a[0].parity, a[0].origin, 0)
                hi0 = Idx(a[1].level, a[1].base, a[1].parity, a[1].origin, 0)
                self.check_part_range(lo0, hi0, node)
            return r
        if name == 'enumerate':
            return EnumV(a0)
        if name == 'zip':
            return ZipV(args)
        if name in ('float', 'int', 'abs'):
            return a0 if isinstance(a0, (Q, Idx)) else (Const(a0.v) if isinstance(a0, Const) and isinstance(a0.v, (int, float)) else NUM)
        if short in ('minimum', 'maximum', 'clip') and isinstance(a0, (Off, OffC)):
            r = Off(a0.level, a0.win, a0.top, None, a0.tbase) if isinstance(a0, Off) else OffC(a0.level, a0.to, a0.win, a0.top)
            r.modified = True
            return r
        if name in ('min', 'max') or short in ('minimum', 'maximum', 'nanmin', 'nanmax', 'amin', 'amax') and name.startswith(('numpy', 'np')):
            self.R.stats['minmax'] += 1
            qs = [self.elemq(a) for a in args]
            qq = [q for q in qs if q is not None]
            for q in qq[1:]:
                if q.dim != qq[0].dim:
                    self.err('axis', node, f'{short} of {fmt(qq[0])} and {fmt(q)}')
                    return TOP
            if not qq:
                return NUM
            role = 'lb' if 'min' in short else 'ub'
            # role clash: aggregating an upper-bound quantity with min (or a lower bound with max)
            for q in qq:
                if q.role in ('lb', 'ub') and q.role != role:
                    self.err('role', node, f'{short} over a quantity that is already {"a lower" if q.role == "lb" else "an upper"} bound')
                    return TOP
            return Q(qq[0].dim, True, role, qq[0].owner)
        if short in ('isfinite', 'isnan', 'isinf'):
            return Mask(getattr(a0, 'level', None)) if isinstance(a0, (Arr, Rows)) else BOOL
        if short in ('zeros', 'ones', 'full', 'empty') and (name.startswith('numpy') or name.startswith('np')):
            shp = a0
            dt = kwargs.get('dtype') or (args[-1] if len(args) > 1 else None)
            if isinstance(shp, Tup) and len(shp.items) == 2 and isinstance(shp.items[1], Const) and isinstance(shp.items[1].v, int):
                lv = shp.items[0].level if isinstance(shp.items[0], Idx) else None
                return Rows(Tup([FreshSlot() for _ in range(shp.items[1].v)]), lv)
            lv = shp.level if isinstance(shp, Idx) else None
            if isinstance(dt, Ext) and 'bool' in dt.name:
                return Mask(lv)
            if short == 'full' and len(args) > 1 and isinstance(args[1], Const) and isinstance(args[1].v, bool):
                return Mask(lv)
            return Arr(FreshSlot(), lv)
        if short in ('asarray', 'array', 'ascontiguousarray') and not name.startswith('pyarrow'):
            if isinstance(a0, Buf):
                return a0
            if isinstance(a0, Tup) and not a0.items:
                return EMPTY
            if isinstance(a0, Tup) and a0.items and all(isinstance(x, (Idx, Const)) for x in a0.items) and any(isinstance(x, Idx) for x in a0.items):
                # np.array([0, n]) one-element offsets built by scalar wrappers
                idxs = [x for x in a0.items if isinstance(x, Idx)]
                ix = idxs[0]
                if ix.base == 'pos' and isinstance(ix.level, int) and (len(a0.items) == 1 or (len(a0.items) == 2 and isinstance(a0.items[0], Const) and a0.items[0].v == 0)):
                    # one-element offsets built by the scalar wrappers: [0, number of parts] / [number of parts]
                    if getattr(ix, 'count_of', None) == 'offsets' and ix.delta != -1:
                        self.err('fencepost', node, f'number of parts taken as len(offsets){"%+d" % ix.delta if ix.delta else ""}: an offsets array of k parts has k + 1 entries (use len(offsets) - 1)')
                    r = Off(ix.level - 1, False, getattr(ix, 'top', None), role=('stop' if len(a0.items) == 1 else None))
                    r.synthetic = True
                    return r
                return TOP
            return a0 if isinstance(a0, (Off, OffC, Vals, Arr, Rows, Mask, Sel)) else TOP
        if short == 'frombuffer':
            off = kwargs.get('offset')
            if isinstance(off, Idx) and isinstance(getattr(off, 'byte_scale', None), int):
                self.err('unit', node, f'byte offset into the data buffer computed with a hard-coded item size of {off.byte_scale}: the coordinate subtype '
                                       f'(float32/int32/int16 ...) decides the item size')
            return TOP
        if short == 'arange':
            if isinstance(a0, Idx) and len(args) == 1:
                return Sel(a0.level)
            if len(args) == 3 and isinstance(args[0], Const) and args[0].v == 0 and isinstance(args[1], Idx) and args[1].origin == 'len' \
                    and isinstance(args[1].level, int) and isinstance(args[2], Const) and isinstance(args[2].v, int) and args[2].v >= 1:
                # np.arange(0, len(values) + 1, k): boundaries of fixed-width elements of k coordinates each
                if args[1].delta != 1:
                    self.err('fencepost', node, f'element boundaries built as arange(0, len(values){"%+d" % args[1].delta if args[1].delta else ""}, {args[2].v}): '
                                                f'n elements need n + 1 boundaries (use len(values) + 1)')
                    return TOP
                return Off(args[1].level - 1, args[1].base == 'win', args[1].level, None, args[1].base if args[1].base in ('abs', 'win') else 'abs')
            return TOP
        if short in ('any', 'all'):
            return BOOL
        if short == 'sqrt':
            q = self.elemq(a0)
            if q is not None:
                if q.dim == {'L': 2}:
                    return Q({'L': 1})
                self.err('dim', node, f'sqrt of {fmt(q)} (a squared length ΔX²+ΔY² is expected)')
            return TOP
        if short == 'concatenate':
            if isinstance(a0, Tup) and a0.items:
                return join_all(a0.items)
            return TOP
        if short == 'nonzero':
            return Tup([Sel(getattr(a0, 'level', None))])
        if short == 'sort':
            return a0 if isinstance(a0, (Sel, Arr)) else TOP
        if name == 'isinstance':
            if isinstance(a0, Obj) and len(args) > 1:
                clss = args[1].items if isinstance(args[1], Tup) else [args[1]]
                if all(isinstance(c, ClassV) for c in clss):
                    return Const(any(c.ci in a0.cls.mro for c in clss))
            if isinstance(a0, ArrowArr) and len(args) > 1 and isinstance(args[1], Ext):
                if 'NullArray' in args[1].name:
                    return Const(False)
            return BOOL
        if name in ('tuple', 'list'):
            if isinstance(a0, Tup):
                return Tup(a0.items, name == 'list')
            return a0 if a0 is not None else Tup([])
        if name.endswith('ListArray.from_arrays'):
            offs, vals = (args + [None, None])[:2]
            r = self.from_arrays(offs, vals, kwargs, node)
            return r
        if name.endswith('pyarrow.array') or name == 'pa.array':
            if isinstance(a0, (Off, OffC, Vals)):
                r = a0
                m = kwargs.get('mask')
                if m is not None:
                    if isinstance(a0, Off):
                        r = Off(a0.level, a0.win, a0.top, a0.role, a0.tbase)
                    elif isinstance(a0, OffC):
                        r = OffC(a0.level, a0.to, a0.win, a0.top)
                    else:
                        r = Vals(a0.L, a0.base, a0.placeholder, a0.fresh)
                    r.mask = m
                return r
            return TOP
        return TOP

    def from_arrays(self, offs, vals, kwargs, node):
        mask = getattr(offs, 'mask', None) if offs is not None else None
        self.events.append(('from_arrays', self.cur, node, (offs, vals, mask)))
        # values level
        if isinstance(vals, Vals):
            vlevel, top = vals.L, vals.L
        elif isinstance(vals, ArrowArr):
            # an arrow list array whose elements are indexed at level (top - L)
            vlevel, top = getattr(vals, 'elem_level', None), getattr(vals, 'top', None)
        else:
            return TOP
        if isinstance(offs, Off):
            to, olevel = offs.level + 1, offs.level
        elif isinstance(offs, OffC):
            to, olevel = offs.to, offs.level
        else:
            return TOP
        if vlevel is not None and to != vlevel:
            self.err('level', node, f'ListArray.from_arrays: offsets point into level {to} but the values are level {vlevel}')
            return TOP
        r = ArrowArr((top - olevel) if top is not None else 1, False, mask=mask, offsets=offs)
        r.elem_level = olevel
        r.top = top
        return r

    def call_method(self, o, name, args, kwargs, node):
        if isinstance(o, ArrowArr):
            if name == 'buffers':
                if o.fixed:
                    return Tup([Buf('validity', 0), Buf('fixeddata', L=1)], True)
                items = []
                for k in range(o.L):
                    items += [Buf('validity', k), Buf('offsets', k, o.L)]
                items += [Buf('validity', o.L), Buf('data', L=o.L)]
                return Tup(items, True)
            return TOP
        if isinstance(o, Buf) and name == 'view':
            if o.kind == 'offsets':
                return Off(o.level, False, o.L)
            if o.kind == 'data':
                return Vals(o.L, 'abs')
            if o.kind == 'fixeddata':
                return Vals(1, 'abs', placeholder=True)
        if name == 'copy':
            if isinstance(o, Vals):
                return Vals(o.L, o.base, o.placeholder, fresh=True)
            return o
        if name == 'reshape' and isinstance(o, Vals):
            r = Vals(o.L, o.base, o.placeholder, o.fresh)
            r.reshaped = True
            return r
        if name == 'ravel' and isinstance(o, Vals):
            return Vals(o.L, o.base, o.placeholder, o.fresh)
        if name in ('astype', 'view', 'ravel'):
            return o
        if name == 'fill':
            return Const(None)
        if name in ('any', 'all'):
            return BOOL
        if name in ('min', 'max') and isinstance(o, Arr):
            q = self.elemq(o)
            if q is not None:
                return Q(q.dim, True, 'lb' if name == 'min' else 'ub', q.owner)
            return o.el
        if name == 'tolist':
            return o
        return TOP


class _ClsScope:
    """Minimal stand-in for FuncInfo when evaluating class-level assignments."""

    def __init__(self, ci):
        self.mod = ci.mod
        self.cls = ci
        self.parent = None
        self.nested = {}
        self.params = []
        self.key = f'{ci.mod.path}::{ci.name}'
        self.qualname = ci.name
        self.node = ci.node
        self._local_assign = {}


def _b(base, article=False):
    s = {'abs': 'absolute (whole-buffer)', 'win': 're-based (sliced window)'}.get(base, base)
    if article:
        return ('an ' if s[0] in 'aeiou' else 'a ') + s
    return s


# ---------------------------------------------------------------------------------------------------------------------
def make_array(P, dotted, L, fixed=False):
    ci = P.cls(dotted)
    arr = ArrowArr(L, fixed)
    return Obj(ci, {'data': arr, 'listarray': arr, '_sindex': Const(None)})


def make_scalar(P, dotted, L_inner):
    """Scalar geometry of a kind whose element has L_inner list levels below the element (0 for Line/MultiPoint, 1 for Polygon/MultiLine,
    2 for MultiPolygon). Its `listarray` is the child array of a fresh one-element arrow array: L_inner list levels."""
    ci = P.cls(dotted)
    arr = ArrowArr(L_inner, False)
    arr.fresh_scalar = True
    return Obj(ci, {'data': ArrowArr(L_inner, False, scalar=True), 'listarray': arr})


BOX = None


def box():
    return Tup([Q({'X': 1}, True, 'box', 'box'), Q({'Y': 1}, True, 'box', 'box'), Q({'X': 1}, True, 'box', 'box'), Q({'Y': 1}, True, 'box', 'box')])
