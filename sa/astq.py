"""Small AST query helpers shared by the rule modules (E-FLOW light: unique-assignment provenance,
call matching through resolved callees, summaries "function performs event E")."""
import ast

from model import FuncInfo, walk_own, norm, AnalysisError

FS_MUTATING = {'rm', 'rm_file', 'rmdir', 'delete', 'makedirs', 'mkdirs', 'mkdir', 'move', 'mv', 'rename', 'copy', 'cp', 'put', 'touch'}
FS_OBSERVING = {'exists', 'isfile', 'isdir', 'ls', 'listdir', 'info', 'glob', 'find', 'expand_path', 'invalidate_cache'}


def own_calls(f):
    return [n for n in walk_own(f.node) if isinstance(n, ast.Call)]


def own_nodes(f, typ):
    return [n for n in walk_own(f.node) if isinstance(n, typ)]


def assignments(f, name):
    """All expressions assigned to local `name` in f's own body (Assign / AnnAssign / for targets / with as)."""
    out = []
    for n in walk_own(f.node):
        if isinstance(n, ast.Assign):
            for t in n.targets:
                out.extend(_match_target(t, n.value, name))
        elif isinstance(n, ast.AnnAssign) and n.value is not None:
            out.extend(_match_target(n.target, n.value, name))
        elif isinstance(n, ast.AugAssign):
            if isinstance(n.target, ast.Name) and n.target.id == name:
                out.append(('aug', n))
        elif isinstance(n, (ast.For, ast.comprehension)):
            for x in ast.walk(n.target):
                if isinstance(x, ast.Name) and x.id == name:
                    out.append(('iter', n))
        elif isinstance(n, ast.NamedExpr) and n.target.id == name:
            out.append(('expr', n.value))
    return out


def _match_target(t, value, name):
    if isinstance(t, ast.Name) and t.id == name:
        return [('expr', value)]
    if isinstance(t, (ast.Tuple, ast.List)):
        for i, e in enumerate(t.elts):
            if isinstance(e, ast.Name) and e.id == name:
                if isinstance(value, (ast.Tuple, ast.List)) and len(value.elts) == len(t.elts):
                    return [('expr', value.elts[i])]
                return [('unpack', value, i)]
            if isinstance(e, ast.Starred) and isinstance(e.value, ast.Name) and e.value.id == name:
                return [('unpack', value, i)]
    return []


def unique_def(f, name):
    """The single defining expression of local `name` in f (searching enclosing functions for captured
    variables), or None when there are none or several."""
    g = f
    while isinstance(g, FuncInfo):
        a = assignments(g, name)
        if a:
            exprs = [x for x in a if x[0] == 'expr']
            if len(a) == 1 and exprs:
                if name in g.params and not _unconditional(g, exprs[0][1]):
                    return g, None       # a parameter that is re-assigned on some paths only has two definitions
                return g, exprs[0][1]
            return g, None
        if name in g.params:
            return g, ('param', name)
        g = g.parent if isinstance(g.parent, FuncInfo) else None
    return None, None


def _unconditional(g, value):
    """Is the statement that assigns `value` a top-level statement of g's body (executed on every path)?"""
    st = value
    while st is not None and not isinstance(st, ast.stmt):
        st = getattr(st, '_parent', None)
    return st is not None and getattr(st, '_parent', None) is g.node


def all_defs(f, name):
    g = f
    while isinstance(g, FuncInfo):
        a = assignments(g, name)
        if a or name in g.params:
            return g, a, name in g.params
        g = g.parent if isinstance(g.parent, FuncInfo) else None
    return None, [], False


def trace(f, expr, depth=6):
    """Follow Name -> unique definition chains. Returns the final expression (or the Name itself /
    ('param', name))."""
    seen = 0
    while isinstance(expr, ast.Name) and seen < depth:
        g, d = unique_def(f, expr.id)
        if d is None:
            return expr
        if isinstance(d, tuple):
            return ('param', g, d[1])
        expr, f = d, g
        seen += 1
    return expr


def names_in(node):
    return {n.id for n in ast.walk(node) if isinstance(n, ast.Name)}


def is_call_to(P, f, call, target):
    """target: FuncInfo | dotted ext name | set of those"""
    r = P.resolve_call(f, call)
    if r is None:
        return False
    targets = target if isinstance(target, (set, list, tuple)) else [target]
    for t in targets:
        if isinstance(t, FuncInfo) and r[0] == 'func' and r[1] is t:
            return True
        if isinstance(t, str) and r[0] == 'ext' and (r[1] == t or r[1].endswith('.' + t)):
            return True
    return False


def method_calls(f, attr):
    return [c for c in own_calls(f) if isinstance(c.func, ast.Attribute) and c.func.attr == attr]


def performs(P, f, pred, depth=4, _seen=None):
    """Does f (or a repository callee, transitively up to depth) contain a call for which pred(call, func) holds?"""
    _seen = _seen if _seen is not None else set()
    if f.key in _seen:
        return False
    _seen.add(f.key)
    for c in own_calls(f):
        if pred(c, f):
            return True
    if depth > 0:
        for _, g in P.callees(f):
            if performs(P, g, pred, depth - 1, _seen):
                return True
    return False


def fs_call(call, ops=None):
    """`<recv>.<op>(...)` where op is an fsspec filesystem operation name; returns op or None."""
    if isinstance(call.func, ast.Attribute):
        op = call.func.attr
        if (ops is None and (op in FS_MUTATING or op in FS_OBSERVING or op == 'open')) or (ops is not None and op in ops):
            recv = call.func.value
            if isinstance(recv, ast.Name) and ('fs' in recv.id.lower() or 'filesystem' in recv.id.lower()):
                return op
            if isinstance(recv, ast.Attribute) and ('fs' in recv.attr.lower() or 'filesystem' in recv.attr.lower()):
                return op
    return None


def arg_of(call, pos=None, kw=None):
    if kw is not None:
        for k in call.keywords:
            if k.arg == kw:
                return k.value
    if pos is not None and pos < len(call.args) and not any(isinstance(a, ast.Starred) for a in call.args[:pos + 1]):
        return call.args[pos]
    return None


def bound_arg(callee, call, param):
    """Expression bound to `param` of FuncInfo `callee` at `call` (positional or keyword), or None."""
    params = callee.params
    if callee.kind in ('method', 'property', 'classmethod') and params and params[0] in ('self', 'cls'):
        params = params[1:]
    if param in params:
        v = arg_of(call, pos=params.index(param), kw=param)
        return v
    return arg_of(call, kw=param)


def require(x, what):
    if x is None or x == [] or x is False:
        raise AnalysisError(f'{what} not found (anchor vanished or idiom no longer recognised)')
    return x


def const_str(node):
    if isinstance(node, ast.Constant) and isinstance(node.value, (str, bytes)):
        return node.value
    return None


def template(f, expr, depth=6):
    """Normalised path template of an expression: nested tuples
       ('join', parts...) | ('format', base, {kw: tpl}) | ('fstr', pieces...) | ('lit', s) | ('var', name-or-origin) | ('index', tpl, idx)"""
    e = expr
    if isinstance(e, ast.Name):
        g, d = unique_def(f, e.id)
        if d is None or depth <= 0:
            return ('var', e.id)
        if isinstance(d, tuple):
            return ('param', d[1])
        return template(g, d, depth - 1)
    if isinstance(e, ast.Constant):
        return ('lit', e.value)
    if isinstance(e, ast.JoinedStr):
        pieces = []
        for v in e.values:
            if isinstance(v, ast.Constant):
                pieces.append(('lit', v.value))
            else:
                pieces.append(('val', tuple(sorted(names_in(v.value)))))
        return ('fstr',) + tuple(pieces)
    if isinstance(e, ast.Call):
        fn = norm(e.func)
        if fn.endswith('path.join') or fn == 'join':
            return ('join',) + tuple(template(f, a, depth - 1) for a in e.args)
        if isinstance(e.func, ast.Attribute) and e.func.attr == 'format':
            return ('format', template(f, e.func.value, depth - 1),
                    tuple(sorted((k.arg, tuple(sorted(names_in(k.value)))) for k in e.keywords if k.arg)))
        if isinstance(e.func, ast.Attribute) and e.func.attr == 'join' and isinstance(e.func.value, ast.Constant):
            return ('join',) + tuple(template(f, a, depth - 1) for a in e.args)
        # a module-level helper whose whole body is `return <expr over its parameters>`: the template of that expression with the arguments substituted
        if isinstance(e.func, ast.Name) and depth > 0:
            h = getattr(f.mod, 'funcs', {}).get(e.func.id)
            body = real([st for st in h.node.body]) if h is not None and not isinstance(h.node, ast.Lambda) else []
            if len(body) == 1 and isinstance(body[0], ast.Return) and body[0].value is not None and not any(isinstance(a, ast.Starred) for a in e.args):
                sub = {}
                for p_, a_ in zip(h.params, e.args):
                    sub[p_] = a_
                for k_ in e.keywords:
                    if k_.arg:
                        sub[k_.arg] = k_.value
                nd = len(h.node.args.defaults)
                for p_, d_ in zip(h.params[len(h.params) - nd:], h.node.args.defaults):
                    sub.setdefault(p_, d_)
                if all(p_ in sub for p_ in h.params):
                    def subst(n):
                        if isinstance(n, ast.Name) and n.id in sub:
                            return sub[n.id]
                        if isinstance(n, ast.AST):
                            m = type(n)()
                            for fld in n._fields:
                                if hasattr(n, fld):
                                    v = getattr(n, fld)
                                    setattr(m, fld, [subst(x) for x in v] if isinstance(v, list) else subst(v))
                            return m
                        return n
                    return template(f, subst(body[0].value), depth - 1)
        return ('call', fn)
    if isinstance(e, ast.Subscript):
        if isinstance(e.slice, ast.Slice):
            return ('index', template(f, e.value, depth - 1))
        return ('index', template(f, e.value, depth - 1), tuple(sorted(names_in(e.slice))))
    if isinstance(e, (ast.ListComp, ast.GeneratorExp)):
        g0 = e.generators[0]
        var = g0.target.id if len(e.generators) == 1 and isinstance(g0.target, ast.Name) else None
        dom = trace(f, g0.iter) if isinstance(g0.iter, ast.Name) else g0.iter
        while isinstance(dom, ast.Call) and norm(dom.func) in ('list', 'tuple') and len(dom.args) == 1:
            dom = dom.args[0]
        ident = isinstance(dom, ast.Call) and norm(dom.func) == 'range' and len(dom.args) == 1 and not g0.ifs       # element k was built for the value k
        return ('each', template(f, e.elt, depth - 1), var, ident)
    return ('expr', norm(e))


def strip_vals(tpl):
    """Erase which variables fill the holes (keeps the literal skeleton) so that two templates can be compared
    for 'same shape'."""
    if isinstance(tpl, tuple):
        if tpl and tpl[0] == 'val':
            return ('val',)
        if tpl and tpl[0] == 'format':
            return ('format', strip_vals(tpl[1]), tuple(k for k, _ in tpl[2]))
        if tpl and tpl[0] in ('each', 'index') and len(tpl) >= 2:
            return strip_vals(tpl[1])
        return tuple(strip_vals(x) for x in tpl)
    return tpl


_MIRROR = {ast.Lt: ast.Gt, ast.Gt: ast.Lt, ast.LtE: ast.GtE, ast.GtE: ast.LtE, ast.Eq: ast.Eq, ast.NotEq: ast.NotEq}


def cmp_forms(c):
    """A single comparison and its mirror image as (left, op class, right) triples (a < b  ==  b > a)."""
    if not (isinstance(c, ast.Compare) and len(c.ops) == 1):
        return []
    op = type(c.ops[0])
    out = [(c.left, op, c.comparators[0])]
    if op in _MIRROR:
        out.append((c.comparators[0], _MIRROR[op], c.left))
    return out


def real(body):
    """Statements of a body without no-ops (pass, bare string/constant expressions)."""
    return [s for s in body if not isinstance(s, ast.Pass) and not (isinstance(s, ast.Expr) and isinstance(s.value, ast.Constant))]


def expand(f, expr, depth=6):
    """Inline uniquely-defined local names inside `expr` (a.b where a = x.y  ->  x.y.b).  Returns a new AST; names that
    are parameters, captured or multiply defined stay as they are."""
    def clone(n):
        """structural copy of an AST (fields and positions only; the `_parent` back links would drag the whole module along in copy.deepcopy)"""
        if isinstance(n, ast.AST):
            m = type(n)()
            for fld in n._fields:
                if hasattr(n, fld):
                    setattr(m, fld, clone(getattr(n, fld)))
            for a in ('lineno', 'col_offset', 'end_lineno', 'end_col_offset'):
                if hasattr(n, a):
                    setattr(m, a, getattr(n, a))
            return m
        if isinstance(n, list):
            return [clone(x) for x in n]
        return n

    class _Copy:
        deepcopy = staticmethod(clone)
    copy = _Copy

    class Sub(ast.NodeTransformer):
        def __init__(self, d):
            self.d = d

        def visit_Name(self, n):
            if not isinstance(n.ctx, ast.Load) or self.d <= 0:
                return n
            g, dd = unique_def(f, n.id)
            if g is not f or dd is None or isinstance(dd, tuple):
                return n
            return Sub(self.d - 1).visit(copy.deepcopy(dd))

        def visit_Lambda(self, n):
            return n

    if not isinstance(expr, ast.AST):
        return expr
    return Sub(depth).visit(copy.deepcopy(expr))


def sources(f, expr):
    """All names the value of `expr` can depend on inside f (transitively through every local assignment, unpacking and loops included)."""
    src = set(names_in(expr))
    changed = True
    while changed:
        changed = False
        for nm in list(src):
            for d in assignments(f, nm):
                v = d[1]
                if isinstance(v, (ast.For, ast.comprehension)):
                    v = v.iter
                elif isinstance(v, ast.AugAssign):
                    v = v.value
                if isinstance(v, ast.AST):
                    new = names_in(v) - src
                    if new:
                        src |= new
                        changed = True
    return src


def inline_call(f, call):
    """The return expression of a module-level single-return helper with the call's arguments substituted for its parameters (a new AST), or None."""
    if not (isinstance(call, ast.Call) and isinstance(call.func, ast.Name)):
        return None
    h = getattr(f.mod, 'funcs', {}).get(call.func.id)
    if h is None or isinstance(h.node, ast.Lambda):
        return None
    body = real(list(h.node.body))
    if not (len(body) == 1 and isinstance(body[0], ast.Return) and body[0].value is not None) or any(isinstance(a, ast.Starred) for a in call.args):
        return None
    sub = dict(zip(h.params, call.args))
    for k_ in call.keywords:
        if k_.arg:
            sub[k_.arg] = k_.value
    nd = len(h.node.args.defaults)
    for p_, d_ in zip(h.params[len(h.params) - nd:], h.node.args.defaults):
        sub.setdefault(p_, d_)
    if not all(p_ in sub for p_ in h.params):
        return None

    def subst(n):
        if isinstance(n, ast.Name) and n.id in sub:
            return sub[n.id]
        if isinstance(n, ast.AST):
            m = type(n)()
            for fld in n._fields:
                if hasattr(n, fld):
                    v = getattr(n, fld)
                    setattr(m, fld, [subst(x) for x in v] if isinstance(v, list) else subst(v))
            return ast.copy_location(m, n) if hasattr(n, 'lineno') else m
        return n
    return subst(body[0].value)
