"""Rules shared by several properties (effects: who may store into what; fresh-argument discipline)."""
import ast

import astq
from effects import effects, is_fresh_expr, base_name
from model import walk_own, FuncInfo, full as norm

# attributes that are lazily computed caches or designated state; re-binding them on self is allowed in the named functions
CACHE_ATTR_WRITERS = {
    '_sindex': {'GeometryArray.__init__', 'GeometryArray.build_sindex', '_BaseCoordinateIndexer.__init__'},
    '_numba_rtree': {'HilbertRtree.__init__', 'HilbertRtree.numba_rtree', 'HilbertRtree.__getstate__'},
    '_partition_bounds': {'DaskGeoSeries.__init__', 'DaskGeoSeries.partition_bounds', 'DaskGeoDataFrame.__init__',
                          'DaskGeoDataFrame._propagate_props_to_dataframe', 'DaskGeoDataFrame._propagate_props_to_series',
                          'DaskGeoSeries._propagate_props_to_series', 'DaskGeoDataFrame.partition_sindex', '_perform_read_parquet_dask'},
    '_partition_sindex': {'DaskGeoSeries.__init__', 'DaskGeoSeries.partition_sindex', 'DaskGeoDataFrame.__init__',
                          'DaskGeoDataFrame._propagate_props_to_dataframe', 'DaskGeoDataFrame._propagate_props_to_series',
                          'DaskGeoSeries._propagate_props_to_series'},
    '_geometry': {'GeoDataFrame.__init__', 'GeoDataFrame.set_geometry', 'GeoDataFrame._constructor_from_mgr', 'GeoDataFrame.__finalize__'},
}
# (function, parameter) pairs that store into their argument today, confirmed by reading, one reason each
ALLOWED_DEEP = {
    ('GeometryArray.fillna', 'self'): 'np.asarray(self) of an ExtensionArray builds a new object array; the store goes into that copy',
    ('DaskGeoDataFrame.partition_sindex', 'self'): 'per-geometry-name dict caches',
    ('DaskGeoSeries.partition_bounds', 'self'): 'names the index of the freshly computed cache frame',
    ('HilbertRtree.__getstate__', 'self'): 'drops the unpicklable jitclass cache (observation in DESIGN §6, not tied to a property)',
    ('GeoDataFrame.__init__', 'self'): 'replaces geometry columns by GeoSeries while constructing',
    ('GeoDataFrame.__init__', 'kwargs'): 'pops `copy` from its own **kwargs dict',
    ('GeometryArray.take', 'indices'): 'np.asarray view of the caller\'s indices (observation, not tied to a property)',
    ('DaskGeoDataFrame._propagate_props_to_dataframe', 'new_frame'): 'designated propagation helper',
    ('DaskGeoDataFrame._propagate_props_to_series', 'new_series'): 'designated propagation helper',
    ('DaskGeoSeries._propagate_props_to_series', 'new_series'): 'designated propagation helper',
    ('DaskGeoDataFrame.build_sindex.build_sindex', 'df'): 'task builds the index of its own partition',
    ('DaskGeoSeries.build_sindex.build_sindex', 'series'): 'task builds the index of its own partition',
    ('GeoDataFrame.build_sindex', 'self'): 'builds the cache of its geometry column',
    ('GeoSeries.build_sindex', 'self'): 'builds the cache of its array',
}


def is_out_param_kernel(P, f):
    """jit kernels and jitclass methods may have documented out-parameters; the obligation moves to their call sites."""
    return P.is_jit(f)


def _problems(P, E, f, p, depth=0):
    """Stores into parameter p of f that are not covered by the constructor / cache / enumerated exceptions."""
    if (f.qualname, p) in ALLOWED_DEEP or depth > 6:
        return []
    if is_out_param_kernel(P, f) and (p != 'self' or f.name == '__init__'):
        return []
    problems = []
    for node, kind in E.direct.get(f.key, {}).get(p, []):
        if kind.startswith('attr:'):
            attr = kind[5:]
            if p == 'self' and f.name in ('__init__', '__setstate__'):
                continue
            if f.qualname in CACHE_ATTR_WRITERS.get(attr, ()):
                continue
            problems.append((node, f're-binds attribute `{attr}` of `{p}`'))
        else:
            problems.append((node, f'stores into `{p}` (or a view of it)'))
    for call, g, gp in E.via.get(f.key, {}).get(p, []):
        if not _problems(P, E, g, gp, depth + 1):
            continue            # the callee's own stores are all of the allowed kinds (cache building, enumerated exceptions)
        problems.append((call, f'hands `{p}` (or a view of it) to {g.qualname}, which stores into its parameter `{gp}`'))
    return problems


def who_mutates(P, R, rule, funcs=None, note=''):
    """For every function in `funcs` (default: all) and each parameter it stores into: allowed only for
    constructors re-binding their own attributes, whitelisted cache attributes, enumerated exceptions, and
    out-parameters of jit kernels (whose call sites are checked by fresh_arguments)."""
    E = effects(P)
    n = 0
    for f in (funcs if funcs is not None else list(P.all_funcs())):
        mut = E.mutated_params(f)
        for p in sorted(mut):
            n += 1
            direct = E.direct.get(f.key, {}).get(p, [])
            via = E.via.get(f.key, {}).get(p, [])
            if is_out_param_kernel(P, f) and p != 'self':
                R.ok(rule, f, None, f'out-parameter `{p}` of a jit kernel (call sites checked separately)', construct=f'{f.qualname}({p})', nontrivial=False)
                continue
            if is_out_param_kernel(P, f) and p == 'self' and f.name == '__init__':
                R.ok(rule, f, None, 'jitclass constructor', construct=f'{f.qualname}({p})', nontrivial=False)
                continue
            if (f.qualname, p) in ALLOWED_DEEP:
                R.ok(rule, f, None, f'enumerated exception: {ALLOWED_DEEP[(f.qualname, p)]}', construct=f'{f.qualname}({p})', nontrivial=False)
                continue
            problems = _problems(P, E, f, p)
            if not problems:
                R.ok(rule, f, None, f'`{p}`: only constructor/cache attribute re-binding', construct=f'{f.qualname}({p})')
            for node, why in problems:
                R.bad(rule, f, node, f'{f.qualname} {why}: the caller\'s object is modified{note}')
    return n


def classify_arg(P, f, expr, E, depth=5, shadow=frozenset()):
    """'fresh' | ('param', name) | ('state', text) | 'unknown' for an argument expression handed to a mutating callee."""
    if is_fresh_expr(expr):
        return 'fresh'
    if isinstance(expr, ast.Name):
        g, defs, is_param = astq.all_defs(f, expr.id)
        if g is None:
            return 'unknown'
        if expr.id in shadow:
            # `x = view_of(x)`: inside its own re-binding the name still denotes the previous object
            return ('param', expr.id) if is_param else 'unknown'
        exprs = [d[1] for d in defs if d[0] == 'expr']
        others = [d for d in defs if d[0] != 'expr']
        if is_param and not defs:
            return ('param', expr.id)
        if others and not exprs:
            # loop variable / unpacking: classify the iterable
            d = others[0]
            if d[0] == 'iter':
                return classify_arg(P, g, d[1].iter, E, depth - 1) if depth > 0 else 'unknown'
            if d[0] == 'unpack':
                return classify_arg(P, g, d[1], E, depth - 1) if depth > 0 else 'unknown'
            return 'unknown'
        results = [classify_arg(P, g, x, E, depth - 1, shadow | {expr.id}) if depth > 0 else 'unknown' for x in exprs]
        if is_param and not _rebound_before(g, expr):
            results.append(('param', expr.id))
        if all(r == 'fresh' for r in results):
            return 'fresh'
        for r in results:
            if r != 'fresh':
                return r
    if isinstance(expr, ast.Subscript):
        return classify_arg(P, f, expr.value, E, depth, shadow)
    if isinstance(expr, ast.Attribute):
        b = base_name(expr)
        if b in ('self', 'cls'):
            return ('state', norm(expr))
        if isinstance(expr.value, ast.Name):
            inner = classify_arg(P, f, expr.value, E, depth, shadow)
            if inner == 'fresh':
                return 'fresh'
            return ('state', norm(expr)) if isinstance(inner, tuple) else inner
        return 'unknown'
    if isinstance(expr, ast.Call):
        if isinstance(expr.func, ast.Attribute) and expr.func.attr in ('view', 'reshape', 'ravel', 'astype_view'):
            return classify_arg(P, f, expr.func.value, E, depth, shadow)
        fn = norm(expr.func)
        if fn in ('np.asarray', 'np.atleast_2d', 'np.atleast_1d', 'np.ascontiguousarray', 'memoryview') and expr.args:
            return classify_arg(P, f, expr.args[0], E, depth, shadow)
        r = P.resolve_call(f, expr)
        if r and r[0] == 'func':
            return 'unknown'
        return 'unknown'
    return 'unknown'


def _rebound_before(g, name_node):
    """Is parameter `name` unconditionally re-bound by a top-level statement of g that precedes the use?"""
    body = g.node.body if isinstance(g.node.body, list) else []
    for st in body:
        if isinstance(st, ast.Assign) and any(isinstance(t, ast.Name) and t.id == name_node.id for t in st.targets) \
                and st.lineno < getattr(name_node, 'lineno', 0):
            return True
    return False


def fresh_arguments(P, R, rule, callee_filter=None, floor=0):
    """Every call site of a parameter-mutating jit kernel passes, for the mutated parameter, either a fresh object
    (np.zeros/.copy()/...) or the caller's own out-parameter; never object state (`self.x`) or a caller argument
    that the caller is not itself documented to mutate."""
    E = effects(P)
    n = 0
    for f in P.all_funcs():
        for call, g, binding in E.calls.get(f.key, []):
            if callee_filter is not None and not callee_filter(g):
                continue
            gm = E.mutated_params(g)
            if not gm or not is_out_param_kernel(P, g):
                continue
            gparams = g.params
            offset = 1 if (g.kind in ('method', 'property', 'classmethod') and gparams and gparams[0] in ('self', 'cls')) else 0
            for gp in sorted(gm):
                if gp == 'self' or gp not in gparams:
                    continue
                a = astq.arg_of(call, pos=gparams.index(gp) - offset, kw=gp)
                if a is None:
                    continue
                n += 1
                c = classify_arg(P, f, a, E)
                if c == 'fresh':
                    R.ok(rule, f, call, f'mutated parameter `{gp}` of {g.qualname} receives a fresh object', construct=f'{g.name}({gp}={norm(a)})')
                elif isinstance(c, tuple) and c[0] == 'param':
                    if c[1] in E.mutated_params(f) and is_out_param_kernel(P, f):
                        R.ok(rule, f, call, f'`{gp}` of {g.qualname} receives the caller\'s own out-parameter `{c[1]}`',
                             construct=f'{g.name}({gp}={norm(a)})', nontrivial=False)
                    else:
                        R.bad(rule, f, call, f'{g.qualname} stores into `{gp}`, which here is the caller\'s argument `{c[1]}` (not a copy)',
                              construct=f'{g.name}({gp}={norm(a)})')
                elif isinstance(c, tuple) and c[0] == 'state':
                    R.bad(rule, f, call, f'{g.qualname} stores into `{gp}`, which here is object state `{c[1]}` (not a copy): the array itself is modified',
                          construct=f'{g.name}({gp}={norm(a)})')
                else:
                    R.abstain(rule, f, call, f'cannot classify the object handed to mutated parameter `{gp}` of {g.qualname}',
                              construct=f'{g.name}({gp}={norm(a)})')
    if floor:
        R.floor(rule, 'call sites of parameter-mutating kernels', n, floor)
    return n


FLOAT64_DTYPES = {'np.float64', 'np.float_', 'np.double', 'float', 'numpy.float64', "'float64'", "'f8'", "'float'", "'d'"}
FLOAT_DTYPES = {'np.float64', 'np.float32', 'np.float_', 'np.double', 'float', 'numpy.float64', 'numpy.float32', "'float64'", "'float32'", "'f8'", "'f4'", "'float'", "'d'"}


def nan_buffers(P, R, rule, modules, floor=1):
    """Result buffers initialised with NaN (the 'no value' marker of bounds / measures) must be floating point whatever the
    coordinate subtype: `np.full(shape, np.nan, dtype=<input>.dtype)` turns NaN into INT_MIN/0 for integer geometries."""
    n = 0
    for m in P.mods.values():
        if not any(m.name == x or m.name.startswith(x + '.') for x in modules):
            continue
        for f in m.funcs.values():
            for c in [x for x in walk_own(f.node) if isinstance(x, ast.Call)]:
                if not (isinstance(c.func, ast.Attribute) and c.func.attr == 'full' and len(c.args) >= 2 and norm(c.args[1]) in ('np.nan', 'numpy.nan', "float('nan')", 'nan', 'math.nan')):
                    continue
                n += 1
                dt = next((k.value for k in c.keywords if k.arg == 'dtype'), c.args[2] if len(c.args) > 2 else None)
                dte = astq.expand(f, dt) if dt is not None else None
                if isinstance(dt, ast.Name) and isinstance(dte, ast.Name):
                    # a dtype chosen on several paths: every choice must be float64
                    alts = [d_[1] for d_ in astq.assignments(f, dt.id) if d_[0] == 'expr' and isinstance(d_[1], ast.AST)]
                    narrow = [a_ for a_ in alts if norm(a_) not in FLOAT64_DTYPES]
                    if alts and narrow:
                        R.bad(rule, f, c, f'NaN-initialised result buffer has dtype `{dt.id}`, which is `{norm(narrow[0])}` on one path: narrower than float64 (float32 coordinates are then compared, '
                              'summed or stored in single precision) or not floating at all', construct=norm(c))
                        continue
                    if alts and not narrow:
                        R.ok(rule, f, c, 'NaN-initialised result buffer is float64 on every path', construct=norm(c))
                        continue
                if dt is None or norm(dt) in FLOAT64_DTYPES:
                    R.ok(rule, f, c, 'NaN-initialised result buffer is float64', construct=norm(c))
                elif norm(dt) in FLOAT_DTYPES or any(isinstance(x, ast.Call) and norm(x.func).split('.')[-1] in ('result_type', 'promote_types', 'find_common_type') for x in ast.walk(dte)) \
                        or any(isinstance(x, ast.Attribute) and x.attr in ('dtype', 'numpy_dtype', 'subtype') for x in ast.walk(dte)):
                    R.bad(rule, f, c, f'NaN-initialised result buffer has dtype `{norm(dte)}`: narrower than float64 (float32 for float32 / int16 / int8 coordinates) or not floating at all, '
                          'so lengths, areas and bounds are rounded to single precision or NaN cannot be stored', construct=norm(c))
                elif isinstance(dt, ast.Attribute) and dt.attr in ('dtype', 'numpy_dtype', 'subtype'):
                    R.bad(rule, f, c, f'NaN-initialised result buffer takes its dtype from `{norm(dt)}`: with integer coordinates NaN (empty / missing) cannot be represented and becomes INT_MIN or 0', construct=norm(c))
                else:
                    R.abstain(rule, f, c, f'cannot classify dtype `{norm(dt)}` of a NaN-initialised buffer', construct=norm(c))
    R.floor(rule, 'NaN-initialised result buffers', n, floor)
    return n


def no_fastmath(P, R, rule, modules, floor=1):
    """Kernels whose contract involves NaN (skipped non-finite coordinates, NaN = 'no value', inert NaN boxes) must not be
    compiled with numba fastmath: LLVM may then assume no NaN/Inf and fold isfinite/isnan/NaN comparisons away."""
    n = 0
    for m in P.mods.values():
        if not any(m.name == x or m.name.startswith(x + '.') for x in modules):
            continue
        for f in m.funcs.values():
            fl = f.tags.get('jit')
            if fl is None:
                continue
            n += 1
            fm = fl.get('fastmath', False)
            R.check(not fm, rule, f, None, 'the kernel is compiled with IEEE semantics (no fastmath): NaN tests and comparisons mean what they say',
                    f'{f.qualname} is compiled with fastmath={fm!r}: the compiler may assume there are no NaN/Inf values, so isfinite/isnan guards and NaN comparisons are folded away '
                    '(a NaN coordinate poisons the result instead of being skipped)', construct=f'{f.qualname} jit flags')
    R.floor(rule, 'jit kernels whose flags were inspected', n, floor)
    return n


def decorated_methods(P, R, rule, funcs, note=''):
    """Methods wrapped by a decorator defined in the repository run the decorator's wrapper, not just their own body: the
    wrapper's stores into its receiver (first parameter) count as stores of the method.  A wrapper that writes the receiver
    memoises results on the object (the same mutable result is then handed to every caller; concurrent first calls race)."""
    E = effects(P)
    n = 0
    for f in funcs:
        for D in f.tags.get('wrapped_by', []):
            wrappers = []
            stack = list(D.nested.values())
            while stack:
                w = stack.pop()
                wrappers.append(w)
                stack.extend(w.nested.values())
            for w in wrappers:
                if not w.params:
                    continue
                n += 1
                recv = w.params[0]
                probs = _problems(P, E, w, recv) if recv in E.mutated_params(w) else []
                if probs:
                    for node, why in probs:
                        R.bad(rule, f, node, f'{f.qualname} is wrapped by {D.qualname}, whose wrapper {w.name} {why}: results are memoised on the object, '
                              f'so every caller receives the same mutable result and later calls answer from it{note}', construct=f'{f.qualname} @{D.name}')
                else:
                    R.ok(rule, f, None, f'decorator {D.qualname} of {f.qualname} does not store into the receiver', construct=f'{f.qualname} @{D.name}')
        for u in f.tags.get('unresolved', []):
            R.abstain(rule, f, None, f'decorator `{u}` of {f.qualname} could not be resolved; its wrapper is not analysed', construct=f'{f.qualname} @{u}')
    return n


_FWD_CACHE = {}


def sub_results(P, R, prop, tier='quick'):
    """Obligations of another property's rule module on the same program (computed once per process and program)."""
    import importlib
    from model import AnalysisError
    k = (id(P), prop)
    if k in _FWD_CACHE and _FWD_CACHE[k][1] == 'in progress':
        # a dependency cycle would silently truncate the forwarded obligations: make it loud
        raise AnalysisError(f'forward cycle: the rules of {prop} are asked for while they are being computed (dependencies must stay acyclic)')
    if k not in _FWD_CACHE:
        mod = importlib.import_module(f'rules.{prop}')
        sub = type(R)(prop, 'quick')
        err = None
        _FWD_CACHE[k] = (sub, 'in progress')          # recursion guard (see above)
        try:
            mod.run(P, sub, 'quick')
            sub.raise_deferred()
        except AnalysisError as e:
            err = e
        _FWD_CACHE[k] = (sub, err)
    return _FWD_CACHE[k]


def forward(P, R, src_prop, rules, dst_rule, why, skip_constructs=(), floor=1, only=None):
    """Property-level dependency: the obligations `rules` (rule ids or prefixes) of `src_prop` are necessary for this property
    too (`why`); they are reported again under `dst_rule`.  A known finding of the source property is not forwarded (it is
    listed under the source's own rule ids)."""
    import report
    sub, err = sub_results(P, R, src_prop)
    known = {(k_['rule'], k_['site'], k_['construct']) for k_ in report.load_known() if k_.get('status') == 'known'}
    n = 0
    for o in sub.obs:
        if not any(o.rule == r_ or (r_.endswith('*') and o.rule.startswith(r_[:-1])) for r_ in rules):
            continue
        if o.key() in known or o.construct in skip_constructs:
            continue
        if only is not None and not only(o):
            continue
        n += 1
        ob = R._add(dst_rule, (o.path, o.site.split('::')[-1]), None, o.status, f'[{o.rule}] {why}: {o.detail}', construct=o.construct, nontrivial=o.nontrivial)
        ob.line = o.line
    if n < floor and err is None:
        from model import AnalysisError
        raise AnalysisError(f'{dst_rule}: only {n} obligations of {src_prop} {rules} to forward, expected at least {floor}')
    return n


def returns_pass_through(P, R, rule, f, gate, what, why, allow=None):
    """Every `return` of f is reached only through a statement for which gate(call) holds for some call in it (must-pass-through on the CFG).
    `allow(ret)` may accept a bypass (e.g. an empty answer).  Reports each bypassing return."""
    import cfg as cfgmod
    C = cfgmod.build(f.node)
    gates = []
    for s in walk_own(f.node):
        if isinstance(s, ast.stmt) and not isinstance(s, (ast.If, ast.For, ast.While, ast.With, ast.Try, ast.FunctionDef)):
            if any(isinstance(c, ast.Call) and gate(c) for c in ast.walk(s)):
                gates.append(s)
    gn = [C.node(s) for s in gates if C.node(s) is not None]
    n = 0
    for ret in [s for s in walk_own(f.node) if isinstance(s, ast.Return)]:
        n += 1
        ok = bool(gn) and C.every_path_passes(C.ENTRY, C.node(ret), gn)
        if not ok and allow is not None and allow(ret):
            ok = True
        R.check(ok, rule, f, ret, f'every path to this return of {f.qualname} passes through {what}',
                f'`{norm(ret)}` in {f.qualname} is reached without {what}: {why}', construct=f'{f.qualname}: {norm(ret)[:60]} after {what}')
    return n


def module_tables(m):
    """Names of module-level mutable containers (dict / list / set displays or constructors)."""
    out = set()
    for a in m.tree.body:
        if isinstance(a, (ast.Assign, ast.AnnAssign)):
            v = a.value
            tg = a.targets if isinstance(a, ast.Assign) else [a.target]
            if isinstance(v, (ast.Dict, ast.List, ast.Set)) or (isinstance(v, ast.Call) and norm(v.func).split('.')[-1] in
                                                                 ('dict', 'OrderedDict', 'defaultdict', 'WeakValueDictionary', 'WeakKeyDictionary', 'list', 'set', 'LRUCache', 'TTLCache')):
                out |= {t.id for t in tg if isinstance(t, ast.Name)}
    return out


def answers_from_module_table(P, f, must_key=()):
    """Return statements of f whose value (through local names) comes out of a module-level table, unless the lookup key visibly contains one of
    `must_key` (attribute names / substrings).  Used for hooks that must answer from their argument only."""
    tabs = module_tables(f.mod) - set(f.params)
    if not tabs:
        return []
    lookups = []
    for n in walk_own(f.node):
        if isinstance(n, ast.Subscript) and isinstance(n.value, ast.Name) and n.value.id in tabs and isinstance(n.ctx, ast.Load):
            lookups.append((n, n.slice))
        if isinstance(n, ast.Call) and isinstance(n.func, ast.Attribute) and n.func.attr in ('get', 'setdefault', 'pop') and isinstance(n.func.value, ast.Name) and n.func.value.id in tabs and n.args:
            lookups.append((n, n.args[0]))

    def key_ok(k):
        txt = norm(astq.expand(f, k))
        if any(mk in txt for mk in must_key):
            return True
        for c in ast.walk(astq.expand(f, k)):
            if isinstance(c, ast.Call):
                r = P.resolve_call(f, c)
                if r and r[0] == 'func' and any(mk in norm(r[1].node) for mk in must_key):
                    return True
        return False
    lookups = [(n, k) for n, k in lookups if not key_ok(k)]
    if not lookups:
        return []
    tainted = set()
    changed = True
    while changed:
        changed = False
        for n in walk_own(f.node):
            if isinstance(n, ast.Assign):
                src = any(any(x is l for x in ast.walk(n.value)) for l, _ in lookups) or bool(astq.names_in(n.value) & tainted)
                if src:
                    for t in n.targets:
                        for nm in ast.walk(t):
                            if isinstance(nm, ast.Name) and nm.id not in tainted:
                                tainted.add(nm.id)
                                changed = True
    out = []
    for r in [s for s in walk_own(f.node) if isinstance(s, ast.Return) and s.value is not None]:
        if astq.names_in(r.value) & tainted or any(any(x is l for x in ast.walk(r.value)) for l, _ in lookups):
            out.append(r)
    return out


def shared_mutable_defaults(P, R, rule, funcs, why):
    """`dict.fromkeys(keys, [])` (or {} / set()) gives every key the SAME object; when the values are then filled in place, every key sees all entries."""
    n = 0
    for f in funcs:
        for c in [x for x in ast.walk(f.node) if isinstance(x, ast.Call)]:
            if norm(c.func).endswith('fromkeys') and len(c.args) == 2:
                v = c.args[1]
                mutable = isinstance(v, (ast.List, ast.Dict, ast.Set)) or (isinstance(v, ast.Call) and norm(v.func) in ('list', 'dict', 'set') and not v.args)
                n += 1
                R.check(not mutable, rule, f, c, 'per-key containers are distinct objects',
                        f'`{norm(c)}` gives every key the same container object: {why}', construct=f'{f.qualname}: {norm(c)[:60]}')
    return n


def kernel_on_every_path(P, R, rule, f, is_kernel, what, why):
    """No fast path around the computation: every return of f passes through a call of one of the kernels (is_kernel(FuncInfo)), except under a
    guard that the receiver is empty (`len(self) == 0`)."""
    def gate(c):
        r = P.resolve_call(f, c)
        return bool(r and r[0] == 'func' and is_kernel(r[1]))

    def allow(ret):
        q = ret
        while getattr(q, '_parent', None) is not None and q._parent is not f.node:
            q = q._parent
            if isinstance(q, ast.If) and any(t in norm(q.test) for t in ('len(self) == 0', 'len(self) < 1', 'not len(self)', 'self.empty')):
                return True
        return False
    return returns_pass_through(P, R, rule, f, gate, what, why, allow=allow)


def array_token(P, R, rule):
    """(seed S10) Dask identifies a frame by the token of its columns.  The generic extension-array token is computed from the elements as python
    objects: it distinguishes values, missing and empty elements, but not the coordinate subtype (float32 / float64 / int32 ...): two frames with equal
    numbers and different subtypes collapse into one collection.  A normaliser registered for GeometryArray must therefore exist, include the dtype, and
    cover the elements completely: either through the array as a whole (generic normaliser, the elements, the arrow array), or - when built from the
    buffers - with the validity of the elements (missing vs empty have identical offsets and coordinates)."""
    R.assume('S10: dask reuses collections whose inputs have equal tokens (dask.base.tokenize / normalize_token dispatch)')
    ga = P.cls('spatialpandas.geometry.base.GeometryArray')
    hs = []
    for g_ in P.all_funcs():
        for d_ in getattr(g_.node, 'decorator_list', []) or []:
            if isinstance(d_, ast.Call) and 'normalize_token' in norm(d_.func) and d_.args:
                r = P.resolve_expr_static(g_.mod, d_.args[0])
                if r and r[0] == 'class' and (r[1] is ga or (r[1].mro and ga in r[1].mro)):
                    hs.append((g_, r[1]))
    covers_all = any(ci is ga for _, ci in hs)
    R.check(covers_all, rule, ('spatialpandas/dask.py', 'normalize_token'), None, 'a dask token normaliser is registered for GeometryArray',
            'no dask token normaliser is registered for GeometryArray: the generic extension-array token is computed from the elements as python objects and ignores the coordinate '
            'subtype, so frames with equal numbers but different subtypes (float32 / float64 / int32) have one token and dd.from_pandas returns the first frame for both',
            construct='GeometryArray token normaliser')
    for g_, ci in hs:
        if not g_.params:
            continue
        a = g_.params[0]
        rets = [s_ for s_ in walk_own(g_.node) if isinstance(s_, ast.Return) and s_.value is not None]
        exp = [astq.expand(g_, s_.value) for s_ in rets]
        attrs = set()
        whole = False
        raw_arrow = False
        for e_ in exp:
            for x in ast.walk(e_):
                if isinstance(x, ast.Attribute) and isinstance(x.value, ast.Name) and x.value.id == a:
                    attrs.add(x.attr)
                if isinstance(x, ast.Call):
                    for arg in list(x.args) + [k.value for k in x.keywords]:
                        if isinstance(arg, ast.Name) and arg.id == a and norm(x.func) not in ('type', 'len', 'isinstance', 'id', 'getattr', 'hasattr', 'str', 'repr'):
                            whole = True          # the array itself goes into the token (generic normaliser, np.asarray, list, pickle ...)
                        if isinstance(arg, ast.Attribute) and isinstance(arg.value, ast.Name) and arg.value.id == a and arg.attr in ('data', '_data'):
                            if norm(x.func).split('.')[-1] in ('normalize_token', 'tokenize'):
                                raw_arrow = True      # (S14) dask tokenises a pyarrow array by its BUFFERS: the slice offset and length are not part of the token
                            elif norm(x.func) in ('len', 'type', 'isinstance', 'id', 'getattr', 'hasattr', 'str', 'repr'):
                                pass                  # a length or a type is not the content
                            else:
                                whole = True          # the arrow array as a whole (to_pylist, pickle, ...)
                    if isinstance(x.func, ast.Attribute) and isinstance(x.func.value, ast.Attribute) and isinstance(x.func.value.value, ast.Name) and x.func.value.value.id == a \
                            and x.func.value.attr in ('data', '_data') and x.func.attr in ('to_pylist', 'to_pandas', 'to_numpy', 'to_string', 'equals', '__reduce__'):
                        whole = True
                    if isinstance(x.func, ast.Attribute) and isinstance(x.func.value, ast.Name) and x.func.value.id == a and x.func.attr in ('to_numpy', 'tolist', '__reduce__', '__getstate__', 'astype'):
                        whole = True
                    if isinstance(x.func, ast.Attribute) and x.func.attr == 'buffers' and isinstance(x.func.value, ast.Attribute) and isinstance(x.func.value.value, ast.Name) \
                            and x.func.value.value.id == a and x.func.value.attr in ('data', '_data'):
                        raw_arrow = 'offset' not in {y.attr for e2 in exp for y in ast.walk(e2) if isinstance(y, ast.Attribute)} or raw_arrow
        # raw buffers read anywhere in the handler (through a local alias of the arrow array too)
        for x in walk_own(g_.node):
            if isinstance(x, ast.Call) and isinstance(x.func, ast.Attribute) and x.func.attr == 'buffers':
                recv = astq.trace(g_, x.func.value) if isinstance(x.func.value, ast.Name) else x.func.value
                if isinstance(recv, ast.Attribute) and recv.attr in ('data', '_data') and isinstance(recv.value, ast.Name) and recv.value.id == a:
                    uses_offset = any(isinstance(y, ast.Attribute) and y.attr == 'offset' for y in ast.walk(g_.node))
                    if not uses_offset:
                        raw_arrow = True
        has_dtype = bool(attrs & {'dtype', 'numpy_dtype', '_dtype', '_numpy_dtype'}) or any('.data.type' in norm(e_) for e_ in exp)
        R.check(bool(rets) and has_dtype, rule, g_, rets[0] if rets else None, f'the token of a {ci.name} includes its dtype (coordinate subtype)',
                f'the token {g_.name} computes for a {ci.name} does not include the dtype: arrays with equal numbers and different coordinate subtypes get one token',
                construct=f'{g_.name}: token includes the dtype')
        if raw_arrow and not whole:
            R.assume('S14: dask tokenises a pyarrow Array by its buffers; offset and length of a slice are not part of that token')
            R.bad(rule, g_, rets[0] if rets else None, f'the token {g_.name} computes for a {ci.name} hands the arrow array to dask\'s tokeniser, which hashes the BUFFERS only: equally long slices of one parent '
                  'array (iloc windows) share all buffers and get one token, so dask serves the first window for all of them', construct=f'{g_.name}: token of the raw arrow array')
        complete = whole or raw_arrow or bool(attrs & {'isna', 'isnull', '_isna'})
        R.check(bool(rets) and complete, rule, g_, rets[0] if rets else None, f'the token of a {ci.name} covers its elements completely (whole array, or buffers together with the validity of the elements)',
                f'the token {g_.name} computes for a {ci.name} is built from {sorted(attrs)} only: a missing element and an empty one have the same offsets and coordinates, so arrays that differ only in '
                'missing vs empty elements get one token and dask serves the first frame for both', construct=f'{g_.name}: token covers validity')


def class_level_mutable_state(P, R, rule, classes, why):
    """A mutable container assigned in the class body is ONE object shared by every instance that never got its own.  Where instances fill it in place
    (`self.attr[key] = ...`, `.update`, `.append` ...) the entries of one instance show up in all the others."""
    MUT = ('append', 'extend', 'add', 'update', 'insert', 'setdefault', 'pop', 'clear', 'remove')
    n = 0
    for ci in classes:
        for name, mem in ci.members.items():
            if mem[0] != 'assign':
                continue
            v = getattr(mem[1], 'value', mem[1])
            mutable = isinstance(v, (ast.List, ast.Dict, ast.Set)) or (isinstance(v, ast.Call) and norm(v.func) in ('list', 'dict', 'set', 'collections.defaultdict', 'defaultdict', 'OrderedDict'))
            if not mutable:
                continue
            n += 1
            writers = []
            for f in P.all_funcs():
                if f.cls is None or not (f.cls is ci or (f.cls.mro and ci in f.cls.mro)):
                    continue
                for x in walk_own(f.node):
                    if isinstance(x, (ast.Assign, ast.AugAssign)):
                        for t in (x.targets if isinstance(x, ast.Assign) else [x.target]):
                            if isinstance(t, ast.Subscript) and isinstance(t.value, ast.Attribute) and t.value.attr == name and isinstance(t.value.value, ast.Name) and t.value.value.id == 'self':
                                writers.append((f, x))
                    if isinstance(x, ast.Call) and isinstance(x.func, ast.Attribute) and x.func.attr in MUT and isinstance(x.func.value, ast.Attribute) and x.func.value.attr == name \
                            and isinstance(x.func.value.value, ast.Name) and x.func.value.value.id == 'self':
                        writers.append((f, x))
            R.check(not writers, rule, (ci.mod.path, ci.name), mem[1], f'`{ci.name}.{name}` (a class-level container) is never filled in place through an instance',
                    f'`{ci.name}.{name} = {norm(v)}` is one container shared by all instances, and `{norm(writers[0][1])[:70] if writers else ""}` in {writers[0][0].qualname if writers else ""} fills it in '
                    f'place: {why}', construct=f'{ci.name}.{name} class-level container')
    return n


FRESH_PER_CALL = ('uuid.', 'time.', 'random.', 'tempfile.', 'datetime.', 'secrets.', 'os.getpid', 'os.urandom', 'np.random.', 'numpy.random.', 'itertools.count', 'threading.')


def evaluated_once(P, R, rule, why):
    """A parameter default (and a module-level constant) is evaluated ONCE, when the module is imported.  A value that is meant to be fresh for every call
    - a uuid, a time stamp, a random or temporary name - placed there is shared by every call in the process: two concurrent calls use the same
    "unique" name.  Also the classic mutable default that the function fills in place."""
    n = 0
    for f in P.all_funcs():
        if isinstance(f.node, ast.Lambda):
            continue
        a = f.node.args
        pos = a.posonlyargs + a.args
        pairs = list(zip(pos[len(pos) - len(a.defaults):], a.defaults)) + [(k, d) for k, d in zip(a.kwonlyargs, a.kw_defaults) if d is not None]
        for arg, d in pairs:
            calls = [norm(c.func) for c in ast.walk(d) if isinstance(c, ast.Call)]
            fresh = [c for c in calls if any(c.startswith(p_) or c == p_.rstrip('.') for p_ in FRESH_PER_CALL)]
            if fresh:
                n += 1
                R.bad(rule, f, d, f'the default `{arg.arg}={norm(d)}` of {f.qualname} is evaluated once, when the module is imported: every call that relies on it gets the SAME '
                                  f'value of `{fresh[0]}(...)`: {why}', construct=f'{f.qualname}: default {arg.arg} evaluated once')
            if isinstance(d, (ast.List, ast.Dict, ast.Set)) or (isinstance(d, ast.Call) and norm(d.func) in ('list', 'dict', 'set') and not d.args):
                MUT = ('append', 'extend', 'add', 'update', 'insert', 'setdefault', 'pop', 'clear', 'remove')
                filled = [x for x in walk_own(f.node) if (isinstance(x, ast.Call) and isinstance(x.func, ast.Attribute) and x.func.attr in MUT and isinstance(x.func.value, ast.Name) and x.func.value.id == arg.arg)
                          or (isinstance(x, (ast.Assign, ast.AugAssign)) and any(isinstance(t, ast.Subscript) and isinstance(t.value, ast.Name) and t.value.id == arg.arg
                                                                                for t in (x.targets if isinstance(x, ast.Assign) else [x.target])))]
                if filled:
                    n += 1
                    R.bad(rule, f, d, f'the mutable default `{arg.arg}={norm(d)}` of {f.qualname} is filled in place (`{norm(filled[0])[:60]}`): all calls share one container',
                          construct=f'{f.qualname}: mutable default {arg.arg}')
    for m in P.mods.values():
        for st in m.tree.body:
            if isinstance(st, ast.Assign) and len(st.targets) == 1 and isinstance(st.targets[0], ast.Name):
                calls = [norm(c.func) for c in ast.walk(st.value) if isinstance(c, ast.Call)]
                fresh = [c for c in calls if any(c.startswith(p_) or c == p_.rstrip('.') for p_ in FRESH_PER_CALL) and not c.startswith('threading.')]
                if fresh:
                    users = [f for f in P.all_funcs() if f.mod is m and not isinstance(f.node, ast.Lambda) and st.targets[0].id in astq.names_in(f.node)]
                    if users:
                        n += 1
                        R.bad(rule, (m.path, st.targets[0].id), st, f'the module-level `{norm(st)[:70]}` is evaluated once per process and used by {users[0].qualname}: every call shares the value '
                                                                   f'of `{fresh[0]}(...)`: {why}', construct=f'{st.targets[0].id}: module-level value evaluated once')
    if n == 0:
        R.ok(rule, ('spatialpandas', 'defaults'), None, 'no parameter default or module-level constant holds a value that must be fresh per call (uuid, time, random, temp name); no mutable default is filled in place',
             construct='values evaluated once')
    return n


def coordinate_buffers_row_major(P, R, rule):
    """The fixed-width arrays store interleaved coordinates (x0 y0 x1 y1 ...): a numpy array handed to the constructor reaches arrow serialised in ROW-MAJOR order
    (`array.tobytes()`, `np.ascontiguousarray`), whatever its memory layout.  Wrapping the array's memory as it is stores a Fortran-ordered (n, 2) array -
    `np.array([xs, ys]).T`, `df[['x', 'y']].to_numpy()` - as all xs followed by all ys."""
    n = 0
    for m in P.mods.values():
        if not m.name.startswith('spatialpandas.geometry.base'):
            continue
        for f in m.funcs.values():
            if isinstance(f.node, ast.Lambda):
                continue
            for c in astq.own_calls(f):
                if norm(c.func) not in ('pa.py_buffer', 'pyarrow.py_buffer', 'pa.foreign_buffer') or not c.args:
                    continue
                e = astq.expand(f, c.args[0])
                # bytes that already are arrow / python bytes (as_py(), buffers of an existing arrow array) carry no numpy layout
                if any(isinstance(x, ast.Call) and isinstance(x.func, ast.Attribute) and x.func.attr in ('as_py', 'to_pybytes', 'buffers') for x in ast.walk(e)):
                    continue
                n += 1
                ok = False
                if isinstance(e, ast.Call) and isinstance(e.func, ast.Attribute) and e.func.attr == 'tobytes':
                    order = next((k.value for k in e.keywords if k.arg == 'order'), e.args[0] if e.args else None)
                    ok = order is None or astq.const_str(order) == 'C'
                elif isinstance(e, ast.Call) and norm(e.func) in ('np.ascontiguousarray', 'numpy.ascontiguousarray'):
                    ok = True
                elif isinstance(e, ast.Call) and isinstance(e.func, ast.Attribute) and e.func.attr in ('ravel', 'flatten') and not any(astq.const_str(a) in ('F', 'A', 'K') for a in list(e.args) + [k.value for k in e.keywords]):
                    ok = True
                elif isinstance(e, (ast.Constant, ast.JoinedStr)) or (isinstance(e, ast.Call) and norm(e.func) in ('bytes', 'bytearray')):
                    ok = True
                R.check(ok, rule, f, c, 'coordinates reach arrow serialised in row-major order',
                        f'`{norm(c)[:80]}` wraps `{norm(e)[:60]}` in the memory order it happens to have: a Fortran-ordered (n, 2) array is stored as all x values followed by all y values, '
                        'so every point of the array is made of the wrong pair of numbers', construct=f'{f.qualname}: {norm(c)[:50]}')
    R.floor(rule, 'numpy-to-arrow coordinate buffers', n, 3)
    return n


LOSSY_CALLS = ('rsplit', 'split', 'basename', 'stem', 'name', 'partition', 'rpartition', 'splitext', 'len')


def task_names(P, R, rule, funcs, why):
    """A `dask_key_name=` given to a delayed call names the task; dask runs ONE task per name in a graph.  Every argument that changes what the task returns
    must be part of the name, and as a whole: a name made of the file's base name (`part.0.parquet`) is shared by the parts of every dataset."""
    n = 0
    for g_ in funcs:
        for c_ in astq.own_calls(g_):
            kn = astq.arg_of(c_, kw='dask_key_name')
            if kn is None:
                continue
            n += 1
            e_ = astq.expand(g_, kn)
            named = astq.sources(g_, kn) | {x.id for x in ast.walk(e_) if isinstance(x, ast.Name)}
            others = set()
            for a_ in list(c_.args) + [k_.value for k_ in c_.keywords if k_.arg not in ('dask_key_name', 'filesystem', 'pure', 'name')]:
                others |= {n_ for n_ in astq.names_in(a_)}
            missing = sorted(n_ for n_ in others if n_ not in named and n_ not in ('filesystem', 'np', 'pd'))
            R.check(not missing, rule, g_, c_, 'the task name covers every argument of the task',
                    f'`dask_key_name={norm(kn)}` does not depend on {missing}: two reads that differ only in {missing} get identically named tasks, dask runs one of them for both: {why}',
                    construct='task name covers the task arguments')
            # whole, not a part of it
            for x in ast.walk(e_):
                for ch in ast.iter_child_nodes(x):
                    ch._tn_parent = x
            partial = []
            for x in ast.walk(e_):
                if isinstance(x, ast.Name) and x.id in others:
                    q, lossy = x, None
                    while getattr(q, '_tn_parent', None) is not None:
                        par = q._tn_parent
                        if isinstance(par, ast.Subscript) and par.value is q:
                            lossy = norm(par)
                        if isinstance(par, ast.Call) and ((isinstance(par.func, ast.Attribute) and par.func.attr in LOSSY_CALLS and (par.func.value is q or q in par.args))
                                                          or norm(par.func).split('.')[-1] in LOSSY_CALLS):
                            lossy = norm(par)
                        q = par
                    if lossy:
                        partial.append((x.id, lossy))
            whole = {x.id for x in ast.walk(e_) if isinstance(x, ast.Name) and x.id in others} - {p_[0] for p_ in partial}
            bad = [p_ for p_ in partial if p_[0] not in whole]
            R.check(not bad, rule, g_, c_, 'the task name contains its arguments as a whole',
                    f'`dask_key_name={norm(kn)[:80]}` contains only a part of `{bad[0][0] if bad else ""}` (`{bad[0][1][:50] if bad else ""}`): different arguments with the same part - the equally named part files of '
                    f'two datasets - get one task name, and dask runs one task for both: {why}', construct='task name contains whole arguments')
    return n


def read_path_not_memoised(P, R, rule):
    # ---------------------------------------------------------------- C12.h nothing on the read path is memoised
    # read_parquet_dask must report what the dataset holds *now*: a function that reads through the filesystem and is
    # memoised by its arguments (functools cache decorators, or a module-level dict consulted before reading) returns
    # the previous dataset's metadata after an overwrite -- no writer-side invalidation can cover other processes.
    def reads_storage(c, g):
        if astq.fs_call(c, {'open', 'cat', 'cat_file', 'read_bytes', 'get', 'expand_path', 'ls', 'listdir', 'glob', 'find', 'walk', 'exists', 'isdir', 'isfile', 'info'}):
            return True          # listings and existence checks go stale just like contents
        r_ = P.resolve_call(g, c)
        return bool(r_ and r_[0] == 'ext' and r_[1].split('.')[-1] in ('read_metadata', 'read_table', 'ParquetDataset', 'read_schema', 'ParquetFile'))
    nread = 0
    for m in P.mods.values():
        globals_mut = {t.id for a in m.tree.body if isinstance(a, ast.Assign) and isinstance(a.value, (ast.Dict, ast.Call))
                       and (isinstance(a.value, ast.Dict) or norm(a.value.func) in ('dict', 'OrderedDict', 'WeakValueDictionary', 'weakref.WeakValueDictionary'))
                       for t in a.targets if isinstance(t, ast.Name)}
        for g in m.funcs.values():
            if isinstance(g.node, ast.Lambda) or not astq.performs(P, g, reads_storage, depth=3):
                continue
            nread += 1
            memo = [d for d in g.tags.get('ext', []) if 'cache' in d.split('.')[-1].lower() or d.split('.')[-1] in ('memoize', 'memoized')]
            R.check(not memo, rule, g, None, 'a function that reads the dataset from storage is not memoised',
                    f'`{g.name}` reads from storage but is memoised by {memo}: after the dataset is rewritten the reader reports the previous metadata/bounds',
                    construct=f'memoised storage read {g.name}')
            hits = [n for n in walk_own(g.node) if isinstance(n, ast.Return) and n.value is not None
                    and any(isinstance(x, ast.Subscript) and isinstance(x.value, ast.Name) and x.value.id in globals_mut and x.value.id not in g.params
                            or (isinstance(x, ast.Call) and isinstance(x.func, ast.Attribute) and x.func.attr == 'get' and isinstance(x.func.value, ast.Name) and x.func.value.id in globals_mut)
                            for x in ast.walk(n.value))]
            R.check(not hits, rule, g, hits[0] if hits else None, 'a function that reads the dataset from storage does not answer from a module-level table',
                    f'`{g.name}` answers from a module-level table instead of storage: stale after the dataset is rewritten', construct=f'table-cached storage read {g.name}')
    R.floor(rule, 'functions that read dataset files', nread, 3)


def coordinate_truthiness(P, R, rule, modules, why):
    """The corners of a query box are numbers, and 0 is one of them: a coordinate unpacked from a `bounds` argument is never tested for truth
    (`x0 or default`, `if x0:`, `not x1`); "not given" can only be recognised with `is None`."""
    n = 0
    for m in P.mods.values():
        if m.name not in modules:
            continue
        for f in m.funcs.values():
            if isinstance(f.node, ast.Lambda):
                continue
            coords = set()
            for st in walk_own(f.node):
                if isinstance(st, ast.Assign) and isinstance(st.targets[0], ast.Tuple) and len(st.targets[0].elts) in (4, 6) and isinstance(st.value, ast.Name) \
                        and 'bounds' in st.value.id and all(isinstance(e_, ast.Name) for e_ in st.targets[0].elts):
                    coords |= {e_.id for e_ in st.targets[0].elts}
            if not coords:
                continue
            n += 1
            bad = []
            for x in walk_own(f.node):
                if isinstance(x, ast.BoolOp) and any(isinstance(v, ast.Name) and v.id in coords for v in x.values):
                    bad.append(x)
                if isinstance(x, (ast.If, ast.IfExp, ast.While)) and isinstance(x.test, ast.Name) and x.test.id in coords:
                    bad.append(x.test)
                if isinstance(x, ast.UnaryOp) and isinstance(x.op, ast.Not) and isinstance(x.operand, ast.Name) and x.operand.id in coords:
                    bad.append(x)
            R.check(not bad, rule, f, bad[0] if bad else None, f'{f.qualname}: the coordinates of the box are never tested for truth',
                    f'`{norm(bad[0])[:60] if bad else ""}` in {f.qualname} tests a box coordinate for truth: the coordinate 0 (a box side on an axis) counts as "not given" and is replaced: {why}',
                    construct=f'{f.qualname}: box coordinates tested for truth')
    return n


def masked_offsets(P, R, rule):
    """Invariant the kernels rely on: a MISSING element spans no coordinates (its offsets range is empty) - that is how arrow builds arrays from python data and
    how slice / take / concat keep them.  `ListArray.from_arrays(offsets, values, mask=m)` attaches a validity mask to offsets as they are: it keeps the
    invariant only when the mask marks exactly the elements that were missing in the array the offsets come from - the receiver's own offsets with its own
    `isna()`.  A mask that adds elements (fill slots of a take, filtered rows) marks elements as missing whose offsets still span coordinates: they are null
    for isna(), but every kernel that walks the offsets still sees their vertices (intersects_bounds answers True, length/area are computed)."""
    n = 0
    for m in P.mods.values():
        if not m.name.startswith('spatialpandas.geometry'):
            continue
        for f in m.funcs.values():
            if isinstance(f.node, ast.Lambda):
                continue
            for c in astq.own_calls(f):
                if not (isinstance(c.func, ast.Attribute) and c.func.attr == 'from_arrays' and c.args):
                    continue
                offs = c.args[0]
                mk = astq.arg_of(c, kw='mask')
                inner_mask = None
                for x in ast.walk(offs):
                    if isinstance(x, ast.Call) and astq.arg_of(x, kw='mask') is not None:
                        inner_mask = astq.arg_of(x, kw='mask')
                mk = mk if mk is not None else inner_mask
                if mk is None:
                    continue
                n += 1
                me = astq.expand(f, mk)
                srcs = astq.sources(f, mk)
                own_isna = any(isinstance(x, ast.Call) and isinstance(x.func, ast.Attribute) and x.func.attr in ('isna', 'isnull', 'is_null') and norm(x.func.value) in ('self', 'self.data')
                               for x in ast.walk(me))
                widened = any(isinstance(x, ast.BinOp) and isinstance(x.op, (ast.BitOr, ast.BitAnd, ast.BitXor)) for x in ast.walk(me)) or \
                    any(isinstance(x, ast.Compare) for x in ast.walk(me))
                # provenance through local names too (missing = fill_mask | taken.isna())
                for nm in srcs:
                    for d_ in astq.assignments(f, nm):
                        if d_[0] == 'expr' and isinstance(d_[1], ast.AST):
                            if any(isinstance(x, ast.BinOp) and isinstance(x.op, (ast.BitOr, ast.BitAnd, ast.BitXor)) for x in ast.walk(d_[1])) or any(isinstance(x, ast.Compare) for x in ast.walk(d_[1])):
                                widened = True
                            if any(isinstance(x, ast.Call) and isinstance(x.func, ast.Attribute) and x.func.attr in ('isna', 'isnull', 'is_null') and norm(x.func.value) in ('self', 'self.data') for x in ast.walk(d_[1])):
                                own_isna = True
                oe = astq.expand(f, offs)
                own_offs = any(isinstance(x, ast.Attribute) and x.attr in ('buffer_offsets', 'buffer_outer_offsets', 'buffer_inner_offsets') and norm(x.value) == 'self' for x in ast.walk(oe)) or \
                    any(nm2 in astq.sources(f, offs) for nm2 in ()) or any(isinstance(d_[1], ast.AST) and 'self.buffer_offsets' in norm(d_[1]) for nm in astq.sources(f, offs) for d_ in astq.assignments(f, nm) if d_[0] == 'expr')
                if not own_offs:
                    so = astq.sources(f, offs)
                    for st in walk_own(f.node):
                        if isinstance(st, ast.Assign) and ({n_.id for t_ in st.targets for n_ in ast.walk(t_) if isinstance(n_, ast.Name)} & so) \
                                and any(isinstance(x, ast.Attribute) and x.attr in ('buffer_offsets', 'buffer_outer_offsets', 'buffer_inner_offsets') and norm(x.value) == 'self' for x in ast.walk(st.value)):
                            own_offs = True
                if not own_offs:
                    # the array's own arrow offsets (possibly re-based by a constant): the same elements, the same emptiness
                    oe_txt = norm(oe)
                    own_offs = 'self.data.offsets' in oe_txt or any(isinstance(d_[1], ast.AST) and any(isinstance(x, ast.Attribute) and x.attr == 'offsets' for x in ast.walk(d_[1])) and 'self.data' in {norm(dd[1]) for nm2 in astq.sources(f, d_[1]) for dd in astq.assignments(f, nm2) if dd[0] == 'expr' and isinstance(dd[1], ast.AST)} | {norm(d_[1]).split('.offsets')[0]}
                                                                     for nm in astq.sources(f, offs) for d_ in astq.assignments(f, nm) if d_[0] == 'expr') or any(isinstance(d_[1], ast.AST) and 'self.data' in norm(astq.expand(f, d_[1])) and '.offsets' in norm(d_[1])
                                                                     for nm in astq.sources(f, offs) for d_ in astq.assignments(f, nm) if d_[0] == 'expr')
                ok = own_isna and own_offs and not widened
                R.check(ok, rule, f, c, 'a validity mask is attached only to the array\'s own offsets, marking its own missing elements',
                        f'`{norm(c)[:80]}` attaches the mask `{norm(mk)[:40]}` ' + ('(more elements than were missing) ' if widened else '') + 'to offsets in which the newly masked elements still span coordinates: '
                        'they are missing for isna() but every kernel that walks the offsets sees their vertices - a missing row intersects boxes, has a length and an area',
                        construct=f'{f.qualname}: mask on {norm(offs)[:40]}')
    return n


def scalar_dtype_from_data(P, R, rule):
    """The coordinate width a list scalar reports is the width of the arrow data it HOLDS: `buffer_values` reinterprets the value buffer with it.  A width
    remembered from a constructor argument (the parent array's dtype) is wrong whenever the element was rebuilt from python values (`as_py()` gives 64-bit
    data): the bytes of float64 coordinates are then read as float32 pairs."""
    gl = P.cls('spatialpandas.geometry.baselist.GeometryList')
    mem = gl.members.get('numpy_dtype') if gl else None
    if not mem or mem[0] != 'func':
        R.abstain(rule, ('spatialpandas/geometry/baselist.py', 'GeometryList'), None, 'GeometryList.numpy_dtype not found as a property')
        return 0
    f = mem[1]
    n = 0
    for r_ in [x for x in walk_own(f.node) if isinstance(x, ast.Return)]:
        n += 1
        if r_.value is None or norm(r_.value) == 'None':
            R.ok(rule, f, r_, 'no data, no dtype', construct=f'numpy_dtype: {norm(r_)}', nontrivial=False)
            continue
        srcs = astq.sources(f, r_.value)
        e_ = astq.expand(f, r_.value)
        from_data = any(isinstance(x, ast.Attribute) and x.attr in ('data', 'listarray') and norm(x.value) == 'self' for x in ast.walk(e_)) or \
            any(isinstance(d_[1], ast.AST) and any(isinstance(x, ast.Attribute) and x.attr in ('data', 'listarray') and norm(x.value) == 'self' for x in ast.walk(d_[1]))
                for nm in srcs for d_ in astq.assignments(f, nm) if d_[0] == 'expr')
        R.check(from_data, rule, f, r_, 'the dtype a scalar reports is derived from the arrow data it holds',
                f'`{norm(r_)}` reports a dtype that does not come from the data the scalar holds (a remembered constructor argument): an element rebuilt from python values holds 64-bit data, '
                'its buffers are then reinterpreted with the parent array\'s narrower width and every coordinate is garbage', construct=f'numpy_dtype: {norm(r_)[:40]}')
    return n


def scratch_per_iteration(P, R, rule, modules):
    """A scratch buffer that decides the answer of ONE element (its `.any()` / `.all()` / `.sum()` is that element's result) belongs to that element: it is allocated
    inside the per-element loop, or the reduction is restricted to the part that was reset for this element.  Allocated once before the loop, partly cleared
    per element and reduced as a whole, it carries the flags of earlier elements into later ones: an element's answer then depends on its predecessors
    (a slice, a take or another order of the same elements answers differently)."""
    n = 0
    for m in P.mods.values():
        if m.name not in modules:
            continue
        for f in m.funcs.values():
            if isinstance(f.node, ast.Lambda):
                continue
            allocs = {}
            for st in f.node.body:
                if isinstance(st, ast.Assign) and len(st.targets) == 1 and isinstance(st.targets[0], ast.Name) and isinstance(st.value, ast.Call) \
                        and norm(st.value.func) in ('np.zeros', 'np.empty', 'np.ones', 'np.full', 'numpy.zeros', 'numpy.empty'):
                    allocs[st.targets[0].id] = st
            for lp in [x for x in f.node.body if isinstance(x, ast.For)]:
                for name, st in allocs.items():
                    if st.lineno > lp.lineno:
                        continue
                    reds = [x for x in ast.walk(lp) if isinstance(x, ast.Call) and ((isinstance(x.func, ast.Attribute) and x.func.attr in ('any', 'all', 'sum', 'max', 'min') and isinstance(x.func.value, ast.Name) and x.func.value.id == name)
                                                                                 or (norm(x.func) in ('np.any', 'np.all', 'np.sum', 'any', 'all') and x.args and isinstance(x.args[0], ast.Name) and x.args[0].id == name))]
                    if not reds:
                        continue
                    # how the buffer is reset inside the loop
                    resets = [x for x in ast.walk(lp) if isinstance(x, ast.Assign) and isinstance(x.targets[0], ast.Subscript) and isinstance(x.targets[0].value, ast.Name) and x.targets[0].value.id == name
                              and isinstance(x.value, ast.Constant)]
                    full = [x for x in resets if isinstance(x.targets[0].slice, ast.Slice) and x.targets[0].slice.lower is None and x.targets[0].slice.upper is None] + \
                        [x for x in ast.walk(lp) if isinstance(x, ast.Call) and isinstance(x.func, ast.Attribute) and x.func.attr == 'fill' and isinstance(x.func.value, ast.Name) and x.func.value.id == name]
                    n += 1
                    R.check(bool(full), rule, f, reds[0], f'`{name}` (allocated once, reduced per element) is cleared as a whole for every element',
                            f'`{norm(reds[0])}` reduces the whole of `{name}`, which is allocated once before the loop and ' + ('only partly reset (`' + norm(resets[0]) + '`)' if resets else 'never reset') +
                            ' per element: flags set for an earlier element decide later ones - the answer of an element depends on the elements before it', construct=f'{f.qualname}: scratch {name} per element')
    return n


def rewrap_children_zero_offset(P, R, rule):
    """(S1) The buffer accessors (`buffer_values`, `buffer_offsets`, `flat_values`) read the raw arrow buffers of the children and apply the offset of the
    OUTER array only.  A list array assembled with `ListArray.from_arrays(offsets, child)` is therefore read correctly only when `child` starts at position 0 of
    its buffers: built from numpy data (`pa.array(values)`, the numpy buffers themselves) or by an inner from_arrays.  `x.flatten()` / `x.values[a:b]` of an
    existing arrow array are zero-copy WINDOWS: for a sliced array they carry an offset that every accessor ignores."""
    n = 0
    for m in P.mods.values():
        if not m.name.startswith('spatialpandas.geometry'):
            continue
        for f in m.funcs.values():
            if isinstance(f.node, ast.Lambda):
                continue
            for c in astq.own_calls(f):
                if not (isinstance(c.func, ast.Attribute) and c.func.attr == 'from_arrays' and len(c.args) >= 2):
                    continue
                n += 1
                ch = astq.expand(f, c.args[1])
                windows = [x for x in ast.walk(ch) if isinstance(x, ast.Call) and isinstance(x.func, ast.Attribute) and x.func.attr in ('flatten', 'slice')] + \
                          [x for x in ast.walk(ch) if isinstance(x, ast.Subscript) and isinstance(x.value, ast.Attribute) and x.value.attr == 'values']
                R.check(not windows, rule, f, c, 'the child of a re-wrapped list array starts at the beginning of its buffers',
                        f'`{norm(c)[:70]}` wraps `{norm(windows[0])[:40] if windows else ""}`, a zero-copy window of an existing arrow array: for a sliced source it has a non-zero offset that buffer_values / '
                        'buffer_offsets / flat_values ignore, so bounds, measures and intersection tests of the result read the coordinates at the head of the parent\'s buffers',
                        construct=f'{f.qualname}: child {norm(c.args[1])[:40]}')
    return n
