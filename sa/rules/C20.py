"""C20 — the active geometry column is honoured and survives frame operations.

 C20.a  `_metadata` of GeoDataFrame lists `_geometry` (necessary for every single-source __finalize__ propagation).
 C20.b  single source of truth: every frame-level spatial operation obtains its geometry through `.geometry` (never by
        "first geometry column", a literal column name or another accessor).
 C20.c  constructor inherits `_geometry` from a GeoDataFrame input; set_geometry validates; `.geometry` raises when invalid.
 C20.d  Dask: set_geometry maps the pandas set_geometry over partitions; the geometry= argument of read_parquet_dask reaches
        every per-partition read and the frame constructor there.
 C20.e  re-derivation hooks where pandas does not propagate _metadata (S5): __finalize__ handles the `input_objs` path (concat,
        merge, Dask compute), meta_nonempty keeps the active geometry, sjoin(how='right') wraps with the right geometry.
Does not decide: which pandas code path an operation takes (S5 is a model of pandas).
"""
import ast

import astq
import cfg as cfgmod
from model import walk_own, AnalysisError, full as norm

EXPLANATION = (
    'Static def-use analysis of the active-geometry plumbing: membership of _geometry in _metadata, provenance of every series that feeds a '
    'frame-level spatial operation (must be rooted at `.geometry`), parameter flow of geometry= from read_parquet_dask into each delayed '
    'per-piece read and the GeoDataFrame constructor, and presence/shape of the re-derivation hooks on the code paths where pandas drops '
    '_metadata (input_objs branch of __finalize__).  S5 (pandas __finalize__ semantics) is an assumption.')

SPATIAL_ATTRS = {'sindex', 'bounds', 'array', 'partition_bounds', 'total_bounds', 'hilbert_distance', 'build_sindex', 'partition_sindex',
                 'intersects', 'intersects_bounds', 'cx', 'map_partitions'}
FRAME_OPS = [
    ('spatialpandas.geodataframe', 'GeoDataFrame.cx'),
    ('spatialpandas.geodataframe', 'GeoDataFrame.build_sindex'),
    ('spatialpandas.tools.sjoin', '_sjoin_pandas_pandas'),
    ('spatialpandas.tools.sjoin', '_sjoin_dask_pandas'),
    ('spatialpandas.dask', 'DaskGeoDataFrame.partition_sindex'),
    ('spatialpandas.dask', 'DaskGeoDataFrame._with_hilbert_distance_column'),
]


def _rooted_at_geometry(f, e, depth=4):
    """Is expression e (a series) derived from `<frame>.geometry`?"""
    if isinstance(e, ast.Attribute):
        if e.attr == 'geometry':
            return True
        if e.attr in ('array', 'values'):
            return _rooted_at_geometry(f, e.value, depth)
        return None
    if isinstance(e, ast.Name) and depth > 0:
        g, d = astq.unique_def(f, e.id)
        if isinstance(d, ast.AST):
            return _rooted_at_geometry(g, d, depth - 1)
        return None
    if isinstance(e, ast.Subscript):
        return False
    if isinstance(e, ast.Call):
        return None
    return None


def run(P, R, tier):
    R.assume('S5: pandas NDFrame.__finalize__ copies _metadata only when `other` is an NDFrame; concat/merge pass an object with input_objs')
    GDF = P.cls('spatialpandas.geodataframe.GeoDataFrame')
    # ---------------------------------------------------------------- C20.a
    md = GDF.members.get('_metadata')
    ok = md is not None and md[0] == 'assign' and isinstance(md[1], (ast.List, ast.Tuple)) and '_geometry' in [astq.const_str(e) for e in md[1].elts]
    R.check(ok, 'C20.a', ('spatialpandas/geodataframe.py', 'GeoDataFrame'), md[1] if md else None, '_geometry is listed in GeoDataFrame._metadata',
            '_geometry is not listed in _metadata: no pandas operation carries the active geometry over', construct='_metadata')

    # ---------------------------------------------------------------- C20.b
    nsite = 0
    for modname, qual in FRAME_OPS:
        f = P.func(modname, qual)
        for n in walk_own(f.node):
            if isinstance(n, ast.Attribute) and n.attr in SPATIAL_ATTRS:
                recv = n.value
                # only receivers that are series-like: skip frames (self / parameters that are frames used with .cx / map_partitions)
                if isinstance(recv, ast.Name) and recv.id in ('self',):
                    continue
                if n.attr in ('map_partitions', 'cx', 'intersects', 'intersects_bounds') and not isinstance(recv, ast.Attribute):
                    rr = _rooted_at_geometry(f, recv)
                    if rr is None:
                        continue
                r = _rooted_at_geometry(f, recv)
                if r is None:
                    # receivers that are not geometry series (e.g. `sindex.intersects`, `bounds.values`) are irrelevant
                    continue
                nsite += 1
                R.check(r, 'C20.b', f, n, 'spatial operation takes its series from `.geometry` (the active geometry)',
                        f'`{norm(n)}`: the series does not come from `.geometry`; with a second geometry column active a different column is used')
        # no literal / positional picks of a geometry column
        for n in walk_own(f.node):
            if isinstance(n, ast.Subscript) and astq.const_str(n.slice) == 'geometry':
                R.bad('C20.b', f, n, 'column literally named "geometry" is used instead of the active geometry')
            if isinstance(n, ast.Attribute) and n.attr == '_geometry' and not qual.startswith('GeoDataFrame.'):
                R.bad('C20.b', f, n, 'reads `_geometry` directly instead of `.geometry` (no validity check)')
    R.floor('C20.b', 'geometry-consuming sites in frame-level spatial operations', nsite, 8)
    # cx of a frame hands the active geometry's array and parent=self to the indexer
    cx = P.func('spatialpandas.geodataframe', 'GeoDataFrame.cx')
    okcx = False
    for c in astq.own_calls(cx):
        if norm(c.func).endswith('_CoordinateIndexer'):
            a0 = c.args[0] if c.args else None
            par = astq.arg_of(c, pos=1, kw='parent')
            okcx = a0 is not None and norm(a0) == 'self.geometry.array' and par is not None and norm(par) == 'self'
    R.check(okcx, 'C20.b', cx, None, 'GeoDataFrame.cx indexes the active geometry array with parent=self', 'GeoDataFrame.cx does not index (self.geometry.array, parent=self)',
            construct='_CoordinateIndexer(self.geometry.array, parent=self)')
    # Dask frame geometry = column named by the meta's active geometry
    dg = P.func('spatialpandas.dask', 'DaskGeoDataFrame.geometry')
    rets = [s for s in walk_own(dg.node) if isinstance(s, ast.Return)]
    okdg = bool(rets) and all(norm(s.value) == 'self[self._meta.geometry.name]' for s in rets)
    R.check(okdg, 'C20.b', dg, rets[0] if rets else None, 'DaskGeoDataFrame.geometry is the column named by the meta frame\'s active geometry',
            'DaskGeoDataFrame.geometry is not self[self._meta.geometry.name]')

    # ---------------------------------------------------------------- C20.c
    init = P.func('spatialpandas.geodataframe', 'GeoDataFrame.__init__')
    inh = False
    for s in walk_own(init.node):
        if isinstance(s, ast.If) and 'isinstance(data, GeoDataFrame)' in norm(s.test) and '_has_valid_geometry' in norm(s.test):
            inh = any(isinstance(x, ast.Assign) and norm(x.value) == 'data._geometry' for x in s.body)
    R.check(inh, 'C20.c', init, None, 'a GeoDataFrame built from a GeoDataFrame inherits its active geometry', 'constructor does not inherit _geometry from a GeoDataFrame input',
            construct='geometry = data._geometry')
    # ... and nothing decides the geometry before that: the explicit argument first, then the input frame's active geometry, only then defaults
    # (a "column literally named geometry" convention applied earlier wins over the inherited active column)
    gparam_ = 'geometry'
    inh_if = None
    for s in walk_own(init.node):
        if isinstance(s, ast.If) and any(isinstance(x, ast.Assign) and norm(x.value) == 'data._geometry' for x in ast.walk(s)):
            inh_if = s if inh_if is None or s.lineno < inh_if.lineno else inh_if
    if inh_if is not None:
        Ci = cfgmod.build(init.node)
        # climb to the outermost statement of the inheritance (e.g. `if geometry is None:` around it)
        top = inh_if
        while getattr(top, '_parent', None) is not None and top._parent is not init.node and isinstance(top._parent, ast.If):
            top = top._parent
        early = []
        for a in walk_own(init.node):
            if isinstance(a, ast.Assign) and any(isinstance(t, ast.Name) and t.id == gparam_ for t in a.targets) and not any(x is a for x in ast.walk(top)):
                if Ci.node(a) is not None and Ci.node(top) is not None and Ci.can_reach(Ci.node(a), Ci.node(top)):
                    early.append(a)
        R.check(not early, 'C20.c', init, early[0] if early else top, 'the inherited active geometry takes precedence over every default',
                f'`{norm(early[0]) if early else ""}` chooses a geometry before the active geometry of the input frame is considered: GeoDataFrame(df) (and the final wrap of sjoin) switch to that column',
                construct='inheritance precedes defaults')
    # the geo-vs-plain decision of the result hooks looks at the geometry dtype of the blocks (a non-geometry extension column does not make a frame "geo")
    for cn, mod_ in (('GeoDataFrame', 'spatialpandas.geodataframe'), ('GeoSeries', 'spatialpandas.geoseries')):
        hk = P.mods[mod_].funcs.get(f'{cn}._constructor_from_mgr')
        if hk is None:
            continue
        tests = [t for t in astq.own_nodes(hk, ast.If) if any(isinstance(x, ast.Return) for x in ast.walk(t))]
        okt = bool(tests) and 'GeometryDtype' in norm(tests[0].test)
        R.check(okt, 'C20.c', hk, tests[0].test if tests else None, f'{cn}._constructor_from_mgr decides geo-vs-plain by the presence of a GeometryDtype block',
                f'{cn}._constructor_from_mgr decides by `{norm(tests[0].test) if tests else ""}`: a result without any geometry column (but e.g. a categorical one) is returned as a geo object without geometry',
                construct=f'{cn}: geo-vs-plain by GeometryDtype')
    sets = [c for c in astq.own_calls(init) if isinstance(c.func, ast.Attribute) and c.func.attr == 'set_geometry']
    R.check(bool(sets), 'C20.c', init, sets[0] if sets else None, 'constructor applies the chosen geometry through set_geometry (validated)',
            'constructor does not set the chosen geometry', nontrivial=False)
    sg = P.func('spatialpandas.geodataframe', 'GeoDataFrame.set_geometry')
    C = cfgmod.build(sg.node)
    val = [s for s in astq.own_nodes(sg, ast.If) if any(isinstance(x, ast.Raise) for x in s.body) and 'GeometryDtype' in norm(s.test) and 'not in' in norm(s.test)]
    stores = [C.node(s) for s in walk_own(sg.node) if isinstance(s, ast.Assign) and norm(s.targets[0]) == 'self._geometry']
    okv = bool(val) and all(C.dominates(C.node(val[0]), n) for n in stores if n is not None)
    R.check(okv, 'C20.c', sg, val[0].test if val else None, 'set_geometry validates (column present and of geometry dtype) before storing',
            'set_geometry stores an unvalidated column name')
    # inplace=False returns a frame with the requested geometry
    okr = any(isinstance(s, ast.Return) and isinstance(s.value, ast.Call) and norm(s.value.func) == 'GeoDataFrame'
              and astq.arg_of(s.value, kw='geometry') is not None and norm(astq.arg_of(s.value, kw='geometry')) == sg.params[1] for s in walk_own(sg.node))
    R.check(okr, 'C20.c', sg, None, 'set_geometry(inplace=False) returns GeoDataFrame(self, geometry=<requested>)', 'set_geometry does not return a frame with the requested geometry',
            construct='return GeoDataFrame(self, geometry=geometry)')
    # returning `self` is reserved for inplace=True: any other condition hands the caller an ALIAS of the source frame, and a later in-place change of the
    # result (set_geometry(inplace=True), column assignment) silently changes the source (and, under Dask, the shared partition objects)
    inp = next((p_ for p_ in sg.params if p_ == 'inplace'), None)
    for s_ in walk_own(sg.node):
        if isinstance(s_, ast.Return) and isinstance(s_.value, ast.Name) and s_.value.id == 'self':
            conds = []
            q_ = s_
            while getattr(q_, '_parent', None) is not None and q_._parent is not sg.node:
                child, q_ = q_, q_._parent
                if isinstance(q_, ast.If):
                    conds.append((q_.test, child in q_.body))
            implied = any(in_body and norm(t_) in (inp, f'{inp} is True', f'{inp} == True') for t_, in_body in conds) \
                or any(in_body and isinstance(t_, ast.BoolOp) and isinstance(t_.op, ast.And) and any(norm(v_) == inp for v_ in t_.values) for t_, in_body in conds)
            R.check(implied, 'C20.c', sg, s_, 'set_geometry returns `self` only when inplace=True',
                    f'`return self` is reached with inplace=False (under `{" / ".join(norm(t_) for t_, _ in conds)}`): the caller gets an alias of the source frame instead of a new frame, '
                    'so a later in-place change of the result changes the source frame\'s active geometry', construct='return self only when inplace')
    gp = P.func('spatialpandas.geodataframe', 'GeoDataFrame.geometry')
    okg = any(isinstance(s, ast.If) and '_has_valid_geometry' in norm(s.test) and any(isinstance(x, ast.Raise) for x in s.body) for s in gp.node.body) \
        and any(isinstance(s, ast.Return) and norm(s.value) == 'self[self._geometry]' for s in walk_own(gp.node))
    R.check(okg, 'C20.c', gp, None, '.geometry raises without a valid active geometry and otherwise returns self[self._geometry]',
            '.geometry does not return the validated active geometry column', construct='geometry property')

    # ---------------------------------------------------------------- C20.d
    dsg = P.func('spatialpandas.dask', 'DaskGeoDataFrame.set_geometry')
    okm = False
    for c in astq.own_calls(dsg):
        if isinstance(c.func, ast.Attribute) and c.func.attr == 'map_partitions' and c.args and isinstance(c.args[0], ast.Lambda):
            lam = c.args[0]
            b = lam.body
            okm = isinstance(b, ast.Call) and isinstance(b.func, ast.Attribute) and b.func.attr == 'set_geometry' and isinstance(b.func.value, ast.Name) \
                and b.func.value.id == lam.args.args[0].arg and b.args and norm(b.args[0]) == dsg.params[1]
            if okm and any(k.arg == 'inplace' and norm(k.value) != 'False' for k in b.keywords):
                okm = False
                R.bad('C20.d', dsg, b, 'the per-partition set_geometry runs in place: it re-labels the partition objects of the SOURCE frame (shared by persisted / delayed graphs), '
                                      'whose meta keeps advertising the old geometry')
    R.check(okm, 'C20.d', dsg, None, 'Dask set_geometry maps the pandas set_geometry(geometry) over every partition',
            'Dask set_geometry does not apply set_geometry(geometry) inside every partition', construct='map_partitions(lambda df: df.set_geometry(geometry))')
    rpd = P.func('spatialpandas.io.parquet', 'read_parquet_dask')
    prd = P.func('spatialpandas.io.parquet', '_perform_read_parquet_dask')
    rp = P.func('spatialpandas.io.parquet', 'read_parquet')
    ok1 = any(astq.is_call_to(P, rpd, c, prd) and astq.arg_of(c, kw='geometry') is not None and norm(astq.arg_of(c, kw='geometry')) == 'geometry' for c in astq.own_calls(rpd))
    R.check(ok1, 'C20.d', rpd, None, 'read_parquet_dask passes geometry= on', 'read_parquet_dask drops its geometry= argument', construct='_perform_read_parquet_dask(geometry=geometry)')
    ok2 = False
    site = None
    for c in astq.own_calls(prd):
        if isinstance(c.func, ast.Call):
            r = P.resolve_call(prd, c)
            if r and r[0] == 'func' and r[1] is rp:
                site = c
                a = astq.arg_of(c, kw='geometry')
                if a is not None and isinstance(a, ast.Name):
                    # must be the caller's argument, i.e. not re-bound before this point to something else than the parameter
                    defs = [d for d in astq.assignments(prd, a.id) if d[0] == 'expr' and getattr(d[1], 'lineno', 0) < c.lineno]
                    ok2 = a.id in prd.params and not defs
    R.check(ok2, 'C20.d', prd, site, 'every delayed per-piece read receives the requested geometry',
            'the per-piece reads do not receive geometry=: partitions keep their first geometry column active while the meta frame advertises another')
    ok3 = 'geometry' in rp.params and any(isinstance(s, ast.Return) and isinstance(s.value, ast.Call) and norm(s.value.func) == 'GeoDataFrame'
                                            and astq.arg_of(s.value, kw='geometry') is not None and norm(astq.arg_of(s.value, kw='geometry')) == 'geometry'
                                            for s in walk_own(rp.node))
    R.check(ok3, 'C20.d', rp, None, 'read_parquet builds the frame with the requested geometry', 'read_parquet ignores geometry=', construct='return GeoDataFrame(df, geometry=geometry)')
    gparam = 'geometry'
    def _alias_of_param(e):
        """(is the caller's geometry= value, line where it was captured)"""
        if isinstance(e, ast.Name) and e.id == gparam:
            return True, None
        if isinstance(e, ast.Name):
            g_, d_ = astq.unique_def(prd, e.id)
            if isinstance(d_, ast.Name) and d_.id == gparam:
                return True, d_.lineno
        return False, None
    uses = [c for c in astq.own_calls(prd) if isinstance(c.func, ast.Attribute) and c.func.attr == 'set_geometry' and c.args and _alias_of_param(c.args[0])[0]]
    rebinds = []
    for n_ in ast.walk(prd.node):
        if isinstance(n_, (ast.For, ast.comprehension)):
            if any(isinstance(x, ast.Name) and x.id == gparam for x in ast.walk(n_.target)):
                rebinds.append(n_.iter)
        elif isinstance(n_, ast.Assign):
            if any(isinstance(x, ast.Name) and x.id == gparam and isinstance(x.ctx, ast.Store) for t in n_.targets for x in ast.walk(t)):
                rebinds.append(n_)
        elif isinstance(n_, (ast.With,)):
            for it in n_.items:
                if it.optional_vars is not None and any(isinstance(x, ast.Name) and x.id == gparam for x in ast.walk(it.optional_vars)):
                    rebinds.append(n_)
    for u in uses:
        cap = _alias_of_param(u.args[0])[1] or u.lineno
        early = [r_ for r_ in rebinds if getattr(r_, 'lineno', 10 ** 9) < cap]
        R.check(not early, 'C20.d', prd, u, 'the geometry applied to the meta frame is the caller\'s geometry= argument (not re-bound before)',
                f'`{gparam}` is re-bound (`{norm(early[0])[:80] if early else ""}`) before `{norm(u)}`: the meta frame and the bounds filter use another column than the partitions')
    R.floor('C20.d', 'meta.set_geometry(geometry) sites', len(uses), 1)
    def _is_meta(e):
        return isinstance(e, ast.Name) and any(d_[0] == 'expr' and 'GeoDataFrame(' in norm(d_[1]) for d_ in astq.assignments(prd, e.id))
    okmeta = any(isinstance(c.func, ast.Attribute) and c.func.attr == 'set_geometry' and _is_meta(c.func.value) for c in astq.own_calls(prd))
    R.check(okmeta, 'C20.d', prd, None, 'the meta frame gets the requested geometry too', 'the meta frame does not get the requested geometry', construct='meta = meta.set_geometry(geometry)', nontrivial=False)

    # task keys: a `dask_key_name=` given to a delayed read names the task; dask runs ONE task per name, so every argument that changes what the task
    # returns must be part of the name -- the geometry= choice in particular (S10)
    from rules import common as _cmn
    if R.prop == 'C20':        # not when C06 runs these rules as part of its own (C09 depends on C06: that would be a cycle)
      _cmn.forward(P, R, 'C09', ['C09.a', 'C09.b'], 'C20.b', 'packing orders the rows along the ACTIVE geometry: distances from self.geometry against its own total bounds, recomputed on every call', floor=10,
                   only=lambda o: not o.detail.startswith('['))
    _cmn.task_names(P, R, 'C20.d', [prd] + list(prd.nested.values()), 'the second frame\'s partitions use the other read\'s active geometry while its meta advertises its own')
    from rules import C12
    sub = type(R)(R.prop, R.tier)
    try:
        C12.run(P, sub, 'quick')
    except AnalysisError:
        pass
    for o in sub.obs:
        if o.rule == 'C12.a' and ('every geometry column' in o.detail or 'under the column' in o.detail or 'late' in o.detail):
            R._add('C20.d', (o.path, o.site.split('::')[-1]), None, o.status, 'the bounds recorded for the active geometry must be its own: ' + o.detail, construct=o.construct)
        if o.rule == 'C12.b' and 'fromkeys' in (o.construct or ''):
            R._add('C20.d', (o.path, o.site.split('::')[-1]), None, o.status, 'the bounds recorded for the active geometry must be its own: ' + o.detail, construct=o.construct)
        if o.rule == 'C12.e':
            R._add('C20.d', (o.path, o.site.split('::')[-1]), None, o.status, 'switching the active geometry afterwards (set_geometry) must find the other columns\' bounds filtered like the partitions: ' + o.detail, construct=o.construct)
        if o.rule == 'C12.f':
            R._add('C20.d', (o.path, o.site.split('::')[-1]), None, o.status, 'geometry= of read_parquet_dask decides which column\'s bounds are filtered and reported: ' + o.detail, construct=o.construct)
    # ---------------------------------------------------------------- C20.e
    fin = GDF.members.get('__finalize__')
    if fin is None:
        R.bad('C20.e', ('spatialpandas/geodataframe.py', 'GeoDataFrame'), None,
              'GeoDataFrame does not override __finalize__: pd.concat / merge / DaskGeoDataFrame.compute() lose the active geometry unless the column is literally named "geometry" (S5)',
              construct='__finalize__ (input_objs path)')
    else:
        f = fin[1]
        src = norm(f.node)
        calls_super = 'super().__finalize__(' in src
        handles = 'input_objs' in src
        setsg = any(isinstance(s, ast.Assign) and isinstance(s.targets[0], ast.Attribute) and s.targets[0].attr == '_geometry' for s in walk_own(f.node))
        agrees = any(isinstance(s, ast.If) and 'len(' in norm(s.test) and '== 1' in norm(s.test) for s in walk_own(f.node))
        returns = any(isinstance(s, ast.Return) and s.value is not None for s in walk_own(f.node))
        R.check(calls_super and handles and setsg and returns, 'C20.e', f, None, '__finalize__ keeps pandas\' behaviour and restores _geometry on the input_objs path (concat/merge/compute)',
                '__finalize__ does not restore _geometry for combined inputs', construct='__finalize__ (input_objs path)')
        for st in walk_own(f.node):
            if isinstance(st, ast.Assign) and isinstance(st.targets[0], ast.Attribute) and st.targets[0].attr == '_geometry':
                recv = norm(st.targets[0].value)
                g_ = st
                offending = None
                while getattr(g_, '_parent', None) is not None and g_._parent is not f.node:
                    g_ = g_._parent
                    if isinstance(g_, ast.If):
                        t_ = norm(g_.test)
                        if f'{recv}._has_valid_geometry(' in t_ or f'{recv}._geometry' in t_ or 'self._has_valid_geometry(' in t_ or 'self._geometry' in t_:
                            offending = g_.test
                R.check(offending is None, 'C20.e', f, st, 'the agreed geometry is adopted regardless of what the constructor hook pre-set on the result',
                        f'adoption is skipped when `{norm(offending) if offending is not None else ""}`: _constructor_from_mgr pre-sets a column literally named "geometry", which then wins over '
                        f'the active geometry the inputs agree on')
        # ... nor is the input_objs branch skipped by an early return taken when the result already carries a geometry name
        import cfg as _cfgm
        Cf = _cfgm.build(f.node)
        gstores = [st for st in walk_own(f.node) if isinstance(st, ast.Assign) and isinstance(st.targets[0], ast.Attribute) and st.targets[0].attr == '_geometry']
        for g_ in astq.own_nodes(f, ast.If):
            t_ = norm(g_.test)
            if ('._geometry' in t_ or '_has_valid_geometry(' in t_) and any(isinstance(x, ast.Return) for b_ in g_.body for x in ast.walk(b_)) \
                    and any(Cf.node(g_) is not None and Cf.node(s_) is not None and Cf.can_reach(Cf.node(g_), Cf.node(s_)) for s_ in gstores) \
                    and not any(any(s_ is y for y in ast.walk(g_)) for s_ in gstores):
                R.bad('C20.e', f, g_.test, f'__finalize__ returns early when `{t_}`: _constructor_from_mgr pre-sets a column literally named "geometry" on every new frame, so for combined inputs (concat, '
                      'merge, Dask repartition / compute) the pre-set name wins over the active geometry the inputs agree on', construct='__finalize__ early return on a pre-set geometry')
        # every GeoDataFrame input takes part in the agreement -- also inputs without rows (Dask meta frames, empty selections)
        ncomp = 0
        for comp in [n for n in walk_own(f.node) if isinstance(n, (ast.SetComp, ast.ListComp, ast.GeneratorExp)) and '_geometry' in norm(n.elt)]:
            gen = comp.generators[0]
            var = gen.target.id if isinstance(gen.target, ast.Name) else None
            ncomp += 1
            rowdep = []
            for cond in gen.ifs:
                for x in ast.walk(cond):
                    if isinstance(x, ast.Call) and norm(x.func) == 'len' and x.args and var in astq.names_in(x.args[0]):
                        rowdep.append(x)
                    if isinstance(x, ast.Attribute) and x.attr in ('empty', 'shape', 'size', 'index') and isinstance(x.value, ast.Name) and x.value.id == var:
                        rowdep.append(x)
            R.check(not rowdep, 'C20.e', f, comp, 'every GeoDataFrame input takes part in the agreement, whatever its number of rows',
                    f'inputs are filtered by `{norm(rowdep[0]) if rowdep else ""}`: inputs without rows are ignored, so a concat of empty frames (every Dask meta computation, empty selections) '
                    'loses the active geometry and falls back to the first geometry column', construct='inputs taking part in the agreement')
            # only inputs whose recorded active geometry is still one of their geometry columns have a vote: a column subset keeps the NAME of an active
            # geometry it no longer contains (`_geometry` is copied by pandas), and such a stale name must not veto the agreement of the real ones
            valid = any((isinstance(x, ast.Call) and isinstance(x.func, ast.Attribute) and x.func.attr == '_has_valid_geometry' and isinstance(x.func.value, ast.Name) and x.func.value.id == var)
                        or (isinstance(x, ast.Compare) and len(x.ops) == 1 and isinstance(x.ops[0], ast.In) and norm(x.left) == f'{var}._geometry'
                            and norm(x.comparators[0]) in (var, f'{var}.columns'))
                        for cond in gen.ifs for x in ast.walk(cond))
            R.check(valid, 'C20.e', f, comp, 'only inputs with a valid active geometry take part in the agreement',
                    f'`{norm(comp)}` counts every input that records an active geometry NAME, valid or not: a column subset that no longer contains its recorded geometry column '
                    'still votes, the inputs then "disagree" and the result of merge / concat / sjoin has no (or the wrong) active geometry', construct='only valid geometries vote')
        R.floor('C20.e', 'geometry agreement comprehensions in __finalize__', ncomp, 1)
        R.check(agrees, 'C20.e', f, None, 'the active geometry is adopted only when all geo inputs agree on it', 'the active geometry is adopted without checking that the inputs agree',
                construct='len(geometries) == 1', nontrivial=False)
    # C20.f (seed S10: dask identifies collections by `tokenize`; from_pandas of two frames with equal tokens yields ONE collection): the token of a
    # GeoDataFrame includes its active geometry, otherwise `dd.from_pandas(df.set_geometry(other))` silently returns the frame made from `df`
    R.assume('S10: dask reuses collections whose inputs have equal tokens (dask.base.tokenize / normalize_token dispatch)')
    toks = []
    for g_ in P.mods['spatialpandas.dask'].funcs.values():
        for d_ in getattr(g_.node, 'decorator_list', []):
            if isinstance(d_, ast.Call) and 'normalize_token' in norm(d_.func) and d_.args and norm(d_.args[0]).endswith('GeoDataFrame'):
                toks.append(g_)
    if not toks:
        R.bad('C20.f', ('spatialpandas/dask.py', 'normalize_token'), None, 'no dask token normaliser is registered for GeoDataFrame: the inherited pandas one ignores `_geometry`, so frames that differ only in '
              'their active geometry have the same token and dd.from_pandas returns the first one for both (meta, partitions and results use the wrong column)',
              construct='GeoDataFrame token includes the active geometry')
    for g_ in toks:
        rets = [s_ for s_ in walk_own(g_.node) if isinstance(s_, ast.Return) and s_.value is not None]
        ok_ = bool(rets) and all(any(isinstance(x, ast.Attribute) and x.attr in ('_geometry',) or (isinstance(x, ast.Attribute) and x.attr == 'name' and 'geometry' in norm(x.value))
                                     for x in ast.walk(astq.expand(g_, s_.value))) for s_ in rets)
        R.check(ok_, 'C20.f', g_, rets[0] if rets else None, 'the dask token of a GeoDataFrame includes its active geometry',
                'the dask token of a GeoDataFrame does not include its active geometry: frames differing only in it collapse into one collection', construct='GeoDataFrame token includes the active geometry')
    # the Dask type hooks answer from their argument only: a module-level table of sample frames keyed by layout forgets the active geometry
    from rules import common as _cm
    for hn in ('meta_nonempty_dataframe', 'make_meta_dataframe', 'get_parallel_type_dataframe', 'get_collection_type_dataframe', 'get_parallel_type_frame'):
        hk = P.mods['spatialpandas.dask'].funcs.get(hn)
        if hk is None:
            continue
        stale = _cm.answers_from_module_table(P, hk, must_key=('_geometry', 'geometry.name'))
        R.check(not stale, 'C20.e', hk, stale[0] if stale else None, f'{hn} answers from its argument (no module-level table that ignores the active geometry)',
                f'`{norm(stale[0]) if stale else ""}` in {hn} answers from a module-level table whose key does not contain the active geometry: once a frame with the same columns '
                'was seen with another geometry active, every later inferred meta advertises that one while the partitions use the real one', construct=f'{hn}: no geometry-blind table')
    mn = P.func('spatialpandas.dask', 'meta_nonempty_dataframe')
    okmn = False
    for c in astq.own_calls(mn):
        if norm(c.func) == 'GeoDataFrame':
            g = astq.arg_of(c, kw='geometry')
            if g is not None:
                ge = astq.trace(mn, g)
                okmn = '_geometry' in norm(ge) if isinstance(ge, ast.AST) else False
    R.check(okmn, 'C20.e', mn, None, 'meta_nonempty keeps the active geometry of the meta frame',
            'meta_nonempty rebuilds the frame with the default (first) geometry column: Dask frames derived through map_partitions advertise another geometry than their partitions use',
            construct='GeoDataFrame(meta_nonempty(...), geometry=df._geometry)')
    sj = P.func('spatialpandas.tools.sjoin', '_sjoin_pandas_pandas')
    # the branch for how == 'right' ends in GeoDataFrame(joined, geometry=<right geometry>)
    okr = False
    for s in walk_own(sj.node):
        if isinstance(s, ast.Return) and isinstance(s.value, ast.Call) and norm(s.value.func) == 'GeoDataFrame':
            g = astq.arg_of(s.value, kw='geometry')
            if g is not None:
                ge = astq.assignments(sj, g.id) if isinstance(g, ast.Name) else []
                okr = any(d[0] == 'expr' and 'right_df.geometry.name' in norm(d[1]) for d in ge)
    R.check(okr, 'C20.e', sj, None, 'sjoin(how="right") wraps the result with the right frame\'s geometry as active geometry',
            'sjoin(how="right") wraps the result with the default (first) geometry column, which is a left-over column of the left frame', construct='GeoDataFrame(joined, geometry=right geometry)')
    # sjoin's index-recording helper returns a frame that DESCENDS from its argument through pandas methods (copy, reset_index, rename ...: they carry
    # `_geometry` along); a frame re-constructed from other pieces (`type(df)(<plain frame>)`, GeoDataFrame(...) without geometry=) falls back to the first
    # geometry column, and the join is computed on that column
    rr = P.mods['spatialpandas.tools.sjoin'].funcs.get('_record_reset_index')
    if rr is not None and rr.params:
        d0 = rr.params[0]
        for st_ in [x for x in walk_own(rr.node) if isinstance(x, ast.Assign) and any(isinstance(t_, ast.Name) and t_.id == d0 for t_ in x.targets)] + \
                   [x for x in walk_own(rr.node) if isinstance(x, ast.Return) and x.value is not None]:
            v_ = st_.value.elts[0] if isinstance(st_, ast.Return) and isinstance(st_.value, ast.Tuple) and st_.value.elts else st_.value
            root = v_
            while True:
                if isinstance(root, ast.Call) and isinstance(root.func, ast.Attribute):
                    root = root.func.value
                elif isinstance(root, (ast.Attribute, ast.Subscript)):
                    root = root.value
                else:
                    break
            built = isinstance(root, ast.Call) and not isinstance(root.func, ast.Attribute)
            keeps = built and astq.arg_of(root, kw='geometry') is not None
            R.check(not built or keeps, 'C20.e', rr, st_, 'the frame sjoin works on descends from its argument through pandas methods (the active geometry travels with it)',
                    f'`{norm(st_)[:90]}` re-constructs the frame with `{norm(root.func) if built else ""}(...)` and no geometry=: the active geometry is re-derived (first geometry column), so the '
                    'sjoin uses another geometry column than the caller made active', construct=f'_record_reset_index: {norm(v_)[:40]}')
    pk = P.func('spatialpandas.dask', 'DaskGeoDataFrame.pack_partitions_to_parquet')
    okpk = False
    for s_ in walk_own(pk.node):
        if isinstance(s_, ast.Return) and isinstance(s_.value, ast.Call) and norm(s_.value.func) == 'read_parquet_dask':
            g_ = astq.arg_of(s_.value, kw='geometry')
            okpk = g_ is not None and norm(g_) in ('self.geometry.name', 'self._meta.geometry.name')
    R.check(okpk, 'C20.e', pk, None, 'the frame returned by pack_partitions_to_parquet is re-read with the input\'s active geometry',
            'pack_partitions_to_parquet re-reads the dataset without geometry=: the returned frame falls back to the first geometry column',
            construct='return read_parquet_dask(path, geometry=self.geometry.name, ...)')
    cm = GDF.members.get('_constructor_from_mgr')
    okc = cm is not None and 'GeoDataFrame._from_mgr' in norm(cm[1].node) and 'pd.DataFrame._from_mgr' in norm(cm[1].node)
    R.check(okc, 'C20.e', cm[1] if cm else ('spatialpandas/geodataframe.py', 'GeoDataFrame'), None,
            'results with a geometry block stay GeoDataFrames, others become plain DataFrames', '_constructor_from_mgr does not distinguish geo / plain results',
            construct='_constructor_from_mgr', nontrivial=False)
