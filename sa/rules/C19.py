"""C19 — transient filesystem faults never yield a silently wrong packed dataset.

Un-retried operations may raise (allowed by the statement), so "everything is wrapped in retry" is NOT a rule.
Necessary for "never silently wrong":
 C19.a  no swallowed errors: on the call tree of pack_partitions_to_parquet (anchor modules) no except clause ends
        without re-raising, except the enumerated optional-metadata reads.
 C19.b  consistency gate: the listing-equality test dominates the read of a sub-part directory; its failure raises inside
        a retried function.
 C19.c  no destructive step before its input is safe (read dominates write; temp dir removed only after the read), and the
        removal helper re-checks existence and raises inside the retried function.
 C19.d  retried writers are re-entrant: they open with a truncating mode.
 C19.e  every filesystem operation goes through the filesystem object obtained from validate_coerce_filesystem (no os/shutil
        or builtin open on the call tree); inner reads receive filesystem=.
Does not decide: idempotence under real partial failures, the fault/crash enumeration itself.
"""
import ast

import astq
import cfg as cfgmod
from model import walk_own, AnalysisError, FuncInfo, full as norm

EXPLANATION = (
    'Static analysis of the closures of pack_partitions_to_parquet and the reader functions they reach: exception-handler discipline '
    '(every handler re-raises unless enumerated), CFG dominance of the listing-equality gate over the directory read, raise-after-failed-removal, '
    'truncating open modes of retried writers, and a who-may-call rule that keeps every filesystem effect on the caller-supplied fsspec object. '
    'Necessary conditions for "never silently wrong"; real fault behaviour is not executed.')

MOD = 'spatialpandas.dask'
ROOT = 'DaskGeoDataFrame.pack_partitions_to_parquet'
ANCHOR_MODULES = ('spatialpandas.dask', 'spatialpandas.io.parquet', 'spatialpandas.io.utils')

# handlers that legitimately do not re-raise: (function qualname, exception names) -> reason
ALLOWED_HANDLERS = {
    ('_load_partition_bounds', ('FileNotFoundError',)): '_common_metadata absent => dataset has no stored bounds (property allows: bounds are optional)',
    ('_load_parquet_pandas_metadata', ('FileNotFoundError',)): 'falls back to the metadata of the first piece',
    ('_perform_read_parquet_dask', ('ImportError', 'RuntimeError')): 'feature probe for dask pyarrow_strings_enabled',
}
def _only_optional_metadata_read(P, f, t):
    """The body of `try` t consists of calls to _read_metadata only (at least one), and nothing else that touches storage."""
    try:
        rm = P.func('spatialpandas.io.parquet', '_read_metadata')
    except Exception:
        return False
    calls = [c for s_ in t.body for c in ast.walk(s_) if isinstance(c, ast.Call)]
    return bool(calls) and all(astq.is_call_to(P, f, c, rm) for c in calls)


FORBIDDEN_EXT = ('os.remove', 'os.unlink', 'os.rename', 'os.replace', 'os.makedirs', 'os.mkdir', 'os.rmdir', 'os.listdir', 'shutil.', 'builtins.open',
                 'os.path.exists', 'os.path.isdir', 'os.path.isfile', 'glob.glob')


def _exc_names(h):
    t = h.type
    if t is None:
        return ('<bare>',)
    if isinstance(t, ast.Tuple):
        return tuple(norm(e).split('.')[-1] for e in t.elts)
    return (norm(t).split('.')[-1],)


def _handler_reraises(h):
    C = cfgmod.build(ast.FunctionDef(name='h', args=ast.arguments(posonlyargs=[], args=[], kwonlyargs=[], kw_defaults=[], defaults=[]),
                                     body=h.body, decorator_list=[], lineno=h.lineno, col_offset=0))
    return not C.can_reach(C.ENTRY, C.EXIT)


def run(P, R, tier):
    F = P.func(MOD, ROOT)
    R.assume('S6: fsspec mutating operations rm/makedirs/move/open(w), observing operations exists/isfile/isdir/ls')
    tree = [f for f in P.reachable([F]) if f.mod.name in ANCHOR_MODULES]
    R.floor('C19', 'functions on the call tree of pack_partitions_to_parquet (anchor modules)', len(tree), 15)

    # ---------------------------------------------------------------- C19.a
    nh = 0
    for f in tree:
        for t in astq.own_nodes(f, ast.Try):
            for h in t.handlers:
                nh += 1
                names = _exc_names(h)
                if _handler_reraises(h):
                    R.ok('C19.a', f, h, f'handler for {names} re-raises', construct=f'except {", ".join(names)}')
                elif (f.name, names) in ALLOWED_HANDLERS:
                    R.ok('C19.a', f, h, f'enumerated optional read: {ALLOWED_HANDLERS[(f.name, names)]}', construct=f'except {", ".join(names)}', nontrivial=False)
                elif names == ('FileNotFoundError',) and _only_optional_metadata_read(P, f, t):
                    # the same optional read as the enumerated one, wherever it lives: the guarded block does nothing but read the (optional) metadata file
                    R.ok('C19.a', f, h, 'optional read: the guarded block only reads the metadata file, whose absence means "no stored bounds"', construct=f'except {", ".join(names)}', nontrivial=False)
                else:
                    R.bad('C19.a', f, h, f'handler for {names} in {f.qualname} can complete without re-raising: a filesystem error is swallowed and the run continues '
                                         f'with missing data', construct=f'except {", ".join(names)}: {norm(h.body[0]) if h.body else ""}')
    R.count('handlers', nh)
    # broad try/except around closures created inside F is covered because nested functions are on the tree

    helpers = dict(F.nested)
    # ---------------------------------------------------------------- C19.b consistency gate in the sub-part reader
    readers = []
    for g in helpers.values():
        if any(astq.fs_call(c) in ('ls', 'listdir') for c in astq.own_calls(g)):
            # lists a directory and reads parquet data (handed on as return value or through a collector)
            if any(astq.is_call_to(P, g, c, P.find_func('spatialpandas.io.parquet', 'read_parquet')) for c in astq.own_calls(g)):
                readers.append(g)
    R.floor('C19.b', 'sub-part reader helpers', len(readers), 1, defer=True)
    rp = P.find_func('spatialpandas.io.parquet', 'read_parquet')
    for g in readers:
        C = cfgmod.build(g.node)
        # which parameter is the directory that is listed?
        listed = set()
        for c in astq.own_calls(g):
            if astq.fs_call(c) in ('ls', 'listdir') and c.args and isinstance(c.args[0], ast.Name):
                listed.add(c.args[0].id)
        gates = []
        for s in astq.own_nodes(g, ast.If):
            if not any(isinstance(x, ast.Raise) for x in s.body):
                continue
            t = s.test
            if isinstance(t, ast.Compare) and len(t.ops) == 1 and isinstance(t.ops[0], (ast.NotEq, ast.Eq)):
                sides = [t.left, t.comparators[0]]
                origins = []
                for sd in sides:
                    e = astq.trace(g, sd)
                    origins.append(norm(e) if isinstance(e, ast.AST) else str(e))
                has_listing = any(('.ls(' in o or '.listdir(' in o) for o in origins)
                has_expected = any(any(p in o for p in g.params if p not in listed) for o in origins)
                if has_listing and has_expected and isinstance(t.ops[0], ast.NotEq):
                    gates.append(s)
        # every read of sub-part data in the helper: the listed directory itself, or the files named by the listing
        def _from_listing(e):
            if isinstance(e, ast.Name) and e.id in listed:
                return True
            t_ = astq.trace(g, e) if isinstance(e, ast.Name) else e
            o_ = norm(t_) if isinstance(t_, ast.AST) else ''
            return '.ls(' in o_ or '.listdir(' in o_
        dir_reads = [c for c in astq.own_calls(g) if astq.is_call_to(P, g, c, rp) and c.args and _from_listing(c.args[0])]
        # reads of the files the caller expects (the sub-part list itself) do not depend on any listing: a file that is not there yet fails the read, which is retried
        exp_reads = [c for c in astq.own_calls(g) if astq.is_call_to(P, g, c, rp) and c.args and c not in dir_reads
                     and (astq.sources(g, c.args[0]) & (set(g.params) - listed - {g.params[-1]}))]
        for c in exp_reads:
            R.ok('C19.b', g, c, 'the expected sub-part files are read by name (no listing involved)', construct=f'{g.name}: read of expected files')
        R.floor('C19.b', f'reads of the sub-parts in {g.name}', len(dir_reads) + len(exp_reads), 1)
        for c in dir_reads:
            # reading the listed DIRECTORY itself makes the parquet reader enumerate it a second time, after the gate: a stale second listing drops sub-parts
            # silently (D27).  The files to read are named explicitly: the expected list, or the listing that passed the gate.
            a0 = c.args[0]
            R.check(not (isinstance(a0, ast.Name) and a0.id in listed), 'C19.b', g, c, 'the sub-parts are read by name (no second, unchecked enumeration of the directory)',
                    f'`{norm(c)[:80]}` reads the directory `{norm(a0)}`: the reader lists it again after the consistency check, and a stale second listing silently drops sub-part files',
                    construct=f'{g.name}: no second listing')
            rn = C.node(_stmt(c))
            gn = [C.node(s) for s in gates]
            ok = bool(gn) and C.every_path_passes(C.ENTRY, rn, gn)
            # and the gate's passing branch is the only way on: the raising branch does not reach the read
            ok2 = all(not C.can_reach(C.node(next(x for x in s.body if isinstance(x, ast.Raise))), rn) for s in gates) if gates else False
            R.check(ok and ok2, 'C19.b', g, c, 'the listing-equality gate (listing == expected sub-parts, else raise) dominates the read of the directory',
                    'the directory of sub-parts can be read without the listing having been compared with the expected sub-part set: a stale listing yields a part with missing rows')
        R.check(bool(g.tags.get('retry')), 'C19.b', g, None, 'the gate raises inside a retried function', 'the reader with the gate is not retried: a stale listing aborts instead of being retried',
                construct=f'@retry {g.name}', nontrivial=False)

    # ---------------------------------------------------------------- C19.e filesystem object
    coerce = P.find_func('spatialpandas.io.utils', 'validate_coerce_filesystem')
    g0, d = astq.unique_def(F, 'filesystem')
    ok = isinstance(d, ast.Call) and astq.is_call_to(P, F, d, coerce)
    R.check(ok, 'C19.e', F, d if isinstance(d, ast.AST) else None, 'filesystem = validate_coerce_filesystem(path, filesystem, ...)',
            'the filesystem used by the closures is not the coerced caller-supplied one', construct='filesystem = validate_coerce_filesystem(...)')
    if coerce is not None:
        # instances pass through unchanged
        first_if = [s for s in coerce.node.body if isinstance(s, ast.If)]
        ok = bool(first_if) and 'isinstance' in norm(first_if[0].test) and 'AbstractFileSystem' in norm(first_if[0].test) \
            and astq.real(first_if[0].body) and isinstance(astq.real(first_if[0].body)[0], ast.Return) and isinstance(astq.real(first_if[0].body)[0].value, ast.Name) \
            and astq.real(first_if[0].body)[0].value.id == 'filesystem'
        R.check(ok, 'C19.e', coerce, first_if[0].test if first_if else None, 'validate_coerce_filesystem returns filesystem instances unchanged',
                'a user-supplied filesystem instance is not passed through unchanged')
    nfs = 0
    for g in [F] + [x for x in P.reachable([F]) if x.mod.name == MOD and x is not F and x.qualname.startswith(ROOT)]:
        for c in astq.own_calls(g):
            r = P.resolve_call(g, c)
            if r and r[0] == 'ext':
                name = r[1]
                if any(name == x or (x.endswith('.') and name.startswith(x)) for x in FORBIDDEN_EXT):
                    R.bad('C19.e', g, c, f'filesystem effect `{name}` bypasses the caller-supplied filesystem object')
            if isinstance(c.func, ast.Name) and c.func.id == 'open':
                R.bad('C19.e', g, c, 'builtin open() bypasses the caller-supplied filesystem object')
            if astq.fs_call(c):
                nfs += 1
            if r and r[0] == 'func' and r[1].mod.name == 'spatialpandas.io.parquet' and r[1].name in ('read_parquet', 'read_parquet_dask'):
                a = astq.arg_of(c, kw='filesystem')
                ok = isinstance(a, ast.Name) and a.id == 'filesystem'
                R.check(ok, 'C19.e', g, c, f'{r[1].name} receives filesystem=filesystem', f'{r[1].name} is called without the caller-supplied filesystem')
    R.floor('C19.e', 'filesystem operations in the closures', nfs, 12)
    R.count('fs_ops', nfs)

    # ---------------------------------------------------------------- C19.d truncating writers
    nw = 0
    for g in [F] + list(helpers.values()):
        for c in astq.own_calls(g):
            if astq.fs_call(c) == 'open':
                mode = astq.arg_of(c, pos=1, kw='mode')
                m = astq.const_str(mode) if mode is not None else 'rb'
                if m is None:
                    R.abstain('C19.d', g, c, 'open mode is not a literal')
                    continue
                if 'w' in m or 'a' in m or '+' in m or 'x' in m:
                    nw += 1
                    ok = m in ('wb', 'w') and (bool(g.tags.get('retry')) or g is F)
                    R.check(ok, 'C19.d', g, c, f'retried writer opens with truncating mode {m!r}',
                            f'writer opens with mode {m!r}' + ('' if m in ('wb', 'w') else ': a retry after a partial write appends/keeps stale bytes') +
                            ('' if (g.tags.get('retry') or g is F) else ' outside a retried helper'))
                    # ... at a path that is the same on every attempt: a name drawn afresh inside the retried function (uuid, random, time) leaves the file of
                    # every failed attempt behind (stray part files are read back as extra partitions)
                    if g.tags.get('retry') and c.args:
                        pe = astq.expand(g, c.args[0])
                        fresh = [x for x in ast.walk(pe) if isinstance(x, ast.Call) and norm(x.func).split('.')[-1] in
                                 ('uuid4', 'uuid1', 'random', 'randint', 'token_hex', 'token_urlsafe', 'time', 'time_ns', 'mkstemp', 'mktemp', 'getpid', 'urandom')]
                        R.check(not fresh, 'C19.d', g, c, 'the path written is the same on every attempt of the retried writer',
                                f'the path opened for writing contains `{norm(fresh[0]) if fresh else ""}`, drawn inside the retried function: every attempt writes another file, and the file of a failed '
                                'attempt is never removed (it is later read back as part of the dataset)', construct=f'{g.name}: attempt-independent write path')
    R.floor('C19.d', 'open-for-write sites', nw, 4)
    # C19.g: one retried call = one rename.  A retried helper that renames several files in a loop restarts the whole loop after a late fault; in the
    # gap-closing step the source of one rename is the target of the previous one, so the restarted loop moves an already renamed file again
    for g in helpers.values():
        if not g.tags.get('retry'):
            continue
        for lp in [l for l in walk_own(g.node) if isinstance(l, (ast.For, ast.While))]:
            mv = [c for c in ast.walk(lp) if isinstance(c, ast.Call) and astq.fs_call(c, {'move', 'mv', 'rename', 'copy', 'cp'})]
            if mv:
                R.bad('C19.g', g, mv[0], f'the retried helper {g.name} renames several files in one loop: a transient fault late in the loop restarts it from the first pair, whose source name now holds '
                      'the file that an earlier iteration moved there (sources and targets of the gap-closing renames chain), so a good part file is moved on and overwritten',
                      construct=f'{g.name}: several renames per retried call')
    rm_like = [g_ for g_ in helpers.values() if any(astq.fs_call(c_) in ('rm', 'rm_file', 'rmdir', 'delete') for c_ in astq.own_calls(g_))]
    # C19.h: whether an output partition is empty is decided from what the tasks WROTE (the expected sub-part list), never from a directory listing: a stale
    # listing taken before the sub-parts became visible would send a populated partition down the "empty: delete and skip" branch
    for g in helpers.values():
        for st in [x for x in walk_own(g.node) if isinstance(x, ast.If)]:
            destructive = any(any(isinstance(c, ast.Call) and (lambda r: r and r[0] == 'func' and r[1] in rm_like)(P.resolve_call(g, c)) for b in br for c in ast.walk(b))
                              and any(isinstance(x, ast.Return) for b in br for x in ast.walk(b)) for br in (st.body, st.orelse))
            if not destructive:
                continue
            e_ = astq.expand(g, st.test)
            listing = [c for c in ast.walk(e_) if isinstance(c, ast.Call) and (astq.fs_call(c, {'ls', 'listdir', 'find', 'glob', 'walk', 'du'})
                                                                                 or (lambda r: r and r[0] == 'func' and astq.performs(P, r[1], lambda cc, gg: bool(astq.fs_call(cc, {'ls', 'listdir', 'find', 'glob'})), depth=2))(P.resolve_call(g, c)))]
            R.check(not listing, 'C19.h', g, st.test, 'the "empty partition: remove and skip" branch is decided from the expected sub-part list',
                    f'`{norm(st.test)}` decides from a directory listing that the partition is empty and removes its directories: one stale listing (taken before the sub-parts are visible) drops a '
                    'populated partition silently', construct=f'{g.name}: emptiness from a listing')
    # ... nor is a state-changing step (move / copy) skipped because a LISTING does not show its source: `exists()` asks about the file itself, a listing can be
    # stale - the rename is then skipped as "already done", the next rename overwrites the file that stayed behind, or a gap remains in the numbering
    for g in helpers.values():
        for st in [x for x in walk_own(g.node) if isinstance(x, ast.If)]:
            acts = [c for b in st.body for c in ast.walk(b) if isinstance(c, ast.Call) and astq.fs_call(c) in ('move', 'mv', 'rename', 'cp', 'copy', 'put', 'cp_file')]
            if not acts:
                continue
            e_ = astq.expand(g, st.test)
            srcs = astq.sources(g, st.test)
            listing = [c for c in ast.walk(e_) if isinstance(c, ast.Call) and (astq.fs_call(c, {'ls', 'listdir', 'find', 'glob', 'walk'})
                                                                                 or (lambda r: r and r[0] == 'func' and astq.performs(P, r[1], lambda cc, gg: bool(astq.fs_call(cc, {'ls', 'listdir', 'find', 'glob'})), depth=2))(P.resolve_call(g, c)))]
            for nm in srcs:
                for d_ in astq.assignments(g, nm):
                    if d_[0] == 'expr' and isinstance(d_[1], ast.AST):
                        listing += [c for c in ast.walk(d_[1]) if isinstance(c, ast.Call) and (astq.fs_call(c, {'ls', 'listdir', 'find', 'glob', 'walk'})
                                                                                              or (lambda r: r and r[0] == 'func' and astq.performs(P, r[1], lambda cc, gg: bool(astq.fs_call(cc, {'ls', 'listdir', 'find', 'glob'})), depth=2))(P.resolve_call(g, c)))]
            R.check(not listing, 'C19.h', g, st.test, f'{g.name}: the move is conditioned on the file itself (exists), not on a directory listing',
                    f'`{norm(st.test)[:70]}` decides from a directory listing whether `{norm(acts[0])[:40]}` runs: one stale listing that omits the source makes the step be skipped silently '
                    '("already moved") - the file stays under its old name, and the next rename overwrites it or leaves a gap', construct=f'{g.name}: action conditioned on a listing')
    # futures of steps handed to a thread pool are asked for their result: `concurrent.futures.wait` (and a plain `with` exit) never re-raise, so an exception that
    # exhausted the retry budget stays in its Future and the call returns normally with the file missing
    for h_ in [F] + list(helpers.values()):
        subs_ = [c for c in astq.own_calls(h_) if isinstance(c.func, ast.Attribute) and c.func.attr in ('submit', 'apply_async')]
        if not subs_:
            continue
        asked = [c for c in astq.own_calls(h_) if isinstance(c.func, ast.Attribute) and c.func.attr in ('result', 'exception') and not c.args]
        R.check(bool(asked), 'C19.a', h_, subs_[0], 'every future of a submitted step is asked for its result (a failure surfaces)',
                f'`{norm(subs_[0])[:60]}` submits a step whose Future is never asked for its result (only waited for): an exception of the step - a fault that outlasted the retries - is '
                'swallowed and the call returns normally', construct=f'{h_.name}: futures asked for their result')
    # C19.f: a list handed to a retried writer as `metadata_collector=` receives one entry PER ATTEMPT; whoever consumes it takes exactly one entry
    # (an index), never the whole list
    for g in helpers.values():
        if not g.tags.get('retry'):
            continue
        for c in astq.own_calls(g):
            mc = astq.arg_of(c, kw='metadata_collector')
            if mc is None or not isinstance(mc, ast.Name) or mc.id not in g.params:
                continue
            pos = g.params.index(mc.id)
            # call sites of g: the list they pass
            for h in [F] + list(helpers.values()):
                for cc in astq.own_calls(h):
                    r = P.resolve_call(h, cc)
                    if not (r and r[0] == 'func' and r[1] is g and pos < len(cc.args) and isinstance(cc.args[pos], ast.Name)):
                        continue
                    L = cc.args[pos].id
                    uses = [x for x in walk_own(h.node) if isinstance(x, ast.Name) and x.id == L and isinstance(x.ctx, ast.Load) and x is not cc.args[pos]]
                    for u in uses:
                        par = getattr(u, '_parent', None)
                        single = isinstance(par, ast.Subscript) and par.value is u and not isinstance(par.slice, ast.Slice)
                        R.check(single, 'C19.f', h, par if par is not None else u, f'`{L}` (filled once per attempt of {g.name}) is consumed one entry at a time',
                                f'`{norm(par) if par is not None else L}` hands on the whole list `{L}` that the retried {g.name} fills once per ATTEMPT: after a transient fault it holds two entries for one part, '
                                'so the part\'s row groups are recorded twice in _metadata', construct=f'{h.name}: single entry of {L}')
    # a retried function must be re-entrant: it may not mutate captured (non-local) objects, because a retry repeats the mutation
    from effects import base_name
    MUT = ('append', 'extend', 'add', 'update', 'insert', 'remove', 'pop', 'clear', 'sort', 'reverse', 'setdefault')
    nre = 0
    for g in helpers.values():
        if not g.tags.get('retry'):
            continue
        nre += 1
        local = set(g.params)
        for n_ in walk_own(g.node):
            if isinstance(n_, ast.Name) and isinstance(n_.ctx, ast.Store):
                local.add(n_.id)
        from effects import is_fresh_expr

        def captured(name, depth=0, g=g, local=local):
            if name in g.params:
                return True       # a retry calls again with the same argument objects: they persist across attempts like captured state
            if name not in local:
                return True
            if depth > 4:
                return False
            for d in astq.assignments(g, name):
                if d[0] != 'expr':
                    # loop variables / unpacking: elements of the iterable
                    src = d[1].iter if d[0] == 'iter' else d[1]
                    bb = base_name(src) if isinstance(src, ast.AST) else None
                    if bb is not None and captured(bb, depth + 1):
                        return True
                    continue
                if is_fresh_expr(d[1]):
                    continue
                bb = base_name(d[1])
                if bb is not None and bb != name and captured(bb, depth + 1):
                    return True
            return False
        dirty = []
        # helpers defined next to the retried function and called from it run once per ATTEMPT too: what they append to captured containers is appended again
        for c in astq.own_calls(g):
            r_ = P.resolve_call(g, c)
            if r_ and r_[0] == 'func' and r_[1] in helpers.values() and not r_[1].tags.get('retry') and r_[1] is not g:
                h2 = r_[1]
                loc2 = set(h2.params) | {n_.id for n_ in walk_own(h2.node) if isinstance(n_, ast.Name) and isinstance(n_.ctx, ast.Store)}
                for x in walk_own(h2.node):
                    if isinstance(x, ast.Call) and isinstance(x.func, ast.Attribute) and x.func.attr in ('append', 'extend', 'insert', 'add', 'update', 'setdefault') \
                            and isinstance(x.func.value, ast.Name) and x.func.value.id not in loc2:
                        dirty.append(x)
                    if isinstance(x, (ast.Assign, ast.AugAssign)):
                        for t in (x.targets if isinstance(x, ast.Assign) else [x.target]):
                            if isinstance(t, ast.Subscript) and isinstance(t.value, ast.Name) and t.value.id not in loc2:
                                dirty.append(x)
        for c in astq.own_calls(g):
            if isinstance(c.func, ast.Attribute) and any(c.func.attr == m or c.func.attr.startswith(m + '_') for m in MUT):
                b_ = base_name(c.func.value)
                if b_ is not None and captured(b_) and not astq.fs_call(c):
                    dirty.append(c)
        for n_ in walk_own(g.node):
            if isinstance(n_, (ast.Assign, ast.AugAssign)):
                for t in (n_.targets if isinstance(n_, ast.Assign) else [n_.target]):
                    if isinstance(t, (ast.Subscript, ast.Attribute)):
                        b_ = base_name(t)
                        if b_ is not None and captured(b_):
                            dirty.append(n_)
        if dirty:
            for c in dirty:
                R.bad('C19.d', g, c, f'retried function {g.name} mutates state that outlives the attempt (captured or passed in) `{norm(c)}`: every retry repeats the mutation (e.g. duplicated row groups in _metadata)')
        else:
            R.ok('C19.d', g, None, f'retried function {g.name} mutates no captured state (re-entrant)', construct=f'@retry {g.name} re-entrant')
    R.floor('C19.d', 'retried helpers', nre, 6)

    # ---------------------------------------------------------------- C19.c removal re-check
    removers = [g for g in helpers.values() if any(astq.fs_call(c) in ('rm', 'rm_file', 'rmdir', 'delete') for c in astq.own_calls(g))]
    R.floor('C19.c', 'removal helpers', len(removers), 1)
    for g in removers:
        C = cfgmod.build(g.node)
        for c in astq.own_calls(g):
            if astq.fs_call(c) in ('rm', 'rm_file', 'rmdir', 'delete'):
                rn = C.node(_stmt(c))
                checks = []
                for s in astq.own_nodes(g, ast.If):
                    if any(isinstance(x, ast.Raise) for x in s.body) and any(astq.fs_call(x) == 'exists' for x in ast.walk(s.test) if isinstance(x, ast.Call)):
                        checks.append(C.node(s))
                ok = bool(checks) and C.every_path_passes(rn, C.EXIT, checks) and bool(g.tags.get('retry'))
                R.check(ok, 'C19.c', g, c, 'after rm the path is re-checked and a survivor raises inside the retried helper',
                        'a removal that silently did not take effect is not detected (no exists re-check that raises after rm, or helper not retried)')
    gate_sides(P, R, 'C19.b')
    # read-before-delete / read-dominates-write are shared with C10.b
    from rules import C10
    sub = type(R)(R.prop, R.tier)
    try:
        C10.run(P, sub, tier)
    except AnalysisError as e:
        if not any(o.status == 'violated' for o in R.obs):
            raise
        R.notes.append(f'shared C10.b obligations not evaluated: {e}')
    k = 0
    for o in sub.obs:
        if o.rule == 'C10.b' and ('sub-parts are read before' in o.detail or 'read dominates write' in o.detail or 'removed before its sub-parts' in o.detail or 'never read' in o.detail):
            k += 1
            R._add('C19.c', (o.path, o.site.split('::')[-1]), None, o.status, o.detail, construct=o.construct)
    R.floor('C19.c', 'read-before-destroy obligations', k, 2)


def gate_sides(P, R, rule):
    """The listing == expected gate of the sub-part reader compares two collections of paths that arrive in different orders (a directory listing has no
    order; the expected list is in input-partition order, numeric): both sides are brought to the same order-free form - `sorted(...)` on both, or sets.
    Comparing a sorted listing with the unsorted expected list fails for ever as soon as part10 sorts before part2."""
    F = P.func('spatialpandas.dask', 'DaskGeoDataFrame.pack_partitions_to_parquet')
    n = 0
    for g in F.nested.values():
        if not (any(astq.fs_call(c) in ('ls', 'listdir') for c in astq.own_calls(g)) and any(astq.is_call_to(P, g, c, P.find_func('spatialpandas.io.parquet', 'read_parquet')) for c in astq.own_calls(g))):
            continue
        for st in astq.own_nodes(g, ast.If):
            t = st.test
            if not (isinstance(t, ast.Compare) and len(t.ops) == 1 and isinstance(t.ops[0], (ast.NotEq, ast.Eq)) and any(isinstance(x, ast.Raise) for b in (st.body, st.orelse) for y in b for x in ast.walk(y))):
                continue
            sides = []
            for sd in (t.left, t.comparators[0]):
                e = astq.trace(g, sd) if isinstance(sd, ast.Name) else sd
                if not isinstance(e, ast.AST):
                    sides.append(('raw', norm(sd)))
                    continue
                fn = norm(e.func) if isinstance(e, ast.Call) else ''
                kind = 'sorted' if fn == 'sorted' else 'set' if fn in ('set', 'frozenset') or isinstance(e, (ast.Set, ast.SetComp)) else 'raw'
                sides.append((kind, norm(e)))
            if not any('.ls(' in txt or '.listdir(' in txt for _, txt in sides) and not any(isinstance(sd, ast.Name) and any('.ls(' in norm(v[1]) for v in astq.assignments(g, sd.id) if v[0] == 'expr' and isinstance(v[1], ast.AST))
                                                                                       for sd in (t.left, t.comparators[0])):
                continue
            n += 1
            ok = sides[0][0] == sides[1][0] and sides[0][0] in ('sorted', 'set')
            R.check(ok, rule, g, t, 'both sides of the listing == expected comparison are order-free in the same way (sorted / set)',
                    f'`{norm(t)}` compares `{sides[0][1][:60]}` ({sides[0][0]}) with `{sides[1][1][:60]}` ({sides[1][0]}): a directory listing and the expected list do not share an order '
                    '(part10 sorts before part2), so the check fails for ever for more than ten input partitions and the call ends with temp directories left behind',
                    construct=f'{g.name}: gate sides normalised')
    R.count('listing_gates', n)      # the gate is optional since the sub-parts are read by name (D27): when present, its sides must be comparable


def _stmt(node):
    n = node
    while n is not None and not isinstance(n, ast.stmt):
        n = getattr(n, '_parent', None)
    return n
