"""C09 — pack_partitions keeps every row and orders rows along the Hilbert curve (thin structural claim).

 C09.a  the distance column is computed from the ACTIVE geometry, with the frame-level total_bounds evaluated once outside the
        per-partition function and passed explicitly, and with the caller's p.
 C09.b  the column assigned and the column used by set_index have the same name; the caller's npartitions (after defaulting) and
        shuffle reach set_index; on every path to the return the partition count was compared with the request and repartitioned
        when different; the packed frame is what is returned.
 C09.c  the default partition count applies only when none is requested.
Does not decide: row conservation and ordering under Dask's shuffle (library semantics), independence from input partitioning.
"""
import ast

import astq
import cfg as cfgmod
from model import walk_own, AnalysisError, full as norm

EXPLANATION = (
    'Static def-use and CFG analysis of DaskGeoDataFrame.pack_partitions / _with_hilbert_distance_column / _compute_packing_npartitions: '
    'provenance of the geometry and of total_bounds (must be bound outside the per-partition lambda and passed by keyword), flow of p, npartitions and '
    'shuffle into the Dask calls, name agreement between the assigned column and the index column, and a must-pass-through query for the '
    'partition-count guard.  Dask shuffle semantics are not decided.')

MOD = 'spatialpandas.dask'


def narrow_casts(P, R, rule, extra=()):
    """No narrowing of the distances between the curve kernel and the caller (they need 2*p bits; p up to 31)."""
    narrow = ('int32', 'int16', 'int8', 'uint32', 'uint16', 'uint8', 'float32', 'float16')
    path = list(extra) + [P.func('spatialpandas.geometry.base', 'GeometryArray.hilbert_distance'), P.func('spatialpandas.geoseries', 'GeoSeries.hilbert_distance'),
                          P.func('spatialpandas.spatialindex.rtree', '_distances_from_bounds'), P.func('spatialpandas.spatialindex.hilbert_curve', 'distances_from_coordinates')]
    ncast = 0
    for f in path:
        for c2 in ast.walk(f.node):
            if isinstance(c2, ast.Call) and ((isinstance(c2.func, ast.Attribute) and c2.func.attr == 'astype') or any(k.arg == 'dtype' for k in c2.keywords)):
                txt = norm(c2)
                ncast += 1
                bad = [t for t in narrow if t in txt.split('astype')[-1] or f'dtype=np.{t}' in txt or f"dtype='{t}'" in txt]
                R.check(not bad, rule, f, c2, 'distance values keep 64-bit width on their way to the caller / into the index',
                        f'`{txt}` narrows the Hilbert distances to {bad}: they need 2*p bits and wrap around for larger p, so rows are indexed and ordered by wrong values')
    R.count('casts_checked', ncast)


def run(P, R, tier):
    pp = P.func(MOD, 'DaskGeoDataFrame.pack_partitions')
    wh = P.func(MOD, 'DaskGeoDataFrame._with_hilbert_distance_column')
    cn = P.func(MOD, 'DaskGeoDataFrame._compute_packing_npartitions')
    # ---------------------------------------------------------------- C09.a
    g, geom = astq.unique_def(wh, 'geometry')
    lam = [l for l in wh.lambdas] + list(wh.nested.values())
    for g_ in [wh] + lam:
        for c_ in ast.walk(g_.node):
            if isinstance(c_, ast.Call) and isinstance(c_.func, ast.Attribute) and c_.func.attr in ('join', 'merge') or \
                    (isinstance(c_, ast.Call) and norm(c_.func).endswith('concat') and any(k.arg == 'axis' and norm(k.value) == '1' for k in c_.keywords)):
                R.bad('C09.a', g_, c_, f'`{norm(c_)[:90]}` attaches the distances by an index-LABEL join: with a non-unique index rows are multiplied and paired with other rows\' distances')
    bind = None
    if not lam:
        # the per-partition function may also be a module-level function handed to map_partitions with keyword arguments
        for c_ in astq.own_calls(wh):
            if isinstance(c_.func, ast.Attribute) and c_.func.attr == 'map_partitions' and c_.args and isinstance(c_.args[0], ast.Name):
                r_ = P.resolve_expr_static(wh.mod, c_.args[0], wh)
                if r_ and r_[0] == 'func':
                    lam = [r_[1]]
                    bind = {}
                    for k_, a_ in zip(r_[1].params[1:], c_.args[1:]):
                        bind[k_] = a_
                    for k_ in c_.keywords:
                        if k_.arg in r_[1].params:
                            bind[k_.arg] = k_.value
    R.floor('C09.a', 'per-partition functions in _with_hilbert_distance_column', len(lam), 1)
    l = lam[0]
    call = None
    body_nodes = ast.walk(l.node.body) if isinstance(l.node, ast.Lambda) else ast.walk(l.node)
    for x in body_nodes:
        if isinstance(x, ast.Call) and isinstance(x.func, ast.Attribute) and x.func.attr == 'hilbert_distance' and \
                (norm(x.func.value) == l.params[0] or norm(x.func.value).startswith(l.params[0] + '[') or norm(x.func.value).startswith(l.params[0] + '.')):
            call = x
    ok = call is not None
    R.check(ok, 'C09.a', wh, l.node, 'each partition computes hilbert_distance of its own rows', 'the per-partition function does not call hilbert_distance on its partition')
    if ok:
        tb = astq.arg_of(call, kw='total_bounds')
        pv = astq.arg_of(call, kw='p')
        if bind is not None:
            # values inside the module-level function are its parameters: replace them by what map_partitions passes (a parameter that is not passed keeps its default)
            tb = bind.get(tb.id) if isinstance(tb, ast.Name) and tb.id in l.params else tb
            pv = bind.get(pv.id) if isinstance(pv, ast.Name) and pv.id in l.params else pv
        tbd = None
        if isinstance(tb, ast.Name) and (tb.id not in l.params or bind is not None):
            g2, tbd = astq.unique_def(wh, tb.id)
        elif isinstance(tb, ast.Attribute) and bind is not None:
            tbd = tb          # written in place at the map_partitions call
        okt = isinstance(tbd, ast.Attribute) and tbd.attr == 'total_bounds'
        src = astq.trace(wh, tbd.value) if okt else None
        okt = okt and isinstance(src, ast.AST) and norm(src) == 'self.geometry'
        R.check(okt, 'C09.a', wh, call, 'total_bounds is the frame-level extent of the active geometry, bound once outside the per-partition function and passed explicitly',
                f'total_bounds passed to the partitions is `{norm(tb) if tb is not None else None}` (= {norm(tbd) if isinstance(tbd, ast.AST) else tbd}): per-partition or default extents give '
                f'each partition its own grid, so distances are not comparable across partitions')
        R.check(pv is not None and norm(pv) == wh.params[1], 'C09.a', wh, call, 'the caller\'s p reaches hilbert_distance', f'p passed to hilbert_distance is `{norm(pv) if pv is not None else None}`' + (' (the per-partition function\'s default: the caller\'s p is not forwarded by map_partitions)' if pv is None and bind is not None else ''))
    mp = [c for c in astq.own_calls(wh) if isinstance(c.func, ast.Attribute) and c.func.attr == 'map_partitions']
    okm = bool(mp) and isinstance(astq.trace(wh, mp[0].func.value), ast.AST) and norm(astq.trace(wh, mp[0].func.value)) == 'self.geometry'
    if not okm and mp and call is not None and isinstance(call.func.value, ast.Subscript):
        # frame-wise form: df[<name of the active geometry>].hilbert_distance(...)
        key = astq.trace(wh, call.func.value.slice)
        okm = isinstance(key, ast.AST) and norm(key) in ('self.geometry.name', 'geometry.name') and norm(mp[0].func.value) == 'self'
    R.check(okm, 'C09.a', wh, mp[0] if mp else None, 'distances are computed from the active geometry (self.geometry)', 'distances are not computed from self.geometry')
    asg = [c for c in astq.own_calls(wh) if isinstance(c.func, ast.Attribute) and c.func.attr == 'assign' and norm(c.func.value) == 'self']
    colnames = [k.arg for c in asg for k in c.keywords]
    R.check(len(colnames) == 1, 'C09.b', wh, asg[0] if asg else None, f'the distances are attached as column {colnames}', 'the distance column is not attached with self.assign(...)', nontrivial=False)
    # ---------------------------------------------------------------- C09.b
    si = [c for c in astq.own_calls(pp) if isinstance(c.func, ast.Attribute) and c.func.attr == 'set_index']
    R.floor('C09.b', 'set_index calls in pack_partitions', len(si), 1)
    # every set_index of pack_partitions sorts: `sorted=True` tells dask that the rows are in index order already - no shuffle and no sort happens, the divisions are
    # taken from each partition's first and last row.  Nothing establishes that order for the NEW distances (another p, other total bounds, a filtered frame)
    for c_ in si:
        srt = astq.arg_of(c_, kw='sorted')
        R.check(srt is None or (isinstance(srt, ast.Constant) and srt.value is False), 'C09.b', pp, c_, 'set_index sorts the rows (no `sorted=True` promise)',
                f'`{norm(c_)[:90]}` promises dask that the rows are already in index order: no shuffle and no sort is done, so rows whose new distances are not in the order of the old ones '
                'stay where they are (unsorted partitions, overlapping divisions)', construct='set_index sorts')
    c = si[0]
    name = astq.const_str(c.args[0]) if c.args else None
    R.check(bool(colnames) and name == colnames[0], 'C09.b', pp, c, f'set_index uses the column that was assigned ({name})', f'set_index uses `{name}` but the distances were assigned as {colnames}')
    recv = astq.assignments(pp, c.func.value.id) if isinstance(c.func.value, ast.Name) else []
    okr = any(d[0] == 'expr' and isinstance(d[1], ast.Call) and astq.is_call_to(P, pp, d[1], wh) and d[1].args and norm(d[1].args[0]) == pp.params[2] for d in recv)
    R.check(okr, 'C09.b', pp, c, 'the shuffled frame is the one with the distance column, computed with the caller\'s p', 'set_index is not applied to self._with_hilbert_distance_column(p)')
    # C09.d (seed S9: dask `set_index(name)` returns the frame UNCHANGED when its index already has that name): a frame that is already packed
    # (index named like the distance column) must lose that index name before set_index, otherwise the old distances stay and the new column is left over
    R.assume('S9: dask DataFrame.set_index(<name>) returns self when self.index.name == <name>')
    guards = [g for g in astq.own_nodes(pp, ast.If) if isinstance(g.test, ast.Compare) and len(g.test.ops) == 1 and isinstance(g.test.ops[0], ast.Eq)
              and any('.index.name' in norm(x) for x in (g.test.left, g.test.comparators[0])) and any(astq.const_str(x) == name for x in (g.test.left, g.test.comparators[0]))
              and any(isinstance(x, ast.Call) and isinstance(x.func, ast.Attribute) and x.func.attr in ('reset_index', 'rename', 'rename_axis') for b in g.body for x in ast.walk(b))]
    Cg = cfgmod.build(pp.node)
    sstmt = next((a for a in walk_own(pp.node) if isinstance(a, (ast.Assign, ast.Expr, ast.Return)) and any(x is c for x in ast.walk(a))), None)
    okg = bool(guards) and sstmt is not None and Cg.every_path_passes(Cg.ENTRY, Cg.node(sstmt), [Cg.node(g) for g in guards])
    R.check(okg, 'C09.d', pp, c, f'a frame whose index is already named {name!r} has that index dropped/renamed before set_index({name!r})',
            f'set_index({name!r}) is reached without handling a frame whose index is already named {name!r} (an already packed frame, or a packed dataset read back): dask then returns the frame '
            'unchanged: rows keep the OLD distances as index and the new distance column is left in the result', construct='repacking an already packed frame')
    npv, sh = astq.arg_of(c, kw='npartitions'), astq.arg_of(c, kw='shuffle_method') or astq.arg_of(c, kw='shuffle')
    R.check(npv is not None and norm(npv) == pp.params[1], 'C09.b', pp, c, 'the requested partition count reaches set_index', 'npartitions does not reach set_index')
    R.check(sh is not None and norm(sh) == pp.params[3], 'C09.b', pp, c, 'the caller\'s shuffle method reaches set_index', 'shuffle does not reach set_index', nontrivial=False)
    dn = [d for d in astq.assignments(pp, pp.params[1]) if d[0] == 'expr']
    okn = bool(dn) and isinstance(dn[0][1], ast.Call) and astq.is_call_to(P, pp, dn[0][1], cn) and norm(dn[0][1].args[0]) == pp.params[1] and dn[0][1].lineno < c.lineno
    R.check(okn, 'C09.b', pp, dn[0][1] if dn else None, 'npartitions is defaulted through _compute_packing_npartitions before use', 'npartitions is not normalised before use')
    C = cfgmod.build(pp.node)
    guards = [s for s in astq.own_nodes(pp, ast.If) if '.npartitions' in norm(s.test) and pp.params[1] in astq.names_in(s.test)
              and isinstance(s.test, ast.Compare) and isinstance(s.test.ops[0], ast.NotEq)
              and any('repartition' in norm(x) and f'npartitions={pp.params[1]}' in norm(x) for x in s.body)]
    okg = bool(guards) and C.every_path_passes(C.ENTRY, C.EXIT, [C.node(s) for s in guards])
    R.check(okg, 'C09.b', pp, guards[0].test if guards else None, 'on every path the partition count is compared with the request and repartitioned when different',
            'a path returns without the partition-count guard: already-sorted input keeps its old number of partitions')
    rets = [s for s in walk_own(pp.node) if isinstance(s, ast.Return)]
    okret = bool(rets) and all(isinstance(s.value, ast.Name) and isinstance(c.func.value, ast.Name) and s.value.id == c.func.value.id for s in rets)
    R.check(okret, 'C09.b', pp, rets[0] if rets else None, 'the packed frame is returned', 'the returned frame is not the packed one')
    narrow_casts(P, R, 'C09.a', [wh] + list(wh.lambdas) + [pp])
    from rules import common as _common
    _common.forward(P, R, 'C08', ['C08.*'], 'C09.a', 'rows are indexed by their Hilbert distance (C08) against the frame total bounds', floor=10)
    _common.forward(P, R, 'C06', ['C06.b'], 'C09.a', 'the frame-level total bounds every partition measures against (Dask total_bounds)', floor=2)
    _common.forward(P, R, 'C16', ['C16.a', 'C16.f'], 'C09.a', '(S10) dask identifies the input frames by token: whatever reads an array\'s raw buffers (a tokeniser included) applies its offset/length, or equal-length slices of one parent collapse into one collection',
                    floor=0, only=lambda o: o.status == 'violated' or 'raw' in (o.detail or ''))
    _common.forward(P, R, 'C12', ['C12.i'], 'C09.a', 'the frame total bounds are reduced from cached partition bounds only when EVERY dataset has them', floor=0)
    _common.forward(P, R, 'C13', ['C13.c'], 'C09.a', 'the boxes of point rows are the points themselves, masked by the validity bitmap (missing rows have no box)', floor=3)
    _common.forward(P, R, 'C06', ['C06.f'], 'C09.a', '(S10) the frame that is packed is the frame that was given: dask identifies it by the token of its columns', floor=1)
    _common.forward(P, R, 'C06', ['C06.d'], 'C09.a', 'the active geometry and the cached partition bounds the frame-level total bounds are reduced from', floor=4)
    _common.forward(P, R, 'C13', ['C13.a', 'C13.b'], 'C09.a', 'each partition\'s total_bounds (and each row\'s bounds) are the extents of exactly its own rows', floor=10)
    # a filtered frame must not inherit the parent's cached partition bounds (they define the frame-level total_bounds)
    from rules import C12
    sub = type(R)(R.prop, R.tier)
    try:
        C12.run(P, sub, tier)
    except AnalysisError:
        pass
    for o in sub.obs:
        if o.rule == 'C12.g':
            R._add('C09.a', (o.path, o.site.split('::')[-1]), None, o.status, 'frame-level total_bounds come from cached partition bounds: ' + o.detail, construct=o.construct)
    # ---------------------------------------------------------------- C09.c
    ifs = [s for s in cn.node.body if isinstance(s, ast.If)]
    ok = bool(ifs) and norm(ifs[0].test) == f'{cn.params[1]} is None' and any(isinstance(s, ast.Return) and norm(s.value) == cn.params[1] for s in cn.node.body)
    R.check(ok, 'C09.c', cn, ifs[0].test if ifs else None, 'the default partition count applies only when none is requested', 'an explicit npartitions is not returned unchanged')
