"""C10 — pack_partitions_to_parquet leaves a complete, clean, re-readable dataset.

Decides (necessary conditions, all on the closures of DaskGeoDataFrame.pack_partitions_to_parquet):
 C10.a  create/cleanup pairing of the two per-partition directory families (placeholder `part.<k>.parquet`
        under the dataset, temp dir from tempdir_format): on every normal path of the per-partition
        consolidation task both are removed (the placeholder is later replaced by a file).
 C10.b  ordering: overwrite removal before any makedirs; placeholder removed before the file of the same
        path is opened for writing; sub-parts read before their directory is removed; _metadata and
        _common_metadata written and compaction done on every path to the return; return value is a fresh
        read_parquet_dask(path).
 C10.c  naming: sub-part file name contains the input partition number and lives under the temp dir of the
        output partition number; placeholder dirs and final files share one template part.<k>.parquet for
        k in range(npartitions); compaction moves the i-th non-empty part to the i-th name.
 C10.d  tempdir_format validation precedes its first use.
Does not decide: file contents, Dask quantiles/digitize, real filesystem behaviour.
"""
import ast

import astq
import cfg as cfgmod
from model import walk_own, AnalysisError, FuncInfo, full as norm

EXPLANATION = (
    'Static analysis (ast + per-function CFG + resolved closures) of DaskGeoDataFrame.pack_partitions_to_parquet: '
    'path-template families are inferred from the makedirs call sites, the per-partition task is found through '
    'dask.delayed(task)(tmp_paths[k], subparts, out_paths[k]); must-pass-through and ordering queries on the CFGs decide '
    'create/cleanup pairing, remove-before-write, read-before-delete, metadata-on-every-path; template comparison decides naming. '
    'Necessary conditions only: file contents and real filesystem effects are not decided.')

MOD = 'spatialpandas.dask'
ROOT = 'DaskGeoDataFrame.pack_partitions_to_parquet'


def _helper_kind(P, g):
    """Classify a nested helper by the filesystem operation it performs."""
    kinds = set()
    for c in astq.own_calls(g):
        op = astq.fs_call(c)
        if op in ('rm', 'rm_file', 'rmdir', 'delete'):
            kinds.add('rm')
        elif op in ('makedirs', 'mkdirs', 'mkdir'):
            kinds.add('mkdir')
        elif op in ('move', 'mv', 'rename'):
            kinds.add('move')
        elif op == 'open':
            mode = astq.arg_of(c, pos=1, kw='mode')
            m = astq.const_str(mode) if mode is not None else 'rb'
            kinds.add('open:' + str(m))
        elif op in ('ls', 'listdir'):
            kinds.add('ls')
    return kinds


def family(F, expr):
    """'tmp' if the expression is an instance of tempdir_format.format(...), 'out' if join(path, 'part.<k>.parquet')."""
    t = astq.template(F, expr)
    fam = _family_of_template(t)
    if fam is not None:
        return fam
    # by provenance: anything formatted out of `tempdir_format` is the temp family; a join under the dataset `path` that is not, is the output family
    e = astq.expand(F, expr) if isinstance(expr, ast.AST) else None
    if e is None:
        return None
    names = astq.names_in(e)
    if 'tempdir_format' in names:
        return 'tmp'
    pathp = F.params[1] if len(F.params) > 1 else 'path'
    for c in ast.walk(e):
        if isinstance(c, ast.Call) and norm(c.func).endswith('path.join') and c.args and isinstance(c.args[0], ast.Name) and c.args[0].id == pathp and 'parquet' in norm(e):
            return 'out'
    return None


def _family_of_template(t):
    s = repr(t)
    if t and t[0] in ('each', 'index'):
        return _family_of_template(t[1])
    if t and t[0] == 'format':
        return 'tmp'
    if t and t[0] == 'join' and len(t) >= 3:
        last = t[-1]
        if last[0] == 'fstr':
            lits = ''.join(p[1] for p in last if p[0] == 'lit')
            if lits.startswith('part.') and lits.endswith('.parquet') and t[1][0] in ('param', 'var'):
                return 'out'
    if t and t[0] == 'param' and t[1] == 'tempdir_format':
        return 'tmp'
    return None


def run(P, R, tier):
    F = P.func(MOD, ROOT)
    from rules import common as _common
    from rules import C19 as _C19
    _C19.gate_sides(P, R, 'C10.b')
    _common.evaluated_once(P, R, 'C10.c', 'the temp directories of different calls coincide, so one call removes or overwrites the sub-parts of another')
    _common.array_token(P, R, 'C10.e')      # the frame that is packed and written is the frame that was given (dask identifies it by token)
    from rules import C06 as _C06
    _C06.dask_total_bounds(P, R, 'C10.e')      # the extent of the packing grid (C09 and C06 would be a forward cycle through C19: the rule is called directly)
    _common.forward(P, R, 'C12', ['C12.d'], 'C10.e', 'the frame that is returned (and any re-read without bounds=) holds every part that was written', floor=1)
    _common.forward(P, R, 'C12', ['C12.c', 'C12.h'], 'C10.e', 'the returned frame (and any re-read) loads the parts in numeric order: part.10 after part.2', floor=1)
    _common.forward(P, R, 'C11', ['C11.d', 'C11.e'], 'C10.e', 'the returned frame is read back through read_parquet_dask', floor=1)
    helpers = {name: (g, _helper_kind(P, g)) for name, g in F.nested.items()}
    rm_helpers = [g for g, k in helpers.values() if 'rm' in k]
    mk_helpers = [g for g, k in helpers.values() if 'mkdir' in k]
    mv_helpers = [g for g, k in helpers.values() if 'move' in k]
    R.floor('C10', 'removing helpers', len(rm_helpers), 1)
    R.floor('C10', 'directory-creating helpers', len(mk_helpers), 1)

    def calls_to(f, group):
        out = []
        for c in astq.own_calls(f):
            r = P.resolve_call(f, c)
            if r and r[0] == 'func' and r[1] in group:
                out.append(c)
        return out

    FC = cfgmod.build(F.node)

    # ---------------------------------------------------------------- families created
    created = {}
    for c in calls_to(F, mk_helpers):
        fam = family(F, c.args[0]) if c.args else None
        if fam is None:
            R.abstain('C10.a', F, c, 'directory created from a path template the analysis does not recognise')
            continue
        created.setdefault(fam, []).append(c)
    R.floor('C10.a', 'directory families created per output partition', len(created), 2)

    # ---------------------------------------------------------------- the per-partition consolidation task
    task = None
    task_call = None
    for c in astq.own_calls(F):
        if isinstance(c.func, ast.Call):
            r = P.resolve_call(F, c)
            if r and r[0] == 'func' and r[1].parent is F:
                fams = [family(F, a) for a in c.args]
                if 'tmp' in fams and 'out' in fams:
                    task, task_call = r[1], c
    if task is None:
        raise AnalysisError('C10: per-partition consolidation task (delayed call receiving a temp path and an output path) not found')
    params = task.params
    fam_param = {}
    for i, a in enumerate(task_call.args):
        fm = family(F, a)
        if fm and i < len(params):
            fam_param[fm] = params[i]
    tmp_p, out_p = fam_param['tmp'], fam_param['out']
    R.sample({'task': task.qualname, 'tmp_param': tmp_p, 'out_param': out_p,
              'tmp_template': repr(astq.template(F, task_call.args[params.index(tmp_p)])),
              'out_template': repr(astq.template(F, task_call.args[params.index(out_p)]))})

    TC = cfgmod.build(task.node)

    def stmts_calling(f, C, group, argname):
        ns = []
        for c in calls_to(f, group):
            if c.args and isinstance(c.args[0], ast.Name) and c.args[0].id == argname:
                s = _stmt(c)
                n = C.node(s)
                if n is not None:
                    ns.append(n)
        return ns

    rm_tmp = stmts_calling(task, TC, rm_helpers, tmp_p)
    rm_out = stmts_calling(task, TC, rm_helpers, out_p)

    # C10.a: every normal path removes both families
    for fam, p, nodes in (('tmp', tmp_p, rm_tmp), ('out', out_p, rm_out)):
        cond = bool(nodes) and TC.every_path_passes(TC.ENTRY, TC.EXIT, nodes)
        leak = None
        if not cond:
            # find an offending exit for the report
            reach = TC.reachable_from(TC.ENTRY, blocked=nodes)
            rets = [TC.stmt[n] for n in reach if isinstance(TC.stmt[n], ast.Return)]
            leak = norm(rets[0]) if rets else 'end of function'
        R.check(cond, 'C10.a', task, task.node.body[0] if False else None,
                f'every normal path of {task.name} removes the {fam} directory ({p})',
                f'a normal path of {task.name} reaches `{leak}` without removing the {fam} directory ({p}): it is left behind'
                + (' (as a directory where a part file is expected)' if fam == 'out' else ''),
                construct=f'{task.name}: remove({p}) on every path', family=fam, removals=len(nodes))

    # ---------------------------------------------------------------- C10.b ordering
    # (1) overwrite removal precedes every makedirs
    mk_nodes = [FC.node(_stmt(c)) for c in calls_to(F, mk_helpers)]
    over = None
    for s in walk_own(F.node):
        if isinstance(s, ast.If) and 'overwrite' in astq.names_in(s.test):
            for c in calls_to(F, rm_helpers):
                if _within(c, s.body) and c.args and isinstance(astq.trace(F, c.args[0]), tuple):
                    over = s
    if over is None:
        R.bad('C10.b', F, None, 'no `if overwrite: remove(path)` found: a pre-existing dataset is not replaced',
              construct='overwrite removal')
    else:
        on = FC.node(over)
        ok = all(n is not None and FC.dominates(on, n) for n in mk_nodes)
        R.check(ok, 'C10.b', F, over, 'overwrite removal dominates every makedirs',
                'a makedirs can run before the overwrite removal: the new placeholder directories are deleted or old files survive')
    # (2) placeholder removed before the write of the same path; (3) read before delete
    def _writes(k):
        return any(x.startswith('open:') and not x.startswith('open:r') for x in k)
    writers = [g for g, k in helpers.values() if _writes(k)]
    readers = [g for g, k in helpers.values() if 'ls' in k and g not in rm_helpers and not _writes(k)]
    w_nodes = []
    for c in calls_to(task, writers):
        if any(isinstance(a, ast.Name) and a.id == out_p for a in c.args):
            w_nodes.append(TC.node(_stmt(c)))
    R.floor('C10.b', 'writes of the final part file in the consolidation task', len(w_nodes), 1)
    for wn in w_nodes:
        ok = TC.every_path_passes(TC.ENTRY, wn, rm_out)
        R.check(ok, 'C10.b', task, TC.stmt[wn], 'removal of the placeholder directory dominates the open-for-write of the same path',
                'the final part file can be opened for writing while the placeholder directory of the same name still exists')
    r_nodes = [TC.node(_stmt(c)) for c in calls_to(task, readers) if any(isinstance(a, ast.Name) and a.id == tmp_p for a in c.args)]
    R.floor('C10.b', 'reads of the sub-part directory in the consolidation task', len(r_nodes), 1)
    for rn in r_nodes:
        bad = [n for n in rm_tmp if TC.can_reach(n, rn)]
        R.check(not bad, 'C10.b', task, TC.stmt[rn], 'the sub-parts are read before their directory is removed',
                'the temp directory can be removed before its sub-parts are read')
        for wn in w_nodes:
            R.check(TC.dominates(rn, wn), 'C10.b', task, TC.stmt[wn], 'the written part is the one read from the sub-parts (read dominates write)',
                    'the part file can be written on a path that never read the sub-parts')
    # (3b) Hilbert order inside the part: the frame read from the sub-parts is sorted by its index on EVERY path to the write (sub-parts come from several input
    #      partitions in arbitrary order; a "single sub-part is already sorted" shortcut holds only if the writer of the sub-parts sorted by the SAME key)
    sorts = [TC.node(_stmt(c)) for c in astq.own_calls(task) if isinstance(c.func, ast.Attribute) and c.func.attr in ('sort_index', 'sort_values')]
    sorts = [n_ for n_ in sorts if n_ is not None]
    for wn in w_nodes:
        ok = bool(sorts) and TC.every_path_passes(TC.ENTRY, wn, sorts)
        R.check(ok, 'C10.b', task, TC.stmt[wn], 'the part is sorted by its Hilbert-distance index on every path to the write',
                'the part can be written without having been sorted by its index: rows inside the partition are not in Hilbert order (returned frame and re-read alike)',
                construct='sort before write on every path')
    # (4) metadata files on every path to the return; return = read_parquet_dask(path, ...)
    meta_writers = {}
    for name, (g, k) in helpers.items():
        if _writes(k):
            for c in astq.own_calls(g):
                if astq.fs_call(c) == 'open':
                    t = astq.template(g, c.args[0]) if c.args else None
                    if t and t[0] == 'join':
                        lit = t[-1][1] if t[-1][0] == 'lit' else None
                        if lit in ('_metadata', '_common_metadata'):
                            meta_writers[lit] = g
                            # ... directly under the dataset path the caller gave (not next to the temp directories, which can lie outside the dataset)
                            root = c.args[0].args[0] if isinstance(c.args[0], ast.Call) and c.args[0].args else None
                            rsrc = astq.sources(F, astq.expand(g, root)) | astq.sources(g, root) if root is not None else set()
                            pathp = F.params[1] if len(F.params) > 1 else 'path'
                            tmpish = {n_ for n_ in rsrc if 'tmp' in n_.lower() or n_ == 'tempdir_format'}
                            R.check(root is not None and pathp in rsrc and not tmpish, 'C10.c', g, c, f'{lit} is written directly under the dataset path',
                                    f'`{norm(c.args[0])}`: the directory of {lit} derives from {sorted(tmpish) or sorted(rsrc)}, not from the dataset path alone: with temp directories outside the dataset '
                                    f'the file lands next to them and the dataset is left without {lit}', construct=f'{lit} under the dataset path')
    for lit in ('_metadata', '_common_metadata'):
        g = meta_writers.get(lit)
        if g is None:
            R.bad('C10.b', F, None, f'no retried writer opens {lit} for writing', construct=f'writer of {lit}')
            continue
        ns = [FC.node(_stmt(c)) for c in calls_to(F, [g])]
        # ... or handed to an executor whose future is asked for its result (the statement that submits it stands for the call)
        for c in astq.own_calls(F):
            if isinstance(c.func, ast.Attribute) and c.func.attr in ('submit', 'map', 'apply') and any(isinstance(a_, ast.Name) and a_.id == g.name for a_ in c.args):
                st_ = _stmt(c)
                if st_ is not None and FC.node(st_) is not None:
                    ns.append(FC.node(st_))
        ns = [x for x in ns if x is not None]
        ok = bool(ns) and FC.every_path_passes(FC.ENTRY, FC.EXIT, ns)
        R.check(ok, 'C10.b', F, None, f'{lit} is written on every path to the return', f'a path returns without writing {lit}',
                construct=f'write {lit} on every path')
    rets = [s for s in walk_own(F.node) if isinstance(s, ast.Return)]
    for rt in rets:
        v = rt.value
        ok = isinstance(v, ast.Call) and astq.is_call_to(P, F, v, P.find_func('spatialpandas.io.parquet', 'read_parquet_dask')) \
            and v.args and isinstance(astq.trace(F, v.args[0]), tuple) and astq.trace(F, v.args[0])[2] == 'path'
        R.check(ok, 'C10.b', F, rt, 'returns a fresh read_parquet_dask(path) of the written dataset',
                'the returned frame is not a fresh read of the dataset path')
    R.floor('C10.b', 'return statements', len(rets), 1)

    for g in [F] + list(F.nested.values()):
        for c in astq.own_calls(g):
            if norm(c.func).endswith('json.dumps') and any(k.arg == 'allow_nan' and norm(k.value) == 'False' for k in c.keywords):
                R.bad('C10.b', g, c, f'`{norm(c)}` refuses NaN bounds: with an all-missing partition the call raises after the parts and _metadata were written, leaving the dataset '
                                     f'without _common_metadata')
    # ---------------------------------------------------------------- C10.c naming
    out_tpls = []
    for c in created.get('out', []):
        out_tpls.append(('placeholder', c, astq.strip_vals(astq.template(F, c.args[0]))))
    final_arg = task_call.args[params.index(out_p)]
    ft = astq.strip_vals(astq.template(F, final_arg))
    for kind, c, t in out_tpls:
        R.check(t == ft, 'C10.c', F, c, 'placeholder directory and final part file share one name template',
                f'placeholder template {t} differs from final part template {ft}: the placeholder is never replaced/removed')
    # the loop domains: placeholders for k in out_partitions, tasks for k in out_partitions, out_partitions = list(range(npartitions))
    dom = _loop_domain(F, task_call)
    dom2 = [_loop_domain(F, c) for c in created.get('out', []) + created.get('tmp', [])]
    okdom = dom is not None and all(d == dom for d in dom2)
    R.check(okdom, 'C10.c', F, task_call, 'placeholders, temp dirs and consolidation tasks range over the same partition numbers',
            f'partition-number domains differ: tasks over {dom}, directories over {dom2}')
    if dom is not None:
        g, d = astq.unique_def(F, dom) if isinstance(dom, str) else (None, None)
        src = norm(d) if isinstance(d, ast.AST) else str(d)
        R.check(isinstance(d, ast.AST) and 'range(' in src and 'npartitions' in src, 'C10.c', F, d if isinstance(d, ast.AST) else None,
                'partition numbers are range(npartitions)', f'partition numbers are {src}, not range(npartitions)',
                construct=f'{dom} = {src}')
    # sub-part naming in the writer task
    wtask = None
    wcall = None
    for c in astq.own_calls(F):
        if isinstance(c.func, ast.Call):
            r = P.resolve_call(F, c)
            if r and r[0] == 'func' and r[1].parent is F and r[1] is not task:
                wtask, wcall = r[1], c
    if wtask is None:
        raise AnalysisError('C10.c: per-input-partition writer task not found')
    # which parameter receives the input partition number (enumerate index)?
    idx_param = None
    comp = _enclosing_comp(wcall)
    if comp is not None:
        for gen in comp.generators:
            if isinstance(gen.iter, ast.Call) and norm(gen.iter.func) == 'enumerate' and isinstance(gen.target, ast.Tuple):
                iv = gen.target.elts[0]
                for i, a in enumerate(wcall.args):
                    if isinstance(a, ast.Name) and isinstance(iv, ast.Name) and a.id == iv.id:
                        idx_param = wtask.params[i]
    if idx_param is None:
        R.abstain('C10.c', F, wcall, 'cannot tell which argument of the writer task is the input partition number')
    else:
        found = 0
        for c in calls_to(wtask, writers):
            if len(c.args) < 2:
                continue
            t = astq.template(wtask, c.args[1])
            found += 1
            groupvar = _groupby_var(wtask)
            d_ = t[1] if t[0] == 'join' and len(t) > 1 else None
            if d_ is not None and d_[0] == 'index' and len(d_) == 3 and d_[1][0] == 'each' and len(d_[1]) == 4 and d_[1][3] and d_[1][1][0] == 'format':
                # a list of temp directories built for partition numbers 0..n-1, indexed by the group's partition number: element k is the directory of partition k
                fmt_, var_ = d_[1][1], d_[1][2]
                ok_dir = var_ is not None and var_ in dict(fmt_[2]).get('partition', ()) and groupvar is not None and groupvar in d_[2]
                t = ('join', fmt_) + tuple(t[2:])
            else:
                ok_dir = t[0] == 'join' and t[1][0] == 'format' and any(k == 'partition' for k, _ in t[1][2])
                part_names = dict(t[1][2]).get('partition', ()) if ok_dir else ()
                ok_dir = ok_dir and groupvar is not None and groupvar in part_names
            last = t[-1] if t[0] == 'join' else t
            ok_file = last[0] == 'fstr' and any(p[0] == 'val' and idx_param in p[1] for p in last)
            R.check(ok_dir, 'C10.c', wtask, c, 'sub-part is written under the temp dir of its own output partition number',
                    f'sub-part directory {t[1] if t[0] == "join" else t} is not the temp dir formatted with the group\'s output partition number')
            R.check(ok_file, 'C10.c', wtask, c, f'sub-part file name contains the input partition number ({idx_param})',
                    f'sub-part file name {last} does not contain the input partition number ({idx_param}): different input partitions overwrite each other')
            # same temp template as the directories that were created
            tt = astq.strip_vals(t[1]) if t[0] == 'join' else None
            ct = [astq.strip_vals(astq.template(F, cc.args[0])) for cc in created.get('tmp', [])]
            R.check(tt is not None and all(x == tt for x in ct), 'C10.c', wtask, c,
                    'sub-parts are written into the temp directories that were created (same template)',
                    f'sub-part directory template {tt} differs from the created temp directories {ct}')
        R.floor('C10.c', 'sub-part write sites', found, 1)
    # compaction: i-th non-empty part moves to i-th name
    mv = calls_to(F, mv_helpers)
    if not mv:
        # renumbering without per-file moves: copies followed by removals.  Sources and targets overlap (the i-th non-empty part moves to name i, which
        # can be the old name of another non-empty part), so removing "the sources" wholesale deletes files that were just written as targets.
        srcs = set()
        for s_ in walk_own(F.node):
            if isinstance(s_, ast.Assign) and isinstance(s_.targets[0], ast.Tuple) and isinstance(s_.value, ast.Call) and norm(s_.value.func) == 'zip' \
                    and any(isinstance(a_, ast.Starred) for a_ in s_.value.args) and 'is not None' in norm(s_.value):
                srcs |= {e_.id for e_ in s_.targets[0].elts if isinstance(e_, ast.Name)}
        tainted = set(srcs)
        changed = bool(tainted)
        while changed:
            changed = False
            for s_ in walk_own(F.node):
                if isinstance(s_, ast.Assign) and astq.names_in(s_.value) & tainted:
                    for t_ in s_.targets:
                        for nm_ in ast.walk(t_):
                            if isinstance(nm_, ast.Name) and nm_.id not in tainted:
                                tainted.add(nm_.id)
                                changed = True
        bulk = [c_ for c_ in calls_to(F, rm_helpers) if any(astq.names_in(a_) & tainted for a_ in c_.args)]
        for c_ in bulk:
            e_ = astq.expand(F, c_.args[0])
            excl = any(isinstance(x, ast.Compare) and isinstance(x.ops[0], ast.NotIn) for x in ast.walk(e_)) or any(isinstance(x, ast.BinOp) and isinstance(x.op, ast.Sub) for x in ast.walk(e_)) \
                or 'difference' in norm(e_)
            R.check(excl, 'C10.c', F, c_, 'the renumbering removes only old names that are not new names',
                    f'`{norm(c_)}` removes the old names of the renumbered parts wholesale: an old name can be the new name of another part (parts 0, 2, 3 -> 0, 1, 2: name 2 is both), '
                    'so a file just written as a target is deleted and its rows are lost', construct='bulk renumbering removes targets')
        if not bulk:
            R.floor('C10.c', 'compaction move sites', len(mv), 1)
    # the empty-partition sentinel: the driver drops the results it recognises as "this output partition got no rows" and renumbers the rest.  Producer and
    # filter must agree on what that result looks like: a filter on `is not None` over results that are never None keeps every partition, empty ones included
    nsent = 0
    for comp in [x for x in walk_own(F.node) if isinstance(x, (ast.ListComp, ast.GeneratorExp)) and len(x.generators) == 1 and x.generators[0].ifs]:
        gen = comp.generators[0]
        tvars = {n_.id for n_ in ast.walk(gen.target) if isinstance(n_, ast.Name)}
        for t_ in gen.ifs:
            var = None
            if isinstance(t_, ast.Compare) and len(t_.ops) == 1 and isinstance(t_.ops[0], ast.IsNot) and norm(t_.comparators[0]) == 'None' and isinstance(t_.left, ast.Name):
                var, kind = t_.left.id, 'is not None'
            if var is None or var not in tvars:
                continue
            prods = [g for g in F.nested.values() if g.name in astq.sources(F, gen.iter)]
            for g in prods:
                nsent += 1
                rets = [r_ for r_ in walk_own(g.node) if isinstance(r_, ast.Return)]
                may_none = any(r_.value is None or norm(r_.value) == 'None' for r_ in rets)
                R.check(may_none, 'C10.c', g, rets[0] if rets else None, f'{g.name} can answer None, the result the driver drops as an empty partition',
                        f'the driver keeps the results of {g.name} that are `{kind}`, but {g.name} never returns None: output partitions without rows are not dropped, so the part files are not '
                        'renumbered contiguously (part.0, part.4, part.5 ...) or zero-row part files are kept', construct='empty-partition sentinel agreement')
    R.floor('C10.c', 'empty-partition filters matched with their producer', nsent, 1)
    # after the renumbering the part files carry their FINAL names: the names they were written under (the sources of the moves) are stale.  Reading
    # "the first written part" through such a name fails (or reads another run's file) exactly when part 0 stayed empty and the first file was renamed
    for c in mv:
        lp_ = _enclosing(c, ast.For) or _enclosing(c, ast.ListComp)
        it_ = lp_.iter if isinstance(lp_, ast.For) else (lp_.generators[0].iter if lp_ is not None and lp_.generators else None)
        if not (isinstance(it_, ast.Call) and norm(it_.func) == 'zip' and it_.args and isinstance(it_.args[0], ast.Name)):
            continue
        srcname = it_.args[0].id
        top = c
        while getattr(top, '_parent', None) is not None and top._parent is not F.node:
            top = top._parent
        if top not in F.node.body:
            continue
        later = F.node.body[F.node.body.index(top) + 1:]
        stale = [x for st_ in later for x in ast.walk(st_) if isinstance(x, ast.Name) and x.id == srcname and isinstance(x.ctx, ast.Load)]
        R.check(not stale, 'C10.c', F, stale[0] if stale else c, f'after the renumbering no file is addressed through its old name (`{srcname}`)',
                f'`{srcname}` (the names the parts were written under, before the renumbering) is used after the files were moved to their final names'
                + (f' (line {stale[0].lineno})' if stale else '') + ': when an early partition stayed empty the first entry no longer exists', construct=f'stale part names after renumbering')
    for c in mv:
        loop = _enclosing(c, ast.For)
        comp = None
        if loop is None:
            # `[move(p1, p2) for p1, p2 in zip(...)]`: a list comprehension evaluates its element expression serially, in iteration order
            comp = _enclosing(c, ast.ListComp)
            if comp is not None and len(comp.generators) == 1:
                loop = comp.generators[0]
        # serial, ascending: the moves form a chain (parts 0,2,3 -> 0,1,2: name 2 is the target of one move and the source of the next), so each move must have
        # completed before the next one starts, in ascending order.  A move wrapped into a task (delayed(f)(..), submit(f, ..)) or iterated in reverse breaks the chain.
        direct = isinstance(c.func, (ast.Name, ast.Attribute)) and not (isinstance(c.func, ast.Attribute) and c.func.attr in ('submit', 'map', 'apply_async'))
        rev = False
        if loop is not None:
            it = astq.expand(F, loop.iter)
            rev = any((isinstance(x, ast.Call) and norm(x.func) in ('reversed',)) or (isinstance(x, ast.Slice) and x.step is not None and norm(x.step).startswith('-'))
                      or (isinstance(x, ast.keyword) and x.arg == 'reverse') for x in ast.walk(it))
        R.check(direct and not rev, 'C10.c', F, c, 'the renumbering moves run one after the other, in ascending order (serial chain)',
                f'`{norm(c)}`: the renumbering moves are ' + ('iterated in reverse' if rev else 'wrapped into tasks that may run concurrently or in any order') +
                ': the target name of one move is the source name of the next (parts 0, 2, 3 -> 0, 1, 2), so a later move can overwrite a file before it was moved away',
                construct='renumbering moves not serial')
        ok = False
        detail = ''
        if loop is not None and isinstance(loop.iter, ast.Call) and norm(loop.iter.func) == 'zip' and len(loop.iter.args) >= 2:
            a, b = loop.iter.args[0], loop.iter.args[1]
            da = astq.trace(F, a)
            db = astq.trace(F, b)
            # destination = prefix of the final names of the same length as the sources
            ok_dst = isinstance(db, ast.Subscript) and isinstance(db.slice, ast.Slice) and db.slice.lower is None \
                and db.slice.upper is not None and 'len' in norm(db.slice.upper) and isinstance(a, ast.Name) and a.id in astq.names_in(db.slice.upper) \
                and family(F, db.value) == 'out'
            tgt = [e.id for e in loop.target.elts] if isinstance(loop.target, ast.Tuple) else []
            ok_args = len(c.args) == 2 and [getattr(x, 'id', None) for x in c.args] == tgt
            ok = ok_dst and ok_args
            detail = f'dst={norm(db) if isinstance(db, ast.AST) else db} args={[norm(x) for x in c.args]} targets={tgt}'
        R.check(ok, 'C10.c', F, c, 'compaction moves the i-th non-empty part to the i-th final name',
                'compaction does not move (source i -> final name i): ' + detail)

    # removal is confined to what this call created: a directory ABOVE the formatted temp directories (their dirname / parent) may be a scratch area shared with
    # other running calls and other data
    for h_ in [F] + list(F.nested.values()):
        for c_ in calls_to(h_, rm_helpers) + [c for c in astq.own_calls(h_) if astq.fs_call(c) in ('rm', 'rmdir', 'rm_file', 'delete')]:
            if not c_.args:
                continue
            srcs = astq.sources(h_, c_.args[0])
            e_ = astq.expand(h_, c_.args[0])
            ups = [x for x in ast.walk(e_) if (isinstance(x, ast.Call) and norm(x.func).split('.')[-1] in ('dirname', 'split', 'commonpath', 'commonprefix'))
                   or (isinstance(x, ast.Attribute) and x.attr in ('parent', 'parents'))]
            for nm in srcs:
                for d_ in astq.assignments(h_, nm):
                    v_ = d_[1].iter if isinstance(d_[1], (ast.For, ast.comprehension)) else d_[1]
                    if isinstance(v_, ast.AST):
                        ups += [x for x in ast.walk(v_) if (isinstance(x, ast.Call) and norm(x.func).split('.')[-1] in ('dirname', 'commonpath', 'commonprefix'))
                                or (isinstance(x, ast.Attribute) and x.attr in ('parent', 'parents'))]
            R.check(not ups, 'C10.a', h_, c_, 'only the directories this call formatted and created are removed',
                    f'`{norm(c_)[:70]}` removes a directory obtained with `{norm(ups[0])[:50] if ups else ""}`: the level above the temp directories can be a scratch area shared with other '
                    'running calls (and anything else stored there), which is deleted with it', construct=f'{h_.name}: removal above the created directories')
    # the temp directory template is the caller's (or the default under the dataset): the directories that are created from it are exactly the ones that are
    # removed.  A template that is extended on the way (a sub-directory appended) creates parents that nothing removes
    for st in walk_own(F.node):
        if isinstance(st, (ast.Assign, ast.AugAssign)) and any(isinstance(t_, ast.Name) and t_.id == 'tempdir_format' for t_ in (st.targets if isinstance(st, ast.Assign) else [st.target])):
            self_ref = 'tempdir_format' in astq.names_in(st.value)
            R.check(not self_ref, 'C10.a', F, st, 'tempdir_format is only defaulted, never extended',
                    f'`{norm(st)[:90]}` extends the temp directory template: the directories formatted from the caller\'s template become parents of the ones that are used and removed, '
                    'and are left behind', construct='tempdir_format extended')
    # ---------------------------------------------------------------- C10.d validation before use
    uses = [s for s in walk_own(F.node) if isinstance(s, ast.Call) and isinstance(s.func, ast.Attribute) and s.func.attr == 'format'
            and isinstance(s.func.value, ast.Name) and s.func.value.id == 'tempdir_format']
    val = None
    for s in walk_own(F.node):
        if isinstance(s, ast.If) and 'tempdir_format' in astq.names_in(s.test):
            # find a branch that raises when the replacement field is missing
            for br in ast.walk(s):
                if isinstance(br, ast.If) and any(isinstance(x, ast.Raise) for x in br.body) and '{partition' in norm(br.test):
                    if val is None or s.lineno < val.lineno:
                        val = s     # outermost if/elif chain
    if val is None:
        R.bad('C10.d', F, None, 'tempdir_format is used without validating the {partition} field', construct='tempdir_format validation')
    else:
        vn = FC.node(val)
        ok = all(FC.dominates(vn, FC.node(_stmt(u))) for u in uses if _stmt(u) is not None and FC.node(_stmt(u)) is not None)
        R.check(ok, 'C10.d', F, val.test, 'tempdir_format validation dominates every use in the function body',
                'tempdir_format can be used before it is validated')


def _stmt(node):
    n = node
    while n is not None and not isinstance(n, ast.stmt):
        n = getattr(n, '_parent', None)
    return n


def _within(node, body):
    for s in body:
        for x in ast.walk(s):
            if x is node:
                return True
    return False


def _enclosing(node, typ):
    n = getattr(node, '_parent', None)
    while n is not None:
        if isinstance(n, typ):
            return n
        if isinstance(n, (ast.FunctionDef, ast.Lambda)):
            return None
        n = getattr(n, '_parent', None)
    return None


def _enclosing_comp(node):
    return _enclosing(node, (ast.ListComp, ast.GeneratorExp))


def _loop_domain(F, call):
    """Name of the iterable the enclosing for-loop / comprehension ranges over."""
    n = getattr(call, '_parent', None)
    while n is not None and not isinstance(n, (ast.FunctionDef, ast.Lambda)):
        if isinstance(n, ast.For):
            return norm(n.iter)
        if isinstance(n, (ast.ListComp, ast.GeneratorExp)):
            return norm(n.generators[0].iter)
        n = getattr(n, '_parent', None)
    return None


def _groupby_var(f):
    for s in walk_own(f.node):
        if isinstance(s, ast.For) and isinstance(s.iter, ast.Call) and isinstance(s.iter.func, ast.Attribute) \
                and s.iter.func.attr == 'groupby' and isinstance(s.target, ast.Tuple) and isinstance(s.target.elts[0], ast.Name):
            a = s.iter.args[0] if s.iter.args else None
            if a is not None and astq.const_str(a) == '_partition':
                return s.target.elts[0].id
    return None
