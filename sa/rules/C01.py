"""C01 — the box-intersection test is geometrically exact for every geometry type (partially decided).

 C01.a  units: every comparison is same-axis, every subscript has the right level / base / parity, box edges handed to
        segments_intersect are box corners, cross products have dimension X*Y, in-loop reads stay inside the ring/line and consecutive
        vertices are paired only inside ONE ring/line (12 entry forms -> 13 kernels).
 C01.b  corner-order independence: in every public entry the re-orientation of both axes precedes the first use of the box and
        yields x0 <= x1, y0 <= y1 on all orderings; the _perform_* helpers are reachable only through entries that did this.
 C01.o  the corner-in-polygon step (forward of C02.c: half-open edge rule of the crossing count).
 C01.c  form agreement: scalar, array and array-with-inds reach the same per-element routine with the whole value buffer and offsets of
        the matching level; with inds both the start and the stop offsets are gathered by it and the result has their length; multi-part
        kernels reduce their parts disjunctively.
 C01.d  missing/empty => False: results start all-False, stores are the constant True (or an any() of parts); with a NaN bbox the
        bbox reject / projection shortcut never accepts.
 C01.e  point-like exactness: multipoint test == membership in the closed box; Point and PointArray outside-tests == its negation (and
        agree); segments_intersect_1d == closed interval overlap.
 C01.f  the bbox reject (and any other reject inside the segment loops) is sound: reject => disjoint from the closed box.
 C01.g  the projection shortcut implements its lemma's hypothesis (bbox projection contained in the box projection on one axis, overlapping
        on the other because the reject did not fire).
 C01.h  containment fallback: in the polygon kernel every non-accepting exit is the sound bbox reject or is preceded by a
        point-in-polygon question about a box corner with this element's ring offsets.
 C01.i  orientation decision table: with the sign function abstracted, segments_intersect combines the four orientation signs as
        (b0*b1 <= 0) and (a0*a1 <= 0) on all 49 sign combinations with at most one zero (plus the all-collinear case).
 C01.j  at least three distinct, real box edges are tested against every segment (two are not enough).
Does not decide: the cross-product arithmetic inside the orientation test, the geometric lemma itself, the winding number, exact arithmetic.
"""
import ast
import itertools

import astq
import cfg as cfgmod
import ordeval
from ordeval import Sym, Row, OPQ
from units import Interp, Vals, Tup, Q, Off, OffC, Arr, Const, Sel, Mask, Boolean
from model import walk_own, AnalysisError, full as norm
from rules import geom

EXPLANATION = (
    'Units/levels abstract interpretation of all intersects_bounds forms (scalar, array, array+inds) of the six list kinds down to the numba kernels; '
    'exhaustive order-type evaluation (every weak ordering of the symbols per axis, NaN included) of the comparison-only fragments: box re-orientation, '
    'closed-box vertex test, Point/PointArray tests, 1-d interval overlap, bbox reject, projection shortcut, per-segment rejects; CFG must-pass-through '
    'for the containment fallback; provenance rules for inds gathering and disjunctive reduction. Orientation/winding arithmetic is not decided.')

IX = 'spatialpandas.geometry._algorithms.intersection'
ENTRY_KERNELS = ['multipoints_intersect_bounds', 'lines_intersect_bounds', 'multilines_intersect_bounds', 'polygons_intersect_bounds', 'multipolygons_intersect_bounds']
PER_ELEMENT = ['_perform_line_intersect_bounds', '_perform_polygon_intersect_bounds']


def run(P, R, tier):
    R.assume('S2/S3: x/y interleaving; boxes (x0, y0, x1, y1)')
    units_part(P, R)
    orientation(P, R)
    point_like(P, R)
    reject_and_shortcut(P, R)
    fallback(P, R)
    # C01.n: no answer without the kernel: in every list-backed kind, scalar and array form, each return of intersects_bounds passes through the
    # intersection kernel (a "covering box" or cached-answer fast path skips the missing/empty handling and the exact test)
    from rules import common as _cm
    nk = 0
    for mod, cls, L in list(geom.ARRAYS) + list(geom.SCALARS):
        ci_ = P.cls(f'{geom.G}{mod}.{cls}')
        c2, m2 = P.lookup(ci_, 'intersects_bounds')
        if m2 is None or m2[0] != 'func' or 'oint' == cls[1:5].lower():
            continue
        if cls in ('Point', 'PointArray'):
            continue
        nk += _cm.kernel_on_every_path(P, R, 'C01.n', m2[1], lambda g: g.mod.name.endswith('_algorithms.intersection') and P.is_jit(g), 'the intersection kernel',
                                       'rows are answered without the exact test (missing / empty elements and partial overlaps are decided by the shortcut)')
    R.floor('C01.n', 'returns of the intersects_bounds wrappers', nk, 10)
    from rules import common as _common
    _common.no_fastmath(P, R, 'C01.k', ['spatialpandas.geometry._algorithms.intersection', 'spatialpandas.geometry._algorithms.orientation'])
    orientation_table(P, R)
    box_edges(P, R, tier)
    _common.nan_buffers(P, R, 'C01.l', ['spatialpandas.geometry.point'], floor=1)      # PointArray.x / .y: the coordinates compared with the box corners are float64
    _common.scratch_per_iteration(P, R, 'C01.c', ['spatialpandas.geometry._algorithms.intersection', 'spatialpandas.geometry._algorithms.bounds', 'spatialpandas.geometry._algorithms.measures', 'spatialpandas.geometry.point', 'spatialpandas.geometry.baselist'])
    nmk = _common.masked_offsets(P, R, 'C01.d')
    R.floor('C01.d', 'validity masks attached to offsets', nmk, 2)
    _common.forward(P, R, 'C13', ['C13.b'], 'C01.c', 'a bounding box consulted for element inds[i] is computed from that element (never a cached row of another position)', floor=10)
    _common.forward(P, R, 'C02', ['C02.c'], 'C01.o', 'a box with no edge crossing is decided by its corner lying inside the polygon (point_intersects_polygon): the crossing count obeys one half-open edge rule', floor=1)


# ------------------------------------------------------------------------------------------------------------------ C01.a / C01.c / C01.d
def units_part(P, R):
    I = Interp(P)
    seen = set()
    n = 0
    per_kind = {}
    for mod, cls, L in geom.ARRAYS:
        a = geom.array(P, mod, cls, L)
        for label, inds in (('all', Const(None)), ('inds', Sel(0))):
            ev0 = len(I.events)
            v = geom.call(I, a, 'intersects_bounds', [geom.box(), inds], f'{cls}.intersects_bounds[{label}]')
            n += 1
            geom.flush(R, 'C01.a', I, seen, f'{cls}.intersects_bounds[{label}]')
            evs = I.events[ev0:]
            calls = [(f, node, pl) for k, f, node, pl in evs if k == 'call' and pl[0].mod.name == IX and f is not None and f.name == 'intersects_bounds']
            site = (f'spatialpandas/geometry/{mod}.py', f'{cls}.intersects_bounds')
            R.check(len(calls) == 1, 'C01.c', site, None, f'{cls}.intersects_bounds[{label}] hands the work to one kernel', f'{cls}.intersects_bounds[{label}] calls {len(calls)} kernels',
                    construct=f'{cls}[{label}] kernel call', nontrivial=False)
            for f, node, (callee, args, kwargs) in calls:
                per_kind.setdefault(mod, {})[f'array-{label}'] = _reached(P, callee)
                vals = [x for x in args if isinstance(x, Vals)]
                offs = [x for x in args if isinstance(x, (Off, OffC))]
                res = [x for x in args if isinstance(x, (Mask, Arr))]
                ok = len(vals) == 1 and vals[0].base == 'abs' and vals[0].L == L
                R.check(ok, 'C01.c', f, node, 'the kernel receives the whole (absolute) value buffer', f'the kernel receives {vals!r:.80} — offsets below are absolute positions')
                start, stop = (offs + [None, None])[:2]
                if start is None or stop is None:
                    R.abstain('C01.c', f, node, 'start/stop offsets could not be typed')
                    continue
                g_start, g_stop = getattr(start, 'gathered', False), getattr(stop, 'gathered', False)
                roles = (getattr(start, 'role', None), getattr(stop, 'role', None))
                R.check(roles == ('start', 'stop'), 'C01.c', f, node, 'start offsets = offs[:-1], stop offsets = offs[1:] of the same level-0 offsets',
                        f'start/stop offsets have roles {roles}: element i would not be [offs[i], offs[i+1])')
                if label == 'inds':
                    R.check(g_start and g_stop, 'C01.c', f, node, 'with inds BOTH the start and the stop offsets are gathered by it',
                            f'with inds only {"the start" if g_start else "the stop" if g_stop else "neither"} offsets are gathered: elements are tested against another element\'s end',
                            construct=f'{cls}[inds] gather start+stop')
                else:
                    R.check(not g_start and not g_stop, 'C01.c', f, node, 'without inds the offsets are used whole', 'offsets are gathered although no inds were given', nontrivial=False)
                # result length = len(gathered offsets)
                rd = None
                for s in walk_own(f.node):
                    if isinstance(s, ast.Assign) and isinstance(s.value, ast.Call) and norm(s.value.func) == 'np.zeros' and 'bool' in norm(s.value):
                        rd = s
                okr = rd is not None and 'len(' in norm(rd.value.args[0]) and any(isinstance(a_, ast.Name) and a_.id in norm(rd.value.args[0]) for a_ in node.args[5:8])
                R.check(okr, 'C01.d', f, rd, 'the result buffer is all-False and has one slot per tested element', 'the result buffer is not np.zeros(len(<start or stop offsets>), bool)')
        # scalar form
    for mod, cls, L in geom.SCALARS:
        s = geom.scalar(P, mod, cls, L)
        ev0 = len(I.events)
        v = geom.call(I, s, 'intersects_bounds', [geom.box()], f'{cls}.intersects_bounds')
        n += 1
        geom.flush(R, 'C01.a', I, seen, f'{cls}.intersects_bounds')
        evs = I.events[ev0:]
        calls = [(f, node, pl) for k, f, node, pl in evs if k == 'call' and pl[0].mod.name == IX and f is not None and f.name == 'intersects_bounds']
        for f, node, (callee, args, kwargs) in calls:
            per_kind.setdefault(mod, {})['scalar'] = _reached(P, callee)
            vals = [x for x in args if isinstance(x, Vals)]
            R.check(len(vals) == 1 and vals[0].base == 'abs', 'C01.c', f, node, 'scalar form: the kernel receives the whole value buffer', f'scalar form: the kernel receives {vals!r:.60}')
        # reduction of a multi-part scalar
        ci_, mem_ = P.lookup(P.cls(f'{geom.G}{mod}.{cls}'), 'intersects_bounds')
        f = mem_[1]
        rets = [x for x in walk_own(f.node) if isinstance(x, ast.Return)]
        for rt in rets:
            t = norm(rt.value)
            ok = t.endswith('[0]') or t.endswith('.any()')
            R.check(ok, 'C01.c', f, rt, 'scalar result is the single slot or the disjunction (.any()) of its parts', f'scalar result `{t}` is not result[0] / result.any()')
    geom.stats(R, I)
    R.floor('C01.a', 'entry forms typed', n, 18)
    # same per-element routine for scalar / array / inds
    for mod, forms in per_kind.items():
        vals = list(forms.values())
        ok = all(v == vals[0] for v in vals) and len(forms) == 3
        R.check(ok, 'C01.c', (f'spatialpandas/geometry/{mod}.py', mod), None, f'{mod}: scalar, array and array+inds reach the same per-element routine {sorted(vals[0]) if vals else None}',
                f'{mod}: the forms reach different per-element routines: {forms}', construct=f'{mod} form agreement')
    # disjunctive reduction and monotone stores in the kernels
    for name in ENTRY_KERNELS + PER_ELEMENT:
        f = P.func(IX, name)
        resp = f.params[-1]
        for s in ast.walk(f.node):
            if isinstance(s, ast.Assign) and isinstance(s.targets[0], ast.Subscript) and norm(s.targets[0].value) == resp:
                t = norm(s.value)
                ok = t == 'True' or t.endswith('.any()')
                R.check(ok, 'C01.d', f, s, 'an element is only ever switched to True (or to the disjunction of its parts)',
                        f'`{norm(s)}` can write something else than True / any(parts): an element found intersecting can be reset, or a conjunction is taken over parts')
        fills = [c for c in astq.own_calls(f) if isinstance(c.func, ast.Attribute) and c.func.attr == 'fill' and norm(c.func.value) == resp]
        if name in ENTRY_KERNELS:
            ok = bool(fills) and all(norm(c.args[0]) == 'False' for c in fills)
            R.check(ok, 'C01.d', f, fills[0] if fills else None, 'the kernel starts from an all-False result', 'the kernel does not reset its result to False')
    # _perform_* helpers are reachable only through the entry kernels
    for h in PER_ELEMENT:
        hf = P.func(IX, h)
        callers = {f.qualname for f in P.all_funcs() for c, g in P.callees(f) if g is hf}
        R.check(callers <= set(ENTRY_KERNELS), 'C01.b', hf, None, f'{h} is called only by the entry kernels (which re-orient the box): {sorted(callers)}',
                f'{h} is also called from {sorted(callers - set(ENTRY_KERNELS))}: the box may reach it un-oriented', construct=f'callers of {h}')


def _reached(P, callee):
    out = set()
    for f in P.reachable([callee], follow_nested=False):
        if f.name in PER_ELEMENT:
            out.add(f.name)
    if not out:
        out.add(callee.name)
    return frozenset(out)


# ------------------------------------------------------------------------------------------------------------------ C01.b
def orientation(P, R):
    sites = [P.func(IX, n) for n in ENTRY_KERNELS] + [P.func(geom.G + 'point', 'Point.intersects_bounds'), P.func(geom.G + 'point', 'PointArray.intersects_bounds')]
    total = 0
    for f in sites:
        jit = f.mod.name == IX
        names = f.params[:4] if jit else None
        bad = []
        stopped_at = None
        for ox in ordeval.orderings(2):
            for oy in ordeval.orderings(2):
                total += 1
                X0, X1 = Sym(ox[0], 'xa', 'X'), Sym(ox[1], 'xb', 'X')
                Y0, Y1 = Sym(oy[0], 'ya', 'Y'), Sym(oy[1], 'yb', 'Y')
                env = {'self': OPQ}
                if jit:
                    env.update(dict(zip(names, [X0, Y0, X1, Y1])))
                else:
                    env[f.params[1]] = Row([X0, Y0, X1, Y1])
                I = ordeval.Interp(env, {'opaque_test': lambda i_, n_: False})
                first_use = None
                boxnames = None
                try:
                    for s in f.body:
                        if isinstance(s, ast.Expr) and isinstance(s.value, ast.Constant):
                            continue
                        if boxnames is None and not jit and isinstance(s, ast.Assign) and isinstance(s.targets[0], ast.Tuple) and len(s.targets[0].elts) == 4:
                            I.stmt(s)
                            boxnames = [e.id for e in s.targets[0].elts]
                            continue
                        bn = names if jit else boxnames
                        if bn and not isinstance(s, ast.If) and any(isinstance(x, ast.Name) and x.id in bn and isinstance(x.ctx, ast.Load) for x in ast.walk(s)) \
                                and (isinstance(s, (ast.For, ast.While, ast.Return)) or any(isinstance(x, (ast.Compare, ast.Call)) for x in ast.walk(s))):
                            first_use = s
                            break
                        if isinstance(s, ast.If) and bn and any(isinstance(x, ast.Name) and x.id in bn for x in ast.walk(s.test)) and not _is_swap(s, bn):
                            first_use = s
                            break
                        I.stmt(s)
                except ordeval.Ctl:
                    pass
                except (ordeval.NotComparisonOnly, ordeval.AxisMismatch) as e:
                    bad.append(f'not evaluable: {e}')
                    break
                bn = names if jit else boxnames
                if not bn:
                    bad.append('box unpacking not found')
                    break
                v = [I.env.get(k) for k in bn]
                if not all(isinstance(x, Sym) for x in v):
                    bad.append('box corners lost')
                    break
                stopped_at = first_use
                if not (v[0].tag == 'X' and v[2].tag == 'X' and v[1].tag == 'Y' and v[3].tag == 'Y' and v[0].rank <= v[2].rank and v[1].rank <= v[3].rank):
                    bad.append(f'corners (x:{ox}, y:{oy}) reach the first use as x=({v[0]},{v[2]}) y=({v[1]},{v[3]})')
        R.count('orderings', 9)
        R.check(not bad, 'C01.b', f, stopped_at, f'{f.qualname}: before the first use of the box x0 <= x1 and y0 <= y1 hold for every corner order',
                f'{f.qualname}: the box is used un-oriented: {bad[:2]}', construct=f'{f.name} re-orientation', counterexamples=bad[:4])
    R.exhaustive_sites['C01.b re-orientation (7 entries x 9 corner orders)'] = True


def _is_swap(s, bn):
    body = astq.real(s.body)
    if len(body) != 1 or astq.real(s.orelse):
        return False
    b = body[0]
    return isinstance(b, ast.Assign) and isinstance(b.targets[0], ast.Tuple) and isinstance(b.value, ast.Tuple) and \
        sorted(x.id for x in b.targets[0].elts if isinstance(x, ast.Name)) == sorted(x.id for x in b.value.elts if isinstance(x, ast.Name))


# ------------------------------------------------------------------------------------------------------------------ C01.e
def box_env(cx, cy, names):
    X0, X1 = Sym(cx[0], 'x0', 'X'), Sym(cx[1], 'x1', 'X')
    Y0, Y1 = Sym(cy[0], 'y0', 'Y'), Sym(cy[1], 'y1', 'Y')
    return dict(zip(names, [X0, Y0, X1, Y1]))


def point_like(P, R):
    # closed-box vertex tests in the kernels: find `if a <= x <= b and c <= y <= d:` style tests in loops reading values[j], values[j+1]
    cases1 = [o for o in ordeval.orderings(3) if o[0] <= o[1]]          # (q0, q1, v) with q0 <= q1
    nsites = 0
    for name in ['multipoints_intersect_bounds'] + PER_ELEMENT:
        f = P.func(IX, name)
        bn = f.params[:4] if name in ENTRY_KERNELS else f.params[1:5]
        for loop in [l for l in ast.walk(f.node) if isinstance(l, ast.For)]:
            tests = [s for s in loop.body if isinstance(s, ast.If) and all(b in astq.names_in(s.test) for b in bn) and len(astq.names_in(s.test)) == 6]
            for t in tests:
                vx, vy = None, None
                for s in loop.body:
                    if isinstance(s, ast.Assign) and isinstance(s.targets[0], ast.Name) and isinstance(s.value, ast.Subscript):
                        idx = norm(s.value.slice)
                        if '+ 1' in idx:
                            vy = s.targets[0].id
                        else:
                            vx = s.targets[0].id
                if vx is None or vy is None:
                    continue
                nsites += 1
                bad = []
                total = 0
                for cx in cases1:
                    for cy in cases1:
                        total += 1
                        env = box_env((cx[0], cx[1]), (cy[0], cy[1]), bn)
                        env[vx] = Sym(cx[2], 'x', 'X')
                        env[vy] = Sym(cy[2], 'y', 'Y')
                        try:
                            I = ordeval.Interp(env, {})
                            got = I.truth(I.expr(t.test), t.test)
                        except ordeval.AxisMismatch as e:
                            R.bad('C01.a', f, e.node, f'vertex test mixes axes: {e.a.name} with {e.b.name}')
                            bad = None
                            break
                        except ordeval.NotComparisonOnly as e:
                            bad = None
                            R.abstain('C01.e', f, t.test, f'vertex test is not comparison-only: {e}')
                            break
                        want = cx[0] <= cx[2] <= cx[1] and cy[0] <= cy[2] <= cy[1]
                        exact = name == 'multipoints_intersect_bounds'
                        if (exact and got != want) or (not exact and got and not want):
                            bad.append({'x(q0,q1,v)': cx, 'y(q0,q1,v)': cy, 'accepted': got, 'in_closed_box': want})
                    if bad is None:
                        break
                if bad is None:
                    continue
                R.count('orderings', total)
                if name == 'multipoints_intersect_bounds':
                    R.check(not bad, 'C01.e', f, t.test, f'multipoint test == membership of the vertex in the closed box (all {total} orderings, degenerate boxes included)',
                            f'multipoint test differs from closed-box membership on {len(bad)} orderings, e.g. {bad[:2]}', counterexamples=bad[:5])
                else:
                    R.check(not bad, 'C01.e', f, t.test, f'{name}: the vertex shortcut accepts only vertices inside the closed box (sound on all {total} orderings)',
                            f'{name}: the vertex shortcut accepts a vertex outside the closed box on {len(bad)} orderings, e.g. {bad[:2]}', counterexamples=bad[:5])
    R.floor('C01.e', 'vertex-in-box test sites', nsites, 3)
    R.exhaustive_sites['C01.e vertex tests (36 x 36 orderings each)'] = True
    # Point / PointArray
    pf = P.func(geom.G + 'point', 'Point.intersects_bounds')
    af = P.func(geom.G + 'point', 'PointArray.intersects_bounds')
    res = {}
    cases = [o for o in ordeval.orderings(3)] + [(0, 0, None), (0, 1, None), (1, 0, None)]
    for f in (pf, af):
        out = {}
        for cx in cases:
            for cy in cases:
                if (cx[2] is None) != (cy[2] is None):
                    continue
                xs, ys = Sym(cx[2], 'px', 'X'), Sym(cy[2], 'py', 'Y')
                env = {'self': OPQ, f.params[1]: Row([Sym(cx[0], 'xa', 'X'), Sym(cy[0], 'ya', 'Y'), Sym(cx[1], 'xb', 'X'), Sym(cy[1], 'yb', 'Y')])}
                if len(f.params) > 2:
                    env[f.params[2]] = None

                def attr(I, e, xs=xs, ys=ys):
                    if norm(e) == 'self.x':
                        return xs
                    if norm(e) == 'self.y':
                        return ys
                    return None
                try:
                    I, ctl = ordeval.run_fragment(f.body, env, {'attr': attr, 'opaque_test': lambda i_, n_: False})
                except (ordeval.NotComparisonOnly, ordeval.AxisMismatch) as e:
                    R.abstain('C01.e', f, None, f'{f.qualname} is not comparison-only: {e}')
                    out = None
                    break
                out[(cx, cy)] = bool(ctl.val) if ctl is not None and ctl.kind == 'return' and isinstance(ctl.val, bool) else None
            if out is None:
                break
        res[f.qualname] = out
    for f in (pf, af):
        out = res.get(f.qualname)
        if out is None:
            continue
        bad = []
        for (cx, cy), got in out.items():
            if cx[2] is None:
                want = False
            else:
                want = min(cx[0], cx[1]) <= cx[2] <= max(cx[0], cx[1]) and min(cy[0], cy[1]) <= cy[2] <= max(cy[0], cy[1])
            if got is None or got != want:
                bad.append({'x(qa,qb,p)': cx, 'y(qa,qb,p)': cy, 'got': got, 'in_closed_box': want})
        R.count('orderings', len(out))
        R.check(not bad, 'C01.e', f, None, f'{f.qualname} == membership in the closed box for either corner order; a missing (NaN) point gives False ({len(out)} cases)',
                f'{f.qualname} differs from closed-box membership on {len(bad)} cases, e.g. {bad[:2]}', construct=f'{f.qualname} exactness', counterexamples=bad[:5])
    if res.get(pf.qualname) is not None and res.get(af.qualname) is not None:
        diff = [k for k in res[pf.qualname] if res[pf.qualname][k] != res[af.qualname].get(k)]
        R.check(not diff, 'C01.c', af, None, 'Point and PointArray forms agree on every ordering', f'Point and PointArray forms disagree on {len(diff)} orderings, e.g. {diff[:2]}',
                construct='Point vs PointArray')
    # C01.l: the scalar form compares in double precision like the array form (whose x/y are NaN-filled float64 arrays): a float32
    # numpy scalar compared with a Python number demotes the number to float32 (NumPy >= 2), so 16777217 becomes 16777216
    ncmp = 0
    for c in [n for n in walk_own(pf.node) if isinstance(n, ast.Compare)]:
        for side in [c.left] + list(c.comparators):
            e = astq.expand(pf, side)
            raw = [a for a in ast.walk(e) if isinstance(a, ast.Attribute) and isinstance(a.value, ast.Name) and a.value.id == 'self' and a.attr in ('x', 'y')]
            if not raw:
                continue
            ncmp += 1
            wrapped = all(any(isinstance(w, ast.Call) and norm(w.func) in ('float', 'np.float64', 'numpy.float64') and any(x is a for x in ast.walk(w)) for w in ast.walk(e)) for a in raw)
            R.check(wrapped, 'C01.l', pf, c, 'the scalar point coordinate is widened to double precision before it is compared with the box (as in the array form)',
                    f'`{norm(c)}` compares the raw numpy scalar `{norm(raw[0])}` with the caller\'s box corner: for a float32 point a Python-number corner is demoted to float32, '
                    'so the scalar form answers differently from the array form near 2^24', construct=f'double-precision compare {norm(side)}')
    R.floor('C01.l', 'coordinate comparisons in Point.intersects_bounds', ncmp, 2)
    # inds handling of the array form
    okinds = any(isinstance(s, ast.If) and 'inds is not None' in norm(s.test) and all(any(norm(x.targets[0]) == v and norm(x.value) == f'{v}[inds]' for x in s.body if isinstance(x, ast.Assign)) for v in _xy_names(af))
                 for s in af.node.body)
    R.check(okinds, 'C01.c', af, None, 'PointArray: with inds both coordinate arrays are gathered by it', 'PointArray: inds does not gather both coordinate arrays', construct='PointArray inds')
    # 1-d interval overlap
    f = P.func(IX, 'segments_intersect_1d')
    bad = []
    tot = 0
    for o in ordeval.orderings(4):
        tot += 1
        env = dict(zip(f.params, [Sym(r, n_, 'A') for r, n_ in zip(o, f.params)]))
        try:
            I, ctl = ordeval.run_fragment(f.body, env, {})
        except (ordeval.NotComparisonOnly, ordeval.AxisMismatch) as e:
            R.abstain('C01.e', f, None, f'segments_intersect_1d is not comparison-only: {e}')
            bad = None
            break
        got = ctl.val if ctl is not None and ctl.kind == 'return' else None
        a0, a1, b0, b1 = o
        want = max(min(a0, a1), min(b0, b1)) <= min(max(a0, a1), max(b0, b1))
        if got is not want and got != want:
            bad.append({'(a0,a1,b0,b1)': o, 'got': got, 'closed_overlap': want})
    if bad is not None:
        R.count('orderings', tot)
        R.check(not bad, 'C01.e', f, None, f'segments_intersect_1d == closed interval overlap on all {tot} orderings (it decides collinear touching segments)',
                f'segments_intersect_1d differs from closed interval overlap on {len(bad)} orderings, e.g. {bad[:2]}', construct='segments_intersect_1d', counterexamples=bad[:5])


def _xy_names(af):
    out = []
    for s in af.node.body:
        if isinstance(s, ast.Assign) and isinstance(s.targets[0], ast.Name) and norm(s.value) in ('self.x', 'self.y'):
            out.append(s.targets[0].id)
    return out or ['xs', 'ys']


# ------------------------------------------------------------------------------------------------------------------ C01.f / C01.g / C01.d(NaN)
def reject_and_shortcut(P, R):
    cases = [o for o in ordeval.orderings(4) if o[0] <= o[1] and o[2] <= o[3]]      # (q0, q1, b0, b1) per axis
    nan = [(0, 1, None, None), (0, 0, None, None)]
    for name in PER_ELEMENT:
        f = P.func(IX, name)
        bn = f.params[1:5]
        resp = f.params[-1]
        # prefix: statements up to (excluding) the first loop
        prefix = []
        for s in f.node.body:
            if isinstance(s, (ast.For, ast.While)):
                break
            prefix.append(s)
        bvar = None
        for s in prefix:
            if isinstance(s, ast.Assign) and isinstance(s.value, ast.Call) and 'total_bounds_interleaved' in norm(s.value.func):
                bvar = s.targets[0].id
        if bvar is None:
            R.abstain('C01.f', f, None, 'bbox computation not found in the per-element routine')
            continue
        bad_rej, bad_acc, bad_nan = [], [], []
        total = 0
        for cx in cases + nan:
            for cy in cases + nan:
                isn = cx[2] is None or cy[2] is None
                if isn and not (cx[2] is None and cy[2] is None):
                    continue
                total += 1
                env = box_env((cx[0], cx[1]), (cy[0], cy[1]), bn)
                env.update({p: OPQ for p in f.params if p not in bn})
                B = Row([Sym(cx[2], 'b.x0', 'X'), Sym(cy[2], 'b.y0', 'Y'), Sym(cx[3], 'b.x1', 'X'), Sym(cy[3], 'b.y1', 'Y')])
                stored = []

                def call(I, e, B=B):
                    if 'total_bounds_interleaved' in norm(e.func):
                        return B
                    return None

                def store(I, t, base, v, stored=stored):
                    if norm(t.value) == resp:
                        stored.append(v)
                try:
                    I, ctl = ordeval.run_fragment(prefix, env, {'call': call, 'store': store, 'opaque_test': lambda i_, n_: False})
                except ordeval.AxisMismatch as e:
                    R.bad('C01.a', f, e.node, f'bbox test mixes axes: {e.a.name} with {e.b.name}')
                    return
                except ordeval.NotComparisonOnly as e:
                    R.abstain('C01.f', f, None, f'bbox reject / shortcut of {name} is not comparison-only: {e}')
                    total = 0
                    break
                returned = ctl is not None and ctl.kind == 'return'
                accepted = bool(stored) and stored[-1] is True
                if isn:
                    if accepted:
                        bad_nan.append({'x': cx, 'y': cy})
                    continue
                disjoint = cx[3] < cx[0] or cx[2] > cx[1] or cy[3] < cy[0] or cy[2] > cy[1]
                cont_x = cx[2] >= cx[0] and cx[3] <= cx[1]
                cont_y = cy[2] >= cy[0] and cy[3] <= cy[1]
                if returned and not accepted and not disjoint:
                    bad_rej.append({'x(q0,q1,b0,b1)': cx, 'y(q0,q1,b0,b1)': cy})
                if accepted and not ((cont_x or cont_y) and not disjoint):
                    bad_acc.append({'x(q0,q1,b0,b1)': cx, 'y(q0,q1,b0,b1)': cy})
            if total == 0:
                break
        if total == 0:
            continue
        R.count('orderings', total)
        R.exhaustive_sites[f'C01.f/g {name} bbox reject + projection shortcut'] = True
        R.check(not bad_rej, 'C01.f', f, None, f'{name}: the bbox reject fires only when the bbox is disjoint from the closed box ({total} cases)',
                f'{name}: the bbox reject drops elements whose bbox touches/overlaps the box on {len(bad_rej)} cases, e.g. {bad_rej[:2]}', construct=f'{name} bbox reject', counterexamples=bad_rej[:5])
        R.check(not bad_acc, 'C01.g', f, None, f'{name}: the early accept fires only when the bbox projection is contained in the box projection on one axis and overlaps on the other',
                f'{name}: the early accept fires without its hypothesis on {len(bad_acc)} cases, e.g. {bad_acc[:2]}: shapes near but outside the box are accepted',
                construct=f'{name} projection shortcut', counterexamples=bad_acc[:5])
        R.check(not bad_nan, 'C01.d', f, None, f'{name}: an element without coordinates (NaN bbox) is never accepted by the bbox tests',
                f'{name}: an element with a NaN bbox (missing / empty) is accepted by the bbox shortcut, e.g. {bad_nan[:2]}', construct=f'{name} NaN bbox', counterexamples=bad_nan[:3])
        # additional rejects inside the segment loops: `if <test>: continue` comparing a segment with the box
        for loop in [l for l in ast.walk(f.node) if isinstance(l, ast.For)]:
            segv = []
            for s in loop.body:
                if isinstance(s, ast.Assign) and isinstance(s.targets[0], ast.Name) and isinstance(s.value, ast.Subscript) and norm(s.value.value) == f.params[5]:
                    segv.append((s.targets[0].id, norm(s.value.slice)))
            if len(segv) != 4:
                continue
            for s in loop.body:
                if isinstance(s, ast.If) and any(isinstance(x, ast.Continue) for x in s.body) and set(astq.names_in(s.test)) & set(bn):
                    names = [n_ for n_, _ in segv]
                    # segment endpoints (e0, e1) per axis: names[0], names[2] are x; names[1], names[3] are y by index parity
                    xn = [n_ for n_, ix in segv if ix.count('+') == 0 or ix.endswith('+ 2')]
                    yn = [n_ for n_, ix in segv if ix.endswith('+ 1') or ix.endswith('+ 3')]
                    seg_cases = [o for o in ordeval.orderings(4) if o[0] <= o[1]]
                    bad = []
                    for cx in seg_cases:
                        for cy in seg_cases:
                            env = box_env((cx[0], cx[1]), (cy[0], cy[1]), bn)
                            env.update({xn[0]: Sym(cx[2], 'ex0', 'X'), xn[1]: Sym(cx[3], 'ex1', 'X'), yn[0]: Sym(cy[2], 'ey0', 'Y'), yn[1]: Sym(cy[3], 'ey1', 'Y')})
                            try:
                                I = ordeval.Interp(env, {})
                                got = I.truth(I.expr(s.test), s.test)
                            except (ordeval.NotComparisonOnly, ordeval.AxisMismatch):
                                bad = None
                                break
                            disjoint = max(cx[2], cx[3]) < cx[0] or min(cx[2], cx[3]) > cx[1] or max(cy[2], cy[3]) < cy[0] or min(cy[2], cy[3]) > cy[1]
                            if got and not disjoint:
                                bad.append({'x(q0,q1,e0,e1)': cx, 'y(q0,q1,e0,e1)': cy})
                        if bad is None:
                            break
                    if bad is None:
                        R.abstain('C01.f', f, s.test, 'per-segment reject is not comparison-only')
                    else:
                        R.check(not bad, 'C01.f', f, s.test, 'per-segment reject is sound (segment bbox disjoint from the closed box)',
                                f'per-segment reject `{norm(s.test)}` skips segments whose bbox touches the closed box on {len(bad)} orderings, e.g. {bad[:2]}: '
                                f'a segment lying on a box edge line is lost', counterexamples=bad[:5])


# ------------------------------------------------------------------------------------------------------------------ C01.j / C01.m
class _PrefixEnd(Exception):
    pass


def _reaches(P, g, target, depth=3, seen=None):
    seen = seen if seen is not None else set()
    if g is target:
        return True
    if depth <= 0 or g.key in seen:
        return False
    seen.add(g.key)
    return any(_reaches(P, h, target, depth - 1, seen) for _, h in P.callees(g))


def _run_edge_test(P, g, vals, rec, si, depth=3, stmts=None, env=None):
    """Interpret repository function g (or, with `stmts`, a fragment of it) on symbolic arguments in the world where no edge test succeeds, so that
    every edge test is visited.  Every invocation of segments_intersect is recorded as (its 8 arguments, outcome of its reject prefix)."""
    env = dict(zip(g.params, vals)) if env is None else env
    is_si = g is si and stmts is None

    def call_hook(I, e, g=g):
        r = P.resolve_call(g, e)
        if not (r and r[0] == 'func') or e.keywords:
            return None
        h = r[1]
        av = [I.expr(x) for x in e.args]
        if is_si:
            # inside the edge test: helpers made of comparisons are interpreted, the first arithmetic helper ends the reject prefix
            try:
                return ordeval.Just(_run_edge_test(P, h, av, rec, si, depth - 1)) if depth > 0 else None
            except ordeval.NotComparisonOnly:
                raise _PrefixEnd()
        if h is si or (depth > 0 and _reaches(P, h, si)):
            return ordeval.Just(_run_edge_test(P, h, av, rec, si, depth - 1))
        return None

    hooks = {'call': call_hook, 'opaque_test': lambda i_, n_: False}
    if env is not None and '__segsub' in env:
        segsub = env['__segsub']

        def sub_hook(I, e, base, segsub=segsub):
            k_ = (norm(e.value), norm(e.slice))
            return segsub.get(k_)
        hooks['subscript'] = sub_hook
    if is_si:
        try:
            I, ctl = ordeval.run_fragment(g.node.body, env, hooks)
        except (_PrefixEnd, ordeval.NotComparisonOnly):
            rec.append((vals, 'passed'))
            return OPQ
        v = ctl.val if ctl is not None and ctl.kind == 'return' else OPQ
        rec.append((vals, 'rejected' if v is False else ('accepted' if v is True else 'passed')))
        return v
    I, ctl = ordeval.run_fragment(stmts if stmts is not None else g.node.body, env, hooks)
    return ctl.val if ctl is not None and ctl.kind == 'return' else None


def box_edges(P, R, tier='quick'):
    """C01.j  A segment without an end point in the closed box that meets the box crosses its boundary on two different edges (or touches one):
    testing any three of the four edges is sufficient, testing only two is not.  Each tested edge must be a real edge (two corners sharing exactly
    one coordinate).  The edges are collected by interpreting the call chain down to segments_intersect (direct calls, helpers, corner tuples walked in
    a loop).
    C01.m  Every reject taken inside segments_intersect before the orientation arithmetic is sound FOR THE ARGUMENTS IT RECEIVES AT THESE CALL SITES:
    rejected  =>  the 1-d projections of the segment and of the edge are disjoint on some axis (all orderings of segment ends and oriented box)."""
    si = P.func(IX, 'segments_intersect')
    # boxes of positive width and height only (the entry kernels return early for degenerate boxes: C01.b / the property's own restriction)
    seg_cases = [o for o in ordeval.orderings(4) if o[0] < o[1]]
    few = [(0, 3, 1, 2), (0, 1, 0, 0), (1, 2, 0, 3), (0, 1, 1, 0)]
    for name in PER_ELEMENT:
        f = P.func(IX, name)
        bn = f.params[1:5]
        sites = []
        for loop in [l for l in ast.walk(f.node) if isinstance(l, ast.For)]:
            segv = []
            for s in loop.body:
                if isinstance(s, ast.Assign) and isinstance(s.targets[0], ast.Name) and isinstance(s.value, ast.Subscript) and norm(s.value.value) == f.params[5]:
                    segv.append((s.targets[0].id, norm(s.value.slice)))
            if len(segv) != 4:
                # the four coordinates of the segment are read in place (`values[k], values[k + 1], values[k + 2], values[k + 3]` as call arguments)
                subs = {}
                for x in [y for st in loop.body for y in ast.walk(st)]:
                    if isinstance(x, ast.Subscript) and norm(x.value) == f.params[5] and isinstance(x.ctx, ast.Load):
                        subs[norm(x.slice)] = x
                if len(subs) == 4 and not segv:
                    keys = sorted(subs, key=lambda t: (t.count('+'), t))
                    base_ = keys[0]
                    order = {base_: 0, f'{base_} + 1': 1, f'{base_} + 2': 2, f'{base_} + 3': 3}
                    if set(order) == set(subs) and any(isinstance(c, ast.Call) and (lambda r: r and r[0] == 'func' and _reaches(P, r[1], si))(P.resolve_call(f, c)) for st in loop.body for c in ast.walk(st)):
                        sites.append((loop, list(loop.body), None, {(f.params[5], k_): v_ for k_, v_ in order.items()}))
                continue
            xn = [n_ for n_, ix in segv if ix.count('+') == 0 or ix.endswith('+ 2')]
            yn = [n_ for n_, ix in segv if ix.endswith('+ 1') or ix.endswith('+ 3')]
            if len(xn) != 2 or len(yn) != 2:
                continue
            seg_assigns = [s for s in loop.body if isinstance(s, ast.Assign) and isinstance(s.targets[0], ast.Name) and s.targets[0].id in (xn + yn)]
            rest = [s for s in loop.body if s not in seg_assigns]
            if any(isinstance(c, ast.Call) and (lambda r: r and r[0] == 'func' and _reaches(P, r[1], si))(P.resolve_call(f, c)) for s in rest for c in ast.walk(s)):
                sites.append((loop, rest, xn, yn))
        if not sites:
            R.abstain('C01.j', f, None, 'no call reaching segments_intersect found in the per-segment loop')
            continue
        edges = set()
        unsound = []
        undecided = False
        ncases = 0
        pairs = [(cx, cy) for cx in seg_cases for cy in (seg_cases if tier == 'thorough' else few)] + ([] if tier == 'thorough' else [(cx, cy) for cx in few for cy in seg_cases])
        def seg_env(env, xn, yn, ranks):
            syms = [Sym(ranks[0], 'ex0', 'X'), Sym(ranks[1], 'ey0', 'Y'), Sym(ranks[2], 'ex1', 'X'), Sym(ranks[3], 'ey1', 'Y')]
            if xn is None:
                env['__segsub'] = {k_: syms[i_] for k_, i_ in yn.items()}       # yn carries the in-place subscripts -> role
            else:
                env.update({xn[0]: syms[0], yn[0]: syms[1], xn[1]: syms[2], yn[1]: syms[3]})
        for loop, rest, xn, yn in sites:
            for cx, cy in pairs:
                env = box_env((cx[0], cx[1]), (cy[0], cy[1]), bn)
                seg_env(env, xn, yn, (cx[2], cy[2], cx[3], cy[3]))
                rec = []
                try:
                    _run_edge_test(P, f, None, rec, si, stmts=rest, env=env)
                except ordeval.Ctl:
                    pass
                except (ordeval.NotComparisonOnly, ordeval.AxisMismatch, _PrefixEnd, RecursionError, KeyError, NameError, TypeError):
                    undecided = True
                    break
                ncases += 1
                for v, outcome in rec:
                    if len(v) != 8 or not all(isinstance(x, Sym) for x in v):
                        undecided = True
                        continue
                    tags = [x.tag for x in v]
                    if tags != ['X', 'Y', 'X', 'Y', 'X', 'Y', 'X', 'Y']:
                        undecided = True
                        continue
                    b = [x.name for x in v[4:8]]
                    if all(n_ in ('x0', 'x1', 'y0', 'y1') for n_ in b):
                        edges.add(((b[0], b[1]), (b[2], b[3])))
                    if outcome == 'rejected':
                        ax, ay, bx, by = (v[0].rank, v[2].rank), (v[1].rank, v[3].rank), (v[4].rank, v[6].rank), (v[5].rank, v[7].rank)
                        ovx = not (max(ax) < min(bx) or min(ax) > max(bx))
                        ovy = not (max(ay) < min(by) or min(ay) > max(by))
                        a_zero = ax[0] == ax[1] and ay[0] == ay[1]      # a repeated vertex is a point: covered by the vertex test and by its neighbours
                        b_zero = bx[0] == bx[1] and by[0] == by[1]      # the same when the segment is handed over second (box edges have positive length)
                        if ovx and ovy and not a_zero and not b_zero:
                            unsound.append({'edge': b, 'x(q0,q1,e0,e1)': cx, 'y(q0,q1,e0,e1)': cy})
            if undecided:
                break
        # NaN world (C01.d): the vertices of a ring or line whose coordinates are NaN - an element that holds vertices but no finite coordinate - must be inert:
        # with both end points of the segment NaN, every edge test is REJECTED in the comparison-only prefix of segments_intersect.  (S15) min / max keep their
        # first operand when the other is NaN, so this depends on which of the two segments is handed over first
        if not undecided:
            R.assume('S15: python / numba min(a, b) and max(a, b) return a when b is NaN (they return b only if it compares smaller / greater)')
            leaks = []
            for loop, rest, xn, yn in sites:
                for cx, cy in [((0, 1), (0, 1))]:
                    env = box_env(cx, cy, bn)
                    seg_env(env, xn, yn, (None, None, None, None))
                    rec = []
                    try:
                        _run_edge_test(P, f, None, rec, si, stmts=rest, env=env)
                    except ordeval.Ctl:
                        pass
                    except (ordeval.NotComparisonOnly, ordeval.AxisMismatch, _PrefixEnd, RecursionError, KeyError, NameError, TypeError):
                        rec = None
                    if rec is None:
                        continue
                    for v, outcome in rec:
                        if outcome != 'rejected':
                            leaks.append([getattr(x, 'name', '?') for x in v] if v else '?')
            R.check(not leaks, 'C01.d', f, None, f'{name}: a segment whose end points are NaN is rejected by every edge test before any arithmetic',
                    f'{name}: with NaN end points the edge test is not rejected in its comparison prefix (arguments {leaks[:1]}): min / max keep their first operand when the second is NaN, '
                    'so with the box edge handed over first the 1-d overlap tests pass, the orientation of NaN reads as collinear and an all-NaN ring "intersects" the box',
                    construct=f'{name}: NaN segment rejected')
        R.count('orderings', ncases)
        if undecided:
            R.abstain('C01.m', f, None, f'{name}: the call chain down to segments_intersect is not interpretable (non-comparison construct before the edge test)')
        else:
            R.check(not unsound, 'C01.m', f, None, f'{name}: every reject inside segments_intersect is sound for the edges it is called with ({ncases} orderings x edges)',
                    f'{name}: segments_intersect rejects a segment whose projections overlap the edge\'s on both axes on {len(unsound)} cases, e.g. {unsound[:2]}: '
                    'the reject assumes an end-point order that these call sites do not provide, so a crossing of that edge is missed',
                    construct=f'{name}: reject soundness at the edge call sites', counterexamples=unsound[:5])
        if not edges:
            R.abstain('C01.j', f, None, 'no edge passed to segments_intersect could be identified')
            continue
        xs, ys = {'x0', 'x1'}, {'y0', 'y1'}
        real_edges = set()
        for (p0, p1) in sorted(edges):
            ok = p0[0] in xs and p1[0] in xs and p0[1] in ys and p1[1] in ys
            real = ok and ((p0[0] == p1[0]) != (p0[1] == p1[1]))
            R.check(real, 'C01.j', f, None, 'the second segment is an edge of the box (two corners sharing exactly one coordinate)',
                    f'`{p0[0]}, {p0[1]}, {p1[0]}, {p1[1]}` is not an edge of the box (diagonal, single corner, or not box corners)', construct=f'{name}: edge {p0}-{p1}')
            if real:
                real_edges.add(frozenset([p0, p1]))
        R.check(len(real_edges) >= 3, 'C01.j', f, None, f'{name} tests {len(real_edges)} distinct box edges (three suffice)',
                f'{name} tests only {len(real_edges)} distinct box edge(s): a segment crossing the box through the untested edges, with both end points outside, is missed',
                construct=f'{name}: distinct box edges tested')


# ------------------------------------------------------------------------------------------------------------------ C01.i
def orientation_table(P, R):
    """segments_intersect combines four orientation signs.  With the sign function abstracted (each triangle_orientation call returns a scripted
    value in {-1, 0, +1}) the remaining decision is a finite table: for non-degenerate segments whose 1-d projections overlap the answer must be
    (b0 * b1 <= 0) and (a0 * a1 <= 0) on every sign combination with at most one zero, and True when all four are zero (collinear, overlapping)."""
    f = P.func(IX, 'segments_intersect')
    tri = P.func('spatialpandas.geometry._algorithms.orientation', 'triangle_orientation')
    one_d = P.func(IX, 'segments_intersect_1d')
    p = f.params
    combos = []
    for t in itertools.product((-1, 0, 1), repeat=4):
        z = sum(1 for v in t if v == 0)
        if z <= 1 or z == 4:
            combos.append(t)
    bad = []
    names = {}
    for t in combos:
        # b0, b1 are orientations of b's end points against line a; a0, a1 of a's end points against line b
        script = {'b0': t[0], 'b1': t[1], 'a0': t[2], 'a1': t[3]}
        env = {p[0]: Sym(0, 'ax0', 'X'), p[1]: Sym(0, 'ay0', 'Y'), p[2]: Sym(3, 'ax1', 'X'), p[3]: Sym(3, 'ay1', 'Y'),
               p[4]: Sym(1, 'bx0', 'X'), p[5]: Sym(2, 'by0', 'Y'), p[6]: Sym(2, 'bx1', 'X'), p[7]: Sym(1, 'by1', 'Y')}

        def call(I, e, script=script):
            r = P.resolve_expr_static(f.mod, e.func)
            if r and r[0] == 'func' and r[1] is one_d:
                return True
            if r and r[0] == 'func' and r[1] is tri:
                a = [norm(x) for x in e.args]
                line_is_a = a[0] == p[0] and a[2] == p[2]
                pt = a[4]
                if line_is_a:
                    return script['b0'] if pt == p[4] else script['b1']
                return script['a0'] if pt == p[0] else script['a1']
            return None
        try:
            I, ctl = ordeval.run_fragment(f.body, env, {'call': call})
        except (ordeval.NotComparisonOnly, ordeval.AxisMismatch) as e:
            R.abstain('C01.i', f, None, f'segments_intersect could not be evaluated with abstracted orientations: {e}')
            return
        got = ctl.val if ctl is not None and ctl.kind == 'return' else None
        want = True if all(v == 0 for v in t) else (t[0] * t[1] <= 0 and t[2] * t[3] <= 0)
        if got is not want and got != want:
            bad.append({'(b0,b1,a0,a1)': t, 'returned': got, 'expected': want})
    R.count('orderings', len(combos))
    R.exhaustive_sites['C01.i orientation decision table (49 sign combinations)'] = True
    R.check(not bad, 'C01.i', f, None, f'segments_intersect combines the four orientation signs as (b0*b1 <= 0) and (a0*a1 <= 0) on all {len(combos)} sign combinations',
            f'segments_intersect decides {len(bad)} sign combinations wrongly, e.g. {bad[:3]}', construct='orientation decision table', counterexamples=bad[:6])
    # zero-length segments: a degenerate segment meets the other only at one of its end points (comparison-only part)
    # the sign function itself: > 0 -> +1, < 0 -> -1, else 0
    rets = {}
    for s in ast.walk(tri.node):
        if isinstance(s, ast.If):
            for l_, op, r_ in astq.cmp_forms(s.test):
                if norm(r_) == '0' and astq.real(s.body) and isinstance(astq.real(s.body)[0], ast.Return):
                    rets[op] = norm(astq.real(s.body)[0].value)
    ok = rets.get(ast.Gt) == '1' and rets.get(ast.Lt) == '-1'
    R.check(ok, 'C01.i', tri, None, 'triangle_orientation maps a positive cross product to +1 and a negative one to -1', f'triangle_orientation sign mapping is {rets}', construct='orientation sign mapping')


# ------------------------------------------------------------------------------------------------------------------ C01.h
def fallback(P, R):
    f = P.func(IX, '_perform_polygon_intersect_bounds')
    pip = P.func(IX, 'point_intersects_polygon')
    resp = f.params[-1]
    bn = f.params[1:5]
    C = cfgmod.build(f.node)
    stores = [C.node(s) for s in ast.walk(f.node) if isinstance(s, ast.Assign) and isinstance(s.targets[0], ast.Subscript) and norm(s.targets[0].value) == resp and norm(s.value) == 'True']
    pips = []
    for s in ast.walk(f.node):
        if isinstance(s, ast.If) and isinstance(s.test, ast.Call) and astq.is_call_to(P, f, s.test, pip):
            pips.append(s)
    R.floor('C01.h', 'point-in-polygon questions in the polygon kernel', len(pips), 1)
    rejects = []
    for s in f.node.body:
        if isinstance(s, ast.If) and astq.real(s.body) and isinstance(astq.real(s.body)[0], ast.Return) and not any(isinstance(x, ast.Assign) for x in s.body) and set(astq.names_in(s.test)) & set(bn):
            rejects.append(C.node(astq.real(s.body)[0]))
    blocked = set(n for n in stores if n is not None) | set(C.node(s) for s in pips) | set(rejects)
    # returns guarded by a flag that is only set on the way to a True-store are accepting exits too
    for s in ast.walk(f.node):
        if isinstance(s, ast.If) and isinstance(s.test, ast.Name) and astq.real(s.body) and isinstance(astq.real(s.body)[0], ast.Return):
            flag = s.test.id
            sets = [C.node(a_) for a_ in ast.walk(f.node) if isinstance(a_, ast.Assign) and isinstance(a_.targets[0], ast.Name) and a_.targets[0].id == flag and norm(a_.value) == 'True']
            rn = C.node(astq.real(s.body)[0])
            # `if flag: result[i] = True` statements: whenever the flag is set when such a test is reached, the store happens
            acc = [C.node(t_) for t_ in ast.walk(f.node) if isinstance(t_, ast.If) and isinstance(t_.test, ast.Name) and t_.test.id == flag
                   and any(isinstance(x, ast.Assign) and isinstance(x.targets[0], ast.Subscript) and norm(x.targets[0].value) == resp and norm(x.value) == 'True' for x in t_.body)]
            resets = [a_ for a_ in ast.walk(f.node) if isinstance(a_, ast.Assign) and isinstance(a_.targets[0], ast.Name) and a_.targets[0].id == flag and norm(a_.value) != 'True']
            only_initial = all(getattr(a_, '_parent', None) is f.node for a_ in resets)
            if sets and acc and only_initial and all(C.every_path_passes(a_, rn, set(acc)) for a_ in sets if a_ is not None):
                blocked.add(rn)
    ok = not C.can_reach(C.ENTRY, C.EXIT, blocked=blocked)
    R.check(ok, 'C01.h', f, None, 'every non-accepting exit of the polygon kernel is the bbox reject or follows a point-in-polygon question',
            'the polygon kernel can return False without having asked whether a box corner lies inside the polygon: a box strictly inside a polygon is missed',
            construct='containment fallback on every non-accepting exit')
    for s in pips:
        c = s.test
        ok = len(c.args) == 4 and {norm(c.args[0]), norm(c.args[1])} <= set(bn) and norm(c.args[2]) == f.params[5]
        xs = {bn[0], bn[2]}
        ys = {bn[1], bn[3]}
        ok = ok and norm(c.args[0]) in xs and norm(c.args[1]) in ys
        offs = astq.trace(f, c.args[3]) if len(c.args) == 4 else None
        oko = isinstance(offs, ast.Subscript) and isinstance(offs.slice, ast.Slice) and norm(offs.slice.upper).endswith('+ 1')
        R.check(ok and oko, 'C01.h', f, c, 'the question is about a box corner (x from the box\'s x, y from its y) against this element\'s ring offsets (cut with the fencepost)',
                f'`{norm(c)}` is not (box corner x, box corner y, values, offsets[start:stop + 1])')
