"""C13 — bounds and total_bounds are the tight extents of the geometry.

 C13.a  kernels: even positions feed only X accumulators, odd only Y (units); lower bounds are aggregated with min, upper with max
        (roles); each update is guarded by isfinite of the value it uses; with no finite value the result is NaN; the scan reaches
        the last vertex of both coordinate classes (no undershoot) and never reads beyond the part; result layout (x0, y0, x1, y1);
        row i of bounds is computed from [offs[i], offs[i+1]).
 C13.b  list arrays: bounds pairs the whole value buffer with absolute outer offsets (or a consistently re-based pair); total_bounds*
        use the windowed flat_values; offset levels are composed in order (L = 1..3).
 C13.c  fixed-width arrays: values of null slots never reach a bounds result (validity-mask taint); flat_values honours the
        array offset and length.
 C13.d  delegations (GeoSeries, Dask, R-tree) return the same layout from the same source.
Does not decide: numerical equality.
"""
import ast

import astq
import ordeval
import taint
from units import Interp, Vals, Tup, Q, Rows, Const
from model import walk_own, AnalysisError, full as norm
from rules import geom, common

EXPLANATION = (
    'Units/levels abstract interpretation (structure concrete, numbers abstract) of bounds / total_bounds / total_bounds_x / total_bounds_y for the six '
    'list-backed kinds (nesting 1..3) and the fixed-width point array, down through the mixin buffer accessors and the numba kernels: axis from '
    'parity, lb/ub roles from min/max, absolute vs re-based pairing of values and offsets, level composition, fenceposts; plus a syntactic '
    'must-guard rule (isfinite), a concrete scan-coverage evaluation of the kernel loops, and a validity-mask taint analysis for fixed-width arrays.')

BND = 'spatialpandas.geometry._algorithms.bounds'


def extent_small_scope(P, R):
    """C13.a (order-type evaluation, exhaustive within the scope): the extent kernels only compare, so their result on a buffer depends on the order type of
    its values.  They are interpreted by E-VEC on every buffer of <= 2 vertices (and 3 for the 1-d kernel) over {NaN, -inf, 0, 1, +inf}: the answer must be
    (min x, min y, max x, max y) over the FINITE coordinates, NaN where an axis has none.  Covers the accumulator loop and vectorised rewrites alike."""
    import itertools as _it
    import veceval
    nan, inf = float('nan'), float('inf')
    dom = [nan, -inf, 0.0, 1.0, inf]

    def same(a, b):
        return (a != a and b != b) or a == b

    def fin(vs):
        vs = [v for v in vs if v == v and v not in (inf, -inf)]
        return (min(vs), max(vs)) if vs else (nan, nan)
    f = P.func(BND, 'total_bounds_interleaved')
    bad, total, undec = [], 0, None
    for ln in (0, 2, 4):
        for vals in _it.product(dom, repeat=ln):
            vals = list(vals)
            total += 1
            ev = veceval.VecEval(P, f, {f.params[0]: vals}, ln)
            try:
                ev.block(f.node.body)
                got = None
            except veceval.Returned as r_:
                got = r_.value
            except veceval.Unsupported as e_:
                undec = str(e_)
                break
            except (IndexError, TypeError, ValueError):
                got = 'error'
            (x0, x1), (y0, y1) = fin(vals[0::2]), fin(vals[1::2])
            want = (x0, y0, x1, y1)
            if not (isinstance(got, (tuple, list)) and len(got) == 4 and all(isinstance(g, (int, float)) and same(float(g), w) for g, w in zip(got, want))):
                bad.append({'values': [str(v) for v in vals], 'got': [str(g) for g in got] if isinstance(got, (tuple, list)) else str(got), 'want': [str(w) for w in want]})
        if undec:
            break
    if undec:
        return undec
    R.count('orderings', total)
    R.exhaustive_sites['C13.a extent kernel: all buffers of <= 2 vertices over {NaN, -inf, 0, 1, +inf}'] = True
    R.check(not bad, 'C13.a', f, None, f'total_bounds_interleaved == (min x, min y, max x, max y) over the finite coordinates, NaN for an axis without any ({total} buffers)',
            f'total_bounds_interleaved differs from the finite extent on {len(bad)} of {total} buffers, e.g. {bad[:2]}', construct='extent kernel small-scope equivalence', counterexamples=bad[:4])
    return None


def rows_small_scope(P, R, tier):
    """C13.a: `bounds_interleaved(values, offsets)` row i == finite extent of values[offsets[i]:offsets[i+1]] (NaN row for an element without vertices or
    without finite coordinates), for every buffer of <= 2 vertices (3 in the thorough tier) over {NaN, 0, 1, +inf} and every way of cutting it into three
    elements (empty elements included).  E-VEC; abstains when the kernel uses a construct it does not model."""
    import itertools as _it
    import veceval
    nan, inf = float('nan'), float('inf')
    dom = [nan, 0.0, 1.0, inf] if tier == 'thorough' else [nan, 0.0, 1.0]     # (+inf is covered by the extent-kernel check above)
    f = P.mods[BND].funcs.get('bounds_interleaved')
    if f is None:
        R.abstain('C13.a', (P.mods[BND].path, 'bounds_interleaved'), None, 'bounds_interleaved not found: per-element rows are computed by another idiom', construct='per-element rows small-scope equivalence')
        return

    def fin(vs):
        vs = [v for v in vs if v == v and v not in (inf, -inf)]
        return (min(vs), max(vs)) if vs else (nan, nan)

    def same(a, b):
        return (a != a and b != b) or a == b
    nv = 2
    bad, total, undec = [], 0, None
    cuts = [(a, b) for a in range(0, 2 * nv + 1, 2) for b in range(a, 2 * nv + 1, 2)]
    for vals in _it.product(dom, repeat=2 * nv):
        vals = list(vals)
        for a, b in cuts:
            offs = [0, a, b, 2 * nv]
            total += 1
            ev = veceval.VecEval(P, f, {f.params[0]: list(vals), f.params[1]: list(offs)}, 3)
            try:
                ev.block(f.node.body)
                got = None
            except veceval.Returned as r_:
                got = r_.value
            except veceval.Unsupported as e_:
                undec = str(e_)
                break
            except (IndexError, TypeError, ValueError):
                got = 'error'
            want = []
            for i in range(3):
                seg = vals[offs[i]:offs[i + 1]]
                (x0, x1), (y0, y1) = fin(seg[0::2]), fin(seg[1::2])
                want.append((x0, y0, x1, y1))
            ok = isinstance(got, list) and len(got) == 3 and all(isinstance(r_, (list, tuple)) and len(r_) == 4 and all(isinstance(g, (int, float)) and same(float(g), w) for g, w in zip(r_, wr))
                                                               for r_, wr in zip(got, want))
            if not ok and len(bad) < 6:
                bad.append({'values': [str(v) for v in vals], 'offsets': offs, 'got': str(got)[:120], 'want': str(want)[:120]})
            elif not ok:
                bad.append(None)
        if undec:
            break
    if undec:
        R.abstain('C13.a', f, None, f'bounds_interleaved uses a construct the small-scope evaluator does not model ({undec})', construct='per-element rows small-scope equivalence')
        return
    R.count('orderings', total)
    R.exhaustive_sites[f'C13.a per-element rows: buffers of <= {nv} vertices over {{NaN, 0, 1, +inf}} x all cuts into 3 elements'] = True
    R.check(not bad, 'C13.a', f, None, f'bounds_interleaved row i == finite extent of element i, NaN row for an element without (finite) vertices ({total} buffer x cut cases)',
            f'bounds_interleaved differs from the per-element finite extent on {len(bad)} of {total} cases, e.g. {[b for b in bad if b][:2]}', construct='per-element rows small-scope equivalence',
            counterexamples=[b for b in bad if b][:4])


def kernel_rules(P, R, tier='quick'):
    undecided = extent_small_scope(P, R)
    rows_small_scope(P, R, tier)
    for name in ('total_bounds_interleaved', 'total_bounds_interleaved_1d'):
        f = P.func(BND, name)
        ups = 0
        for s in walk_own(f.node):
            if isinstance(s, ast.Assign) and isinstance(s.value, ast.Call) and norm(s.value.func) in ('min', 'max') and len(s.value.args) == 2 \
                    and isinstance(s.targets[0], ast.Name):
                acc = s.targets[0].id
                others = [a for a in s.value.args if not (isinstance(a, ast.Name) and a.id == acc)]
                if len(others) != 1 or not isinstance(others[0], ast.Name):
                    continue
                v = others[0].id
                ups += 1
                g = s
                guard = None
                while getattr(g, '_parent', None) is not None and not isinstance(g._parent, (ast.FunctionDef,)):
                    g = g._parent
                    if isinstance(g, ast.If) and 'isfinite' in norm(g.test) and v in astq.names_in(g.test) and any(x is s for y in g.body for x in ast.walk(y)):
                        guard = g
                R.check(guard is not None, 'C13.a', f, s, f'update of `{acc}` is guarded by isfinite({v})',
                        f'`{norm(s)}` is not guarded by isfinite({v}): a NaN/inf coordinate poisons the extent')
        if ups < 2 and undecided is None and name == 'total_bounds_interleaved':
            coverage_ok = True      # another idiom, decided by the small-scope equivalence above
            continue
        R.floor('C13.a', f'accumulator updates in {name}', ups, 2)
        # no finite value => NaN
        src = norm(f.node)
        ok = ('np.nan' in src) and any(isinstance(s, ast.If) and 'isfinite' in norm(s.test) and ('nan' in norm(s) ) for s in f.node.body)
        R.check(ok, 'C13.a', f, None, 'when no finite value was seen the result is NaN', 'the sentinel values (inf) are returned when nothing finite was seen', construct=f'{name}: sentinel -> NaN')
        coverage(P, R, f)


def coverage(P, R, f):
    """Concrete evaluation of the scan loop on a 5-vertex part: both coordinate classes must be read up to the last vertex, nothing beyond."""
    loops = [s for s in f.node.body if isinstance(s, ast.For)]
    if not loops:
        R.abstain('C13.a', f, None, 'scan loop not found')
        return
    loop = loops[0]
    N = 10
    params = f.params
    variants = [{}]
    if len(params) > 1:
        variants = [{params[1]: 0}, {params[1]: 1}]
    for extra in variants:
        reads = []

        def subscript(I, e, base, reads=reads):
            if isinstance(e.value, ast.Name) and e.value.id == params[0]:
                i = I.expr(e.slice)
                if isinstance(i, int):
                    reads.append(i)
                    return ordeval.Sym(i, f'v{i}', None)
            return None

        def call(I, e):
            fn = norm(e.func)
            if fn == 'len' and e.args and norm(e.args[0]) == params[0]:
                return N
            if fn.endswith('isfinite'):
                return True
            return None
        env = dict(extra)
        env[params[0]] = ordeval.OPQ
        env.update({'np': ordeval.OPQ})
        try:
            ordeval.run_fragment([loop], env, {'subscript': subscript, 'call': call, 'opaque_test': lambda I, n: True}, check_axes=False)
        except ordeval.NotComparisonOnly as e:
            R.abstain('C13.a', f, loop, f'scan loop could not be evaluated concretely: {e}')
            return
        beyond = [i for i in reads if i >= N or i < 0]
        classes = {0: [i for i in reads if i % 2 == 0], 1: [i for i in reads if i % 2 == 1]}
        want_classes = [extra[params[1]]] if extra else [0, 1]
        label = f'{f.name}({", ".join(f"{k}={v}" for k, v in extra.items())})' if extra else f.name
        R.check(not beyond, 'C13.a', f, loop, f'{label}: the scan never reads beyond the part', f'{label}: the scan reads positions {sorted(set(beyond))} of a {N}-value part (beyond its end)',
                construct=f'{label} confinement')
        for q in want_classes:
            got = max(classes[q]) if classes[q] else None
            R.check(got == N - 2 + q, 'C13.a', f, loop, f'{label}: the {"x" if q == 0 else "y"} scan reaches the last vertex',
                    f'{label}: the {"x" if q == 0 else "y"} scan stops at position {got} of a {N}-value part (last {"x" if q == 0 else "y"} is at {N - 2 + q}): the last vertex is never examined',
                    construct=f'{label} coverage {"x" if q == 0 else "y"}')
        if extra:
            other = 1 - extra[params[1]]
            R.check(not classes[other], 'C13.a', f, loop, f'{label}: only the requested coordinate class is read', f'{label}: reads the other coordinate class too ({classes[other][:3]})',
                    construct=f'{label} class', nontrivial=False)


def array_extents(P, R):
    """E-UNITS part: bounds / total_bounds* of every array kind are computed from the values of the array's own window, in box layout."""
    I = Interp(P)
    seen = set()
    n_entries = 0
    for mod, cls, L in geom.ARRAYS:
        a = geom.array(P, mod, cls, L)
        site = (f'spatialpandas/geometry/{mod}.py', cls)
        for attr in ('bounds', 'total_bounds', 'total_bounds_x', 'total_bounds_y'):
            v = geom.get(I, a, attr, f'{cls}.{attr}')
            n_entries += 1
            bad = geom.flush(R, 'C13.b', I, seen, f'{cls}.{attr}')
            if attr == 'bounds':
                geom.check_box_layout(R, 'C13.a', site, f'{cls}.bounds rows', v, rows=True)
                lv = getattr(v, 'level', None)
                R.check(lv == 0 or not isinstance(v, Rows), 'C13.b', site, None, f'{cls}.bounds has one row per element', f'{cls}.bounds rows are indexed at level {lv}, not per element', construct=f'{cls}.bounds level', nontrivial=False)
            elif attr == 'total_bounds':
                geom.check_box_layout(R, 'C13.a', site, f'{cls}.total_bounds', v)
            else:
                ax = 'X' if attr.endswith('_x') else 'Y'
                items = [geom.unslot(x) for x in v.items] if isinstance(v, Tup) else None
                if items and len(items) == 2 and all(isinstance(x, Q) for x in items):
                    got = [(list(x.dim)[0] if len(x.dim) == 1 else str(x.dim), x.role) for x in items]
                    R.check(got == [(ax, 'lb'), (ax, 'ub')], 'C13.a', site, None, f'{cls}.{attr} = (min {ax.lower()}, max {ax.lower()})', f'{cls}.{attr} is {got}, expected ({ax}.lb, {ax}.ub)', construct=f'{cls}.{attr} layout')
                else:
                    R.abstain('C13.a', site, None, f'{cls}.{attr} could not be typed', construct=f'{cls}.{attr} layout')
        fv = geom.get(I, a, 'flat_values', f'{cls}.flat_values')
        geom.flush(R, 'C13.b', I, seen, f'{cls}.flat_values')
        if isinstance(fv, Vals):
            R.check(fv.base == 'win' and fv.L == L, 'C13.b', site, None, f'{cls}.flat_values is the value buffer cut to the array\'s own window on every path',
                    f'{cls}.flat_values is {"the whole (unsliced) buffer on some path" if fv.base in ("mixed", "abs") else fv.base}: values of elements outside the slice leak into total_bounds',
                    construct=f'{cls}.flat_values window')
        else:
            R.abstain('C13.b', site, None, f'{cls}.flat_values could not be typed', construct=f'{cls}.flat_values window')
    # fixed width
    pa = geom.point_array(P)
    site = ('spatialpandas/geometry/point.py', 'PointArray')
    for attr in ('bounds', 'total_bounds'):
        v = geom.get(I, pa, attr, f'PointArray.{attr}')
        n_entries += 1
        geom.flush(R, 'C13.c', I, seen, f'PointArray.{attr}')
        geom.check_box_layout(R, 'C13.a', site, f'PointArray.{attr}' + (' rows' if attr == 'bounds' else ''), v, rows=(attr == 'bounds'))
    fv = geom.get(I, pa, 'flat_values', 'PointArray.flat_values')
    geom.flush(R, 'C13.c', I, seen, 'PointArray.flat_values')
    if isinstance(fv, Vals):
        R.check(fv.base == 'win', 'C13.c', site, None, 'fixed-width flat_values is cut to the array\'s own window (offset, length) on every path',
                'fixed-width flat_values is not the window [offset*k, (offset+len)*k) of the data buffer on every path', construct='GeometryFixedArray.flat_values window')
    else:
        R.abstain('C13.c', site, None, 'fixed-width flat_values is built by an idiom the analysis does not model; window not decided', construct='GeometryFixedArray.flat_values window')
    # the kernels called directly by the array-level total_bounds* receive the windowed values
    ndirect = 0
    for kind, caller, node, payload in I.events:
        if kind != 'call' or caller is None:
            continue
        callee, args, kwargs = payload
        if callee.name.startswith('total_bounds_interleaved') and caller.name.startswith('total_bounds') and args and isinstance(args[0], Vals):
            ndirect += 1
            v = args[0]
            R.check(v.base == 'win', 'C13.b', caller, node, f'{caller.qualname} scans the values of the array\'s own window',
                    f'{caller.qualname} scans the {"whole backing buffer" if v.base == "abs" else v.base + " buffer"}: coordinates of elements outside a sliced array enter total_bounds')
    R.floor('C13.b', 'direct total_bounds kernel calls', ndirect, 6)
    cut = getattr(fv, 'cut', None) if isinstance(fv, Vals) else None
    okcut = cut is not None and all(hasattr(x, 'origin') for x in cut) and cut[0].origin == 'array.offset' and cut[0].delta == 0 and cut[1].origin == 'array.end' and cut[1].delta == 0
    if not isinstance(fv, Vals):
        okcut = True
    R.check(okcut, 'C13.c', site, None, 'fixed-width flat_values = data[offset*k : (offset+len)*k]',
            'fixed-width flat_values does not start at the array offset and end at offset + length: a sliced point array reads other elements\' coordinates',
            construct='GeometryFixedArray.flat_values bounds')
    geom.stats(R, I)
    R.floor('C13', 'entry points typed', n_entries, 26)


def run(P, R, tier):
    R.assume('S1: Arrow ListArray buffers [v0,o0,...,data]; array.offset/len describe the level-0 window only; null slots of fixed-width arrays hold arbitrary bytes')
    R.assume('S2: coordinate index 2m is x_m, 2m+1 is y_m; S3: boxes are (x0, y0, x1, y1)')
    kernel_rules(P, R, tier)
    for qn in ('GeometryListArray.bounds', 'GeometryListArray.total_bounds', 'GeometryListArray.total_bounds_x', 'GeometryListArray.total_bounds_y'):
        f_ = P.mods['spatialpandas.geometry.baselist'].funcs.get(qn)
        if f_ is not None and any((lambda r: r and r[0] == 'func' and r[1].mod.name == BND)(P.resolve_call(f_, c_)) for c_ in astq.own_calls(f_)):
            common.kernel_on_every_path(P, R, 'C13.b', f_, lambda g: g.mod.name == BND, 'the bounds kernel', 'the extent is answered by a shortcut instead of being computed from the coordinates of exactly this array\'s elements')
    # C13.i (seed S11: `ufunc.reduceat(a, starts)` returns a[starts[k]] for an EMPTY segment, not the identity): a per-element reduction over
    # offset-delimited segments must repair the rows of elements without vertices, which otherwise receive the next element's first vertex as their box
    R.assume('S11: numpy ufunc.reduceat yields a[start] (not the reduction identity) for a segment of length 0')
    for f_ in P.all_funcs():
        if not f_.mod.name.startswith('spatialpandas.geometry') or isinstance(f_.node, ast.Lambda):
            continue
        ra = [c for c in astq.own_calls(f_) if isinstance(c.func, ast.Attribute) and c.func.attr == 'reduceat' and len(c.args) >= 2]
        if not ra:
            continue
        txt = norm(f_.node)
        repaired = any(isinstance(x, ast.Compare) and isinstance(x.ops[0], (ast.Eq, ast.LtE, ast.GtE)) and '[1:]' in norm(x) and '[:-1]' in norm(x) for x in ast.walk(f_.node)) \
            or ('np.diff(' in txt and any(isinstance(x, ast.Compare) and 'diff' in norm(astq.expand(f_, x.left)) and norm(x.comparators[0]) == '0' for x in ast.walk(f_.node) if isinstance(x, ast.Compare)))
        R.check(repaired, 'C13.i', f_, ra[0], 'rows of elements without vertices are repaired after reduceat (empty segments yield a[start])',
                f'`{norm(ra[0])}`: an element without vertices (empty, not missing) that is followed by a non-empty one has a segment of length 0, for which reduceat returns the next '
                'element\'s first coordinate: the empty element gets a finite degenerate box instead of NaN, enters total_bounds / the spatial index and is selected by cx',
                construct=f'{f_.qualname}: reduceat over offset segments')
    common.no_fastmath(P, R, 'C13.h', ['spatialpandas.geometry._algorithms.bounds'])
    common.nan_buffers(P, R, 'C13.g', ['spatialpandas.geometry._algorithms.bounds', 'spatialpandas.geometry.basefixed', 'spatialpandas.geometry.baselist', 'spatialpandas.geometry.base', 'spatialpandas.spatialindex.rtree'], floor=2)
    array_extents(P, R)
    fixed_taint(P, R, 'C13.c', ('bounds', 'total_bounds', 'total_bounds_x', 'total_bounds_y'))
    delegations(P, R)


def fixed_taint(P, R, rule, names=None):
    ci = P.cls('spatialpandas.geometry.point.PointArray')
    T = taint.ClassTaint(P, ci)
    n = 0
    for c in ci.mro:
        if c.name not in ('PointArray', 'GeometryFixedArray'):
            continue
        for name, m in c.members.items():
            if m[0] != 'func' or name.startswith('_') or (names is not None and name not in names):
                continue
            f = m[1]
            uses = T.returns_tainted(f)
            n += 1
            R.check(not uses, rule, f, T.why.get(f.key), f'{f.qualname}: values of null slots are masked by the validity mask before they reach the result',
                    f'{f.qualname} returns a value computed from the raw fixed-width buffer without the validity mask: missing elements contribute their placeholder bytes',
                    construct=f'{f.qualname} validity mask')
    R.floor(rule, 'public fixed-width consumers checked', n, 1)


def delegations(P, R):
    gs_b = P.func('spatialpandas.geoseries', 'GeoSeries.bounds')
    ok = False
    for c in astq.own_calls(gs_b):
        if norm(c.func).endswith('DataFrame'):
            cols = astq.arg_of(c, kw='columns')
            idx = astq.arg_of(c, kw='index')
            ok = c.args and norm(c.args[0]) == 'self.array.bounds' and cols is not None and [astq.const_str(e) for e in cols.elts] == ['x0', 'y0', 'x1', 'y1'] \
                and idx is not None and norm(idx) == 'self.index'
    R.check(ok, 'C13.d', gs_b, None, 'GeoSeries.bounds labels the array bounds (x0, y0, x1, y1) and keeps the index', 'GeoSeries.bounds does not wrap self.array.bounds as (x0, y0, x1, y1) with the index',
            construct='GeoSeries.bounds delegation')
    gs_t = P.func('spatialpandas.geoseries', 'GeoSeries.total_bounds')
    ok = any(isinstance(s, ast.Return) and norm(s.value) == 'self.array.total_bounds' for s in walk_own(gs_t.node))
    R.check(ok, 'C13.d', gs_t, None, 'GeoSeries.total_bounds returns the array\'s total_bounds', 'GeoSeries.total_bounds does not return self.array.total_bounds', construct='GeoSeries.total_bounds delegation')
    from rules import C06
    sub = type(R)(R.prop, R.tier)
    try:
        C06.run(P, sub, 'quick')
    except AnalysisError:
        pass
    k = 0
    for o in sub.obs:
        if o.rule == 'C06.b':
            k += 1
            R._add('C13.d', (o.path, o.site.split('::')[-1]), None, o.status, 'Dask total_bounds: ' + o.detail, construct=o.construct)
        elif o.rule == 'C06.d':
            R._add('C13.d', (o.path, o.site.split('::')[-1]), None, o.status, 'Dask total_bounds is reduced from cached partition bounds: ' + o.detail, construct=o.construct)
        elif o.rule == 'C06.f':
            R._add('C13.d', (o.path, o.site.split('::')[-1]), None, o.status, 'the Dask series whose bounds are asked for is the series that was given (identified by token): ' + o.detail, construct=o.construct)
    R.floor('C13.d', 'Dask total_bounds obligations', k, 4)
    # the bounds of fixed-width (point) arrays are masked by isna(): the validity bitmap must be read for exactly the window of the array (the C16.a small-scope
    # check, called as a function: C16 itself forwards C13, a forward here would be a cycle)
    from rules import C16 as _C16
    sub16 = type(R)('C16', 'quick')
    _C16.bitmap_small_scope(P, sub16, P.func('spatialpandas.geometry.base', '_extract_isnull_bytemap'))
    for o in sub16.obs:
        ob = R._add('C13.b', (o.path, o.site.split('::')[-1]), None, o.status, '[C16.a] point bounds are masked by isna(): ' + o.detail, construct=o.construct, nontrivial=o.nontrivial)
    # bounds are computed from the rows of THIS array: a selection (take with fill markers, slice, copy) carries no cached rows of its source
    sub16d = type(R)('C16', 'quick')
    _C16.derived_state(P, sub16d, P.cls('spatialpandas.geometry.base.GeometryArray'), 'C16.d')
    for o in sub16d.obs:
        R._add('C13.d', (o.path, o.site.split('::')[-1]), None, o.status, '[C16.d] bounds of a derived array are computed from its own rows: ' + o.detail, construct=o.construct, nontrivial=o.nontrivial)
    common.forward(P, R, 'C03', ['C03.c', 'C03.d'], 'C13.d', 'the spatial index reports the same total_bounds: every tree node is the union of its valid children, NaN rows never poison it', floor=4)
