"""C16 — derived arrays hold the same elements and behave like fresh ones.

 C16.a  raw-buffer discipline: `.buffers()` is read only by the enumerated accessors; every positional read applies the array's
        offset and length: level-0 offsets are cut to [offset : offset + len + 1], fixed-width data to [offset*k : (offset+len)*k],
        the validity bitmap is read at bit (offset + i); deeper buffers are never cut; flat_values is windowed on every path.
 C16.b  absolute / re-based pairing of value buffers and offsets at every kernel call site reached from the public entry points
        (units base tags) — together with level, parity and fencepost typing of all accessors for L = 1..3.
 C16.c  `_sindex` is never carried over to a derived array (shared with C04.d).
 C16.d  every derivation (__getitem__ slice, take, _concat_same_type, copy, fillna, astype) constructs the receiver's own class.
 C16.e  integer indexing accepts exactly -n <= i < n and maps negative indices to i + n (all n <= 4, |i| <= 6 evaluated).
Does not decide: pandas-level semantics and error types beyond C16.e, equality of derived quantities.
"""
import ast

import astq
import ordeval
from effects import effects
from units import Interp, Vals, Tup, Q, Off, OffC, ArrowArr, Obj, Arr, Const, Sel
from model import walk_own, AnalysisError, full as norm
from rules import geom, common

EXPLANATION = (
    'Who-may-read rule for raw Arrow buffers plus units/levels abstract interpretation of the five mixin accessors for nesting 1..3 and of the fixed-width '
    'accessor (window cuts are compared with [offset, offset+len(+1)]); all public geometry entry points are typed to find absolute/re-based pairing errors; '
    'constructor-class rule for derivations; who-may-write rule for _sindex; bounded concrete evaluation of the integer-index validation.')

BASE = 'spatialpandas.geometry.base'
ALLOWED_RAW = {'_ListArrayBufferMixin.buffer_values', '_ListArrayBufferMixin.buffer_offsets', 'GeometryFixedArray.flat_values', 'GeometryArray.nbytes', '_extract_isnull_bytemap'}


def _depends_on_offset(f, expr, seen=None):
    """Does the value of `expr` depend on an `.offset` attribute (directly or through local definitions)?"""
    seen = seen if seen is not None else set()
    for x in ast.walk(expr):
        if isinstance(x, ast.Attribute) and x.attr == 'offset':
            return True
        if isinstance(x, ast.Name) and x.id not in seen:
            seen.add(x.id)
            for a in astq.assignments(f, x.id):
                v = a[1]
                v = v.value if isinstance(v, (ast.AugAssign,)) else v
                if isinstance(v, ast.AST) and not isinstance(v, (ast.For, ast.comprehension)) and _depends_on_offset(f, v, seen):
                    return True
    return False


def _bitmap_unpack_rule(P, R, ex):
    """Vectorised form of the validity-bitmap read: np.unpackbits over the bytes that hold bits [offset, offset + n).
    Necessary conditions decided: LSB-first bit order; the unpacked bits are cut at the intra-byte shift; the number of
    bytes consumed depends on that shift (bits [s, s+n) span ceil((s+n)/8) bytes, not ceil(n/8))."""
    ups = [c for c in astq.own_calls(ex) if norm(c.func).split('.')[-1] == 'unpackbits']
    if not ups:
        raise AnalysisError('spatialpandas.geometry.base:_extract_isnull_bytemap reads the validity bitmap by an idiom the analysis does not model (anchor vanished)')
    for c in ups:
        bo = astq.arg_of(c, kw='bitorder')
        R.check(bo is not None and astq.const_str(bo) == 'little', 'C16.a', ex, c, 'Arrow validity bitmaps are unpacked least-significant bit first',
                'np.unpackbits without bitorder="little": Arrow bitmaps are LSB-first, elements are matched with the wrong bits', construct='unpackbits bit order')
        src = c.args[0] if c.args else None
        if isinstance(src, ast.Name):
            t_ = astq.trace(ex, src)
            src = t_ if isinstance(t_, ast.AST) else src
        if isinstance(src, ast.Subscript) and isinstance(src.slice, ast.Slice) and src.slice.upper is not None:
            lo, up = src.slice.lower, src.slice.upper
            ext = up
            if lo is not None and isinstance(up, ast.BinOp) and isinstance(up.op, ast.Add):
                if norm(up.left) == norm(lo):
                    ext = up.right
                elif norm(up.right) == norm(lo):
                    ext = up.left
            cnt = astq.arg_of(c, kw='count')
            dep = _depends_on_offset(ex, ext)
            R.check(dep, 'C16.a', ex, src, 'the number of bitmap bytes unpacked accounts for the intra-byte bit offset of the slice',
                    f'the bitmap bytes unpacked span `{norm(ext)}`, which does not depend on the array offset: bits [offset % 8, offset % 8 + n) can reach one byte further than ceil(n / 8); '
                    'the last elements of a slice that does not start on a byte boundary read padding and are reported missing', construct='bitmap byte window')
        else:
            R.ok('C16.a', ex, c, 'the bitmap is unpacked to its end (no upper byte bound to get wrong)', construct='bitmap byte window')
        # the bits must be cut at the shift
        cuts = [x for x in walk_own(ex.node) if isinstance(x, ast.Subscript) and isinstance(x.slice, ast.Slice) and x.slice.lower is not None
                and (x.value is c or (isinstance(x.value, ast.Name) and any(a[0] == 'expr' and a[1] is c for a in astq.assignments(ex, x.value.id))))]
        R.check(bool(cuts) and all(_depends_on_offset(ex, x.slice.lower) for x in cuts), 'C16.a', ex, c, 'the unpacked bits are read starting at the array offset',
                'the unpacked bits are not cut at the array offset: a sliced array reads the validity of other elements', construct='bitmap bit offset')


def run(P, R, tier):
    R.assume('S1: array.offset / len(array) describe the logical window of level 0 only; child buffers are never cut')
    # ---------------------------------------------------------------- C16.a who reads raw buffers
    n = 0
    for f in P.all_funcs():
        for c in astq.own_calls(f):
            if isinstance(c.func, ast.Attribute) and c.func.attr == 'buffers' and not c.args:
                n += 1
                R.check(f.qualname in ALLOWED_RAW, 'C16.a', f, c, f'raw Arrow buffers are read by the accessor {f.qualname}',
                        f'{f.qualname} reads raw Arrow buffers itself: offsets/validity/data of a sliced array must only be reached through the offset-aware accessors')
    R.floor('C16.a', 'raw buffer read sites', n, 5)
    I = Interp(P)
    seen = set()
    for mod, cls, L in geom.ARRAYS:
        a = geom.array(P, mod, cls, L)
        site = (f'spatialpandas/geometry/baselist.py', f'_ListArrayBufferMixin[{cls}]')
        bo = geom.get(I, a, 'buffer_offsets', f'{cls}.buffer_offsets')
        geom.flush(R, 'C16.b', I, seen, f'{cls}.buffer_offsets')
        ok = isinstance(bo, Tup) and len(bo.items) == L and all(isinstance(o, Off) and o.level == k for k, o in enumerate(bo.items))
        R.check(ok, 'C16.a', site, None, f'{cls}.buffer_offsets yields the {L} offset level(s) in order', f'{cls}.buffer_offsets is {bo!r:.100}', construct=f'{cls}.buffer_offsets levels')
        if ok:
            cut = getattr(bo.items[0], 'cut', None)
            okc = cut is not None and cut[0].origin == 'array.offset' and cut[0].delta == 0 and cut[1].origin == 'array.end' and cut[1].delta == 1
            R.check(okc, 'C16.a', site, None, f'{cls}: level-0 offsets are cut to [offset : offset + len + 1]',
                    f'{cls}: level-0 offsets are cut to [{_d(cut[0]) if cut else "?"} : {_d(cut[1]) if cut else "?"}] instead of [offset : offset + len + 1]: a sliced array sees other elements (or loses its last one)',
                    construct=f'{cls} level-0 window')
            for k, o in enumerate(bo.items[1:], 1):
                R.check(not o.win and getattr(o, 'cut', None) is None, 'C16.a', site, None, f'{cls}: level-{k} offsets are used whole (they are indexed by absolute level-{k} positions)',
                        f'{cls}: level-{k} offsets are cut although the level-{k - 1} offsets hold absolute positions', construct=f'{cls} level-{k} whole', nontrivial=False)
        for attr, want in (('buffer_values', ('abs', None)), ('flat_values', ('win', None))):
            v = geom.get(I, a, attr, f'{cls}.{attr}')
            geom.flush(R, 'C16.b', I, seen, f'{cls}.{attr}')
            okv = isinstance(v, Vals) and v.L == L and v.base == want[0]
            R.check(okv, 'C16.a', site, None, f'{cls}.{attr} is the {"whole" if want[0] == "abs" else "windowed"} level-{L} coordinate buffer on every path',
                    f'{cls}.{attr} is {v!r:.80}', construct=f'{cls}.{attr}')
        oo = geom.get(I, a, 'buffer_outer_offsets', f'{cls}.buffer_outer_offsets')
        geom.flush(R, 'C16.b', I, seen, f'{cls}.buffer_outer_offsets')
        oko = (isinstance(oo, OffC) and oo.level == 0 and oo.to == L and oo.win) or (L == 1 and isinstance(oo, Off) and oo.level == 0 and oo.win)
        R.check(oko, 'C16.a', site, None, f'{cls}.buffer_outer_offsets maps elements of the window to absolute coordinate positions (levels composed 0 -> {L})',
                f'{cls}.buffer_outer_offsets is {oo!r:.90}', construct=f'{cls}.buffer_outer_offsets')
        io = geom.get(I, a, 'buffer_inner_offsets', f'{cls}.buffer_inner_offsets')
        geom.flush(R, 'C16.b', I, seen, f'{cls}.buffer_inner_offsets')
        oki = isinstance(io, Off) and io.level == L - 1 and io.win
        R.check(oki, 'C16.a', site, None, f'{cls}.buffer_inner_offsets is the innermost offsets restricted to the window', f'{cls}.buffer_inner_offsets is {io!r:.90}',
                construct=f'{cls}.buffer_inner_offsets')
    # fixed width
    pa = geom.point_array(P)
    fv = geom.get(I, pa, 'flat_values', 'PointArray.flat_values')
    geom.flush(R, 'C16.b', I, seen, 'PointArray.flat_values')
    cut = getattr(fv, 'cut', None) if isinstance(fv, Vals) else None
    okc = isinstance(fv, Vals) and fv.base == 'win' and cut is not None and all(hasattr(x, 'origin') for x in cut) and cut[0].origin == 'array.offset' and cut[0].delta == 0 \
        and cut[1].origin == 'array.end' and cut[1].delta == 0
    if isinstance(fv, Vals):
        R.check(okc, 'C16.a', ('spatialpandas/geometry/basefixed.py', 'GeometryFixedArray.flat_values'), None, 'fixed-width data is cut to [offset*k : (offset+len)*k] on every path',
                f'fixed-width flat_values is {fv!r:.80}: the array offset/length is not honoured', construct='GeometryFixedArray.flat_values window')
    else:
        R.abstain('C16.a', ('spatialpandas/geometry/basefixed.py', 'GeometryFixedArray.flat_values'), None, 'fixed-width flat_values is built by an idiom the analysis does not model; window not decided',
                  construct='GeometryFixedArray.flat_values window')
    # validity bitmap
    ex = P.func(BASE, '_extract_isnull_bytemap')
    kern = P.mods[BASE].funcs.get('_perform_extract_isnull_bytemap') if BASE in P.mods else None
    if kern is not None:
        okb = False
        for c in astq.own_calls(ex):
            if astq.is_call_to(P, ex, c, kern):
                a_ = [norm(x) for x in c.args]
                p_ = ex.params[0]
                chunk = astq.trace(ex, c.args[1].args[0]) if isinstance(c.args[1], ast.Call) and c.args[1].args else None
                okb = len(a_) >= 3 and a_[1].startswith('len(') and a_[2].endswith('.offset') and a_[1][4:-1] == a_[2][:-7]
        R.check(okb, 'C16.a', ex, None, 'the validity bitmap is read for len(array) bits starting at bit array.offset', 'the validity bitmap is not read with (len(array), array.offset)',
                construct='_perform_extract_isnull_bytemap(buf, len(chunk), chunk.offset, ...)')
        src = norm(kern.node)
        kp = kern.params
        idx_def = [s for s in walk_own(kern.node) if isinstance(s, ast.Assign) and isinstance(s.value, ast.BinOp) and isinstance(s.value.op, ast.Add)
                   and kp[2] in astq.names_in(s.value)]
        okk = False
        if idx_def:
            nm = idx_def[0].targets[0].id
            okk = f'{nm} // 8' in src and f'{nm} % 8' in src and all((n_.id == nm) for b in ast.walk(kern.node) if isinstance(b, ast.BinOp) and isinstance(b.op, (ast.FloorDiv, ast.Mod))
                                                                      and norm(b.right) == '8' for n_ in [b.left] if isinstance(n_, ast.Name))
        R.check(okk, 'C16.a', kern, idx_def[0] if idx_def else None, 'byte and bit position are both taken from (bitmap_offset + i)', 'byte/bit position do not both include the bitmap offset')
    else:
        _bitmap_unpack_rule(P, R, ex)
    bitmap_small_scope(P, R, ex)
    # ---------------------------------------------------------------- C16.b all public entries typed (pairing at kernel call sites)
    n_entries = 0
    for mod, cls, L in geom.ARRAYS:
        a = geom.array(P, mod, cls, L)
        for attr in ('bounds', 'total_bounds', 'length', 'area'):
            geom.get(I, a, attr, f'{cls}.{attr}')
            n_entries += 1
        for inds in (Const(None), Sel(0)):
            geom.call(I, a, 'intersects_bounds', [geom.box(), inds], f'{cls}.intersects_bounds')
            n_entries += 1
        geom.flush(R, 'C16.b', I, seen, f'{cls} public entry points')
    nb = sum(1 for o in R.obs if o.rule == 'C16.b' and o.status == 'violated')
    R.check(nb == 0, 'C16.b', ('spatialpandas/geometry', 'all kinds'), None, f'all {n_entries} public entry points of the six list kinds type-check: value buffers and offsets are paired absolute/absolute or window/window at every kernel call',
            f'{nb} absolute/re-based, level or fencepost mismatches on the way from public entry points to kernels', construct='pairing at kernel call sites')
    geom.stats(R, I)
    # ---------------------------------------------------------------- C16.c
    E = effects(P)
    nw = 0
    for f, node, recv, attr in E.attr_writes:
        if attr == '_sindex':
            nw += 1
            R.check(f.qualname in common.CACHE_ATTR_WRITERS['_sindex'], 'C16.c', f, node, f'`_sindex` is written by {f.qualname} only (constructor / build_sindex / indexer holder)',
                    f'`_sindex` is written in {f.qualname}: a derived array inherits an index built for other rows')
    R.floor('C16.c', 'writers of _sindex', nw, 2)
    # ---------------------------------------------------------------- C16.d
    ga = P.cls(BASE + '.GeometryArray')
    nd = 0
    nd = derived_state(P, R, ga, 'C16.d', nd)
    R.floor('C16.d', 'derivation constructor sites', nd, 6)
    take_small_scope(P, R, ga)
    getitem_small_scope(P, R, ga)
    selection_shortcuts(P, R, ga)
    common.scalar_dtype_from_data(P, R, 'C16.g')
    nrw = common.rewrap_children_zero_offset(P, R, 'C16.a')
    R.floor('C16.a', 're-wrapped list arrays', nrw, 4)
    common.masked_offsets(P, R, 'C16.d')
    common.scratch_per_iteration(P, R, 'C16.b', ['spatialpandas.geometry._algorithms.intersection', 'spatialpandas.geometry._algorithms.bounds', 'spatialpandas.geometry._algorithms.measures', 'spatialpandas.geometry.point', 'spatialpandas.geometry.baselist'])
    common.forward(P, R, 'C11', ['C11.g'], 'C16.h', 'a GeoSeries / GeoDataFrame built from an existing series holds the same element under every label', floor=1)
    common.forward(P, R, 'C01', ['C01.n'], 'C16.b', 'a selection answers intersects_bounds like its source: every row is decided by the exact kernel, not by a shortcut on the array\'s own total_bounds', floor=10)
    common.forward(P, R, 'C13', ['C13.a', 'C13.b', 'C13.i'], 'C16.b', 'bounds of a derived array are computed from exactly its own elements', floor=10)
    # C16.h: "wrapping in a Series" adds labels, nothing else: every quantity of a GeoSeries is the same-named quantity of its array, called with exactly the
    # wrapper's own arguments on every path (a fast path that consults the object's history -- a built index, a cached value -- makes the result depend on how
    # the series came to be)
    gsc = P.cls('spatialpandas.geoseries.GeoSeries')
    nw = 0
    for name in ('bounds', 'total_bounds', 'area', 'length', 'hilbert_distance', 'intersects_bounds', 'intersects'):
        mem = gsc.members.get(name)
        if mem is None or mem[0] != 'func':
            continue
        w = mem[1]
        wparams = [p_ for p_ in w.params if p_ != 'self']

        def gate(c, name=name, w=w, wparams=wparams):
            if not (isinstance(c.func, ast.Attribute) and c.func.attr == name):
                return False
            recv = norm(astq.expand(w, c.func.value))
            if recv not in ('self.array', 'self.values', 'self._values'):
                return False
            got = [norm(a) for a in c.args] + [norm(k.value) for k in c.keywords]
            return got == wparams
        if w.kind == 'property':
            def gate(c, name=name, w=w):        # noqa: F811  (attribute read, not a call: handled below)
                return False
            reads = [x for x in walk_own(w.node) if isinstance(x, ast.Attribute) and x.attr == name and norm(astq.expand(w, x.value)) in ('self.array', 'self.values', 'self._values')]
            rets = [r_ for r_ in walk_own(w.node) if isinstance(r_, ast.Return) and r_.value is not None]
            nw += len(rets)
            for r_ in rets:
                ok = any(any(y is x for y in ast.walk(astq.expand(w, r_.value))) or norm(x) in norm(astq.expand(w, r_.value)) for x in reads)
                R.check(ok, 'C16.h', w, r_, f'GeoSeries.{name} is the array\'s {name} (with the labels)', f'`{norm(r_)}`: GeoSeries.{name} does not come from self.array.{name} on this path',
                        construct=f'GeoSeries.{name} delegation')
            continue
        nw += common.returns_pass_through(P, R, 'C16.h', w, gate, f'self.array.{name}({", ".join(wparams)})',
                                          f'on this path GeoSeries.{name} is not the array\'s {name} called with the wrapper\'s own arguments: the answer depends on the object\'s history (index built, cached state), '
                                          'not only on its elements')
    R.floor('C16.h', 'returns of the GeoSeries wrappers', nw, 6)
    # C16.g: every scalar handed out by an array is built like the one `__getitem__` builds: (python value, the array's numpy dtype).  Point scalars
    # need the dtype (their data is a raw byte string); without it an int64 / float32 point is reinterpreted as float64
    nel = 0
    for f_ in P.all_funcs():
        if not f_.mod.name.startswith('spatialpandas.geometry') or isinstance(f_.node, ast.Lambda):
            continue
        for c_ in astq.own_calls(f_):
            fx = c_.func
            if isinstance(fx, ast.Name):
                t_ = astq.trace(f_, fx)
                fx = t_ if isinstance(t_, ast.AST) else fx
            if norm(fx) in ('self._element_type', 'self.dtype.type', 'type(self)._element_type'):
                nel += 1
                dt = c_.args[1] if len(c_.args) > 1 else astq.arg_of(c_, kw='dtype')
                # ... and from the element's PYTHON value (`.as_py()` / `to_pylist()`): a scalar wrapped around an Arrow scalar of a sliced parent keeps the
                # parent's offsets, which the flat-buffer accessors of Line / Ring scalars do not apply
                if c_.args:
                    srcs = astq.sources(f_, c_.args[0])
                    txt = ' '.join(norm(d[1].iter if isinstance(d[1], (ast.For, ast.comprehension)) else d[1]) for nm_ in srcs for d in astq.assignments(f_, nm_)
                                   if isinstance(d[1], ast.AST)) + ' ' + norm(c_.args[0])
                    pyval = any(k in txt for k in ('.as_py()', 'to_pylist()', '.tolist()'))
                    arrow_iter = any(isinstance(d[1], (ast.For, ast.comprehension)) and norm(d[1].iter) in ('self.data', 'self.listarray') for nm_ in srcs for d in astq.assignments(f_, nm_))
                    if arrow_iter and not pyval:
                        R.bad('C16.g', f_, c_, f'`{norm(c_)}` wraps the Arrow scalars of `self.data` directly: for an element that is not the first of its buffer the scalar keeps the parent\'s offsets, '
                              'so iterating gives other lengths than indexing (Line / Ring)', construct=f'{f_.qualname}: scalar from python value')
                    else:
                        R.ok('C16.g', f_, c_, 'a scalar is built from the element\'s python value', construct=f'{f_.qualname}: scalar from python value')
                R.check(dt is not None and ('numpy_dtype' in norm(astq.expand(f_, dt)) or 'subtype' in norm(astq.expand(f_, dt))), 'C16.g', f_, c_,
                        'a scalar is built from (value, the array\'s numpy dtype)',
                        f'`{norm(c_)}` builds a scalar without the array\'s element dtype: a Point of an int64 / float32 array is reinterpreted as float64, so iterating gives other '
                        'coordinates than indexing', construct=f'{f_.qualname}: scalar construction')
    R.floor('C16.g', 'scalar constructions in the array classes', nel, 1)
    # ---------------------------------------------------------------- C16.e
    gi = ga.members['__getitem__'][1]
    branch = None
    for s in gi.node.body:
        if isinstance(s, ast.If) and 'Integral' in norm(s.test):
            branch = s
    if branch is None:
        R.abstain('C16.e', gi, None, 'integer branch of __getitem__ not found')
    else:
        bad = []
        total = 0
        item = gi.params[1]
        for n_ in range(0, 5):
            for i_ in range(-6, 7):
                total += 1
                picked = []

                def call(I2, e, n_=n_):
                    fn = norm(e.func)
                    if fn == 'len':
                        return n_
                    if fn == 'int' and e.args:
                        return I2.expr(e.args[0])
                    if fn == 'isinstance':
                        return True
                    if fn == 'IndexError':
                        return ordeval.OPQ
                    return None

                def subscript(I2, e, base, picked=picked):
                    if norm(e.value) == 'self.data':
                        picked.append(I2.expr(e.slice))
                        return ordeval.OPQ
                    return None
                env = {item: i_, 'self': ordeval.OPQ}
                try:
                    I2, ctl = ordeval.run_fragment(branch.body, env, {'call': call, 'subscript': subscript, 'opaque_test': lambda a, b: False}, check_axes=False)
                except ordeval.NotComparisonOnly as e:
                    R.abstain('C16.e', gi, branch, f'integer branch could not be evaluated: {e}')
                    bad = None
                    break
                raised = ctl is not None and ctl.kind == 'raise'
                valid = -n_ <= i_ < n_
                if valid and (raised or not picked or picked[0] != (i_ if i_ >= 0 else i_ + n_)):
                    bad.append(f'n={n_}, i={i_}: ' + ('raises' if raised else f'reads position {picked[:1]}'))
                if not valid and not raised:
                    bad.append(f'n={n_}, i={i_}: accepted (reads {picked[:1]})')
            if bad is None:
                break
        if bad is not None:
            R.count('typed_ops', total)
            R.exhaustive_sites['C16.e integer index validation n<=4, |i|<=6'] = True
            R.check(not bad, 'C16.e', gi, branch.test, f'integer indexing accepts exactly -n <= i < n and reads position i (mod n) on all {total} evaluated (n, i)',
                    f'integer indexing is wrong for {bad[:4]}', construct='integer index validation', counterexamples=bad[:8])


def derived_state(P, R, ga, rule, nd=0):
    """A derived array (selection, copy, concatenation, cast) is built from (data, dtype) only: no attribute of the source is copied onto it, and it is an
    instance of the receiver's own class.  Returns the number of construction sites seen."""
    deriv = []
    for name in ('__getitem__', 'take', '_concat_same_type', 'copy', 'fillna', 'astype'):
        f0 = ga.members[name][1]
        deriv.append((name, f0))
        # helpers of the array class that a derivation calls (self._new_like(...), cls._rewrap(...))
        for c0 in astq.own_calls(f0):
            r0 = P.resolve_call(f0, c0)
            if r0 and r0[0] == 'func' and r0[1].cls is not None and ga in (r0[1].cls.mro or []) and r0[1].name not in ('__getitem__', 'take', '_concat_same_type', 'copy', 'fillna', 'astype',
                                                                                                                       'isna', '__len__', '__init__') \
                    and not any(r0[1] is d[1] for d in deriv):
                deriv.append((f'{name} -> {r0[1].name}', r0[1]))
    # a derived array is (data, dtype) and nothing else: no attribute of the source is copied onto it (a flag such as "already oriented" or a cached value
    # describes the SOURCE's rows, not the rows of a concatenation / selection)
    for name, f in deriv:
        for x in walk_own(f.node):
            if isinstance(x, ast.Assign):
                for t in x.targets:
                    if isinstance(t, ast.Attribute) and isinstance(t.value, ast.Name) and t.value.id not in ('self', 'cls') and t.attr.startswith('_'):
                        R.bad(rule, f, x, f'`{norm(x)}` in {name} copies state onto a derived array: the value was established for the source\'s rows and is wrong for a selection or concatenation',
                              construct=f'{f.qualname}: state copied to the derived array')
    for name, f in deriv:
        for s in ast.walk(f.node):
            if isinstance(s, ast.Call) and isinstance(s.func, (ast.Attribute, ast.Name, ast.Call)):
                fn = norm(s.func)
                if fn in ('self.__class__', 'type(self)', 'cls') or fn.endswith('Array') and fn[0].isupper():
                    nd += 1
                    R.check(fn in ('self.__class__', 'type(self)', 'cls'), rule, f, s, f'{name} constructs the receiver\'s own class', f'{name} constructs `{fn}`: a derived ring/polygon array changes its kind')
    return nd


def bitmap_small_scope(P, R, ex):
    """C16.a (bounded, exhaustive within the bound): `_extract_isnull_bytemap` is interpreted by E-VEC on structural stand-ins of an Arrow array --
    every offset 0..20 x length 0..12 x three bit patterns of a 5-byte validity bitmap (and the no-bitmap case): the answer must be
    [bit (offset + i) is clear for i < n].  Covers the loop idiom and vectorised rewrites alike (bit order, byte window, bit/byte unit mix-ups)."""
    import veceval
    patterns = [[0b10110101, 0b01101110, 0b11010011, 0b00111010, 0b10011101], [0xFF, 0x00, 0xFF, 0x00, 0xFF], [0x01, 0x80, 0x7E, 0xAA, 0x55]]
    bad, total, undec = [], 0, None
    for pat in patterns + [None]:
        bits = [(b >> k) & 1 for b in pat for k in range(8)] if pat is not None else None
        for off in range(0, 21):
            for n_ in range(0, 13):
                if pat is not None and off + n_ > len(bits):
                    continue
                if pat is None and off > 0:
                    continue
                arr = veceval.Stub()
                arr.offset = off
                arr.null_count = (sum(1 for b in bits[off:off + n_] if b == 0) if bits is not None else 0)
                arr.buffers = (lambda pat=pat: [veceval.Buf(pat) if pat is not None else None, None])
                total += 1
                ev = veceval.VecEval(P, ex, {ex.params[0]: arr}, n_)
                ev.stub_len = {id(arr): n_}
                try:
                    ev.block(ex.node.body)
                    got = None
                except veceval.Returned as r_:
                    got = r_.value
                except veceval.Unsupported as e_:
                    undec = str(e_)
                    break
                except (IndexError, TypeError, ValueError):
                    got = 'error'
                want = [b == 0 for b in bits[off:off + n_]] if bits is not None else [False] * n_
                norm_got = [bool(x) for x in got] if isinstance(got, list) else got
                if norm_got != want:
                    bad.append({'offset': off, 'len': n_, 'bitmap': pat, 'got': norm_got if not isinstance(norm_got, list) else [int(x) for x in norm_got], 'want': [int(x) for x in want]})
            if undec:
                break
        if undec:
            break
    if undec:
        R.abstain('C16.a', ex, None, f'_extract_isnull_bytemap uses a construct the small-scope evaluator does not model ({undec})', construct='validity bitmap small-scope equivalence')
        return
    R.count('typed_ops', total)
    R.exhaustive_sites['C16.a validity bitmap: offsets 0..20 x lengths 0..12 x 3 bit patterns'] = True
    R.check(not bad, 'C16.a', ex, None, f'the missing mask equals the cleared bits [offset, offset + n) of the validity bitmap on all {total} evaluated (offset, length, pattern) cases',
            f'the missing mask differs from the validity bits on {len(bad)} of {total} cases, e.g. {bad[:2]}: a sliced array reads the validity of other elements',
            construct='validity bitmap small-scope equivalence', counterexamples=bad[:4])


def getitem_small_scope(P, R, ga):
    """C16.f (whole function, exhaustive within the scope): `arr[item]` for an integer vector, a boolean mask or a slice is interpreted by E-VEC
    (with `take` inlined) on arrays of length n <= 4.  Integer vector: the positions [i mod n], in order, IndexError outside -n <= i < n.  Mask of the
    array's length: the positions that are True; any other length: IndexError.  Slice: exactly the positions Python's slice selects."""
    import itertools as _it
    import veceval
    mem = ga.members.get('__getitem__')
    if mem is None or mem[0] != 'func':
        return
    f = mem[1]
    ip = f.params[1]
    cases = []
    for n_ in range(0, 5):
        for ln in range(0, 4 if n_ else 2):
            for vals in _it.product(range(-2 * n_ - 1, n_ + 1), repeat=ln):
                vals = list(vals)
                valid = all(-n_ <= i < n_ for i in vals)
                cases.append((n_, vals, [i % n_ for i in vals] if valid and n_ else ([] if not vals else 'raise'), 'integer vector'))
        for ln in sorted({max(n_ - 1, 0), n_, n_ + 1}):
            for m in _it.product((False, True), repeat=ln):
                if ln == 0:
                    continue
                cases.append((n_, list(m), [k for k, b in enumerate(m) if b] if ln == n_ else 'raise', 'boolean mask'))
        ends = [None] + list(range(-n_ - 2, n_ + 3))
        for lo in ends:
            for hi in ends:
                for st in (None, 1, 2, -1, -2, 3):
                    cases.append((n_, slice(lo, hi, st), list(range(n_))[slice(lo, hi, st)], 'slice'))
    bad, total, undec = [], 0, None
    for n_, item, want, kind in cases:
        total += 1
        ev = veceval.VecEval(P, f, {ip: list(item) if isinstance(item, list) else item}, n_)
        ev.inline_take = True
        ev.scale_thresholds = True
        try:
            ev.block(f.node.body)
            got = 'no return'
        except veceval.Returned as r_:
            got = r_.value
        except veceval.Unsupported as e_:
            undec = f'{kind}: {e_}'
            break
        except (IndexError, TypeError, ValueError, ZeroDivisionError) as e_:
            got = f'error {type(e_).__name__}'
        if isinstance(got, veceval.SelfSlice):
            pos = got.positions(n_)
        elif isinstance(got, veceval.Gather):
            pos = list(got.idx)
        else:
            pos = got
        if pos != want:
            bad.append({'n': n_, 'item': str(item), 'positions returned': pos if isinstance(pos, list) else str(pos), 'wanted': want if want != 'raise' else 'IndexError'})
    if undec:
        R.abstain('C16.f', f, None, f'__getitem__ uses a construct the small-scope evaluator does not model ({undec})', construct='__getitem__ small-scope equivalence')
        return
    R.count('typed_ops', total)
    R.exhaustive_sites['C16.f arr[item]: integer vectors (length <= 3 over -2n-1..n), masks (lengths n-1..n+1), slices (ends -n-2..n+2, steps None,1,2,-1,-2,3), n <= 4'] = True
    R.check(not bad, 'C16.f', f, None, f'arr[item] selects exactly the requested positions for integer vectors, boolean masks and slices, and rejects out-of-range items ({total} items)',
            f'arr[item] differs from positional selection on {len(bad)} of {total} items, e.g. {bad[:3]}', construct='__getitem__ small-scope equivalence', counterexamples=bad[:5])


def take_small_scope(P, R, ga):
    """C16.f (whole function, exhaustive within the scope): `take(indices, allow_fill=False)` is interpreted by E-VEC for every index vector of length <= 4
    over -n..n-1 (n <= 4): it must gather exactly the positions [i mod n] in the order requested (whether through arrow take or through a slice served
    by any helper), and raise for an index outside -n <= i < n."""
    import itertools as _it
    import veceval
    mem = ga.members.get('take')
    if mem is None or mem[0] != 'func':
        return
    f = mem[1]
    ip = f.params[1]
    bad, total, undec = [], 0, None
    for n_ in range(0, 5):
        for ln in range(0, 5 if n_ else 2):
            for vals in _it.product(range(-n_ - 1, n_ + 1), repeat=ln):
                vals = list(vals)
                total += 1
                env = {ip: list(vals)}
                for p_, v_ in zip(f.params[2:], (False, None)):
                    env[p_] = v_
                ev = veceval.VecEval(P, f, env, n_)
                ev.scale_thresholds = True      # size thresholds of fast paths (module constants that are only compared) are scaled into the scope
                try:
                    ev.block(f.node.body)
                    got = 'no return'
                except veceval.Returned as r_:
                    got = r_.value
                except veceval.Unsupported as e_:
                    undec = str(e_)
                    break
                except (IndexError, TypeError, ValueError, ZeroDivisionError) as e_:
                    got = f'error {type(e_).__name__}'
                valid = all(-n_ <= i < n_ for i in vals)
                want = [i % n_ for i in vals] if valid and n_ else ([] if not vals else None)
                if isinstance(got, veceval.SelfSlice):
                    pos = got.positions(n_)
                elif isinstance(got, veceval.Gather):
                    pos = list(got.idx)
                elif isinstance(got, list):
                    pos = got
                else:
                    pos = got
                if valid and (n_ or not vals):
                    if pos != want:
                        bad.append({'n': n_, 'indices': vals, 'positions returned': pos if isinstance(pos, list) else str(pos), 'wanted': want})
                elif pos != 'raise':
                    bad.append({'n': n_, 'indices': vals, 'positions returned': pos if isinstance(pos, list) else str(pos), 'wanted': 'IndexError'})
            if undec:
                break
        if undec:
            break
    if undec:
        R.abstain('C16.f', f, None, f'take uses a construct the small-scope evaluator does not model ({undec})', construct='take small-scope equivalence')
        return
    R.count('typed_ops', total)
    R.exhaustive_sites['C16.f take(allow_fill=False): all index vectors of length <= 4 over -n-1..n, n <= 4'] = True
    R.check(not bad, 'C16.f', f, None, f'take(indices) gathers exactly the requested positions, in order, and rejects indices outside -n <= i < n ({total} index vectors)',
            f'take(indices) differs from a positional gather on {len(bad)} of {total} index vectors, e.g. {bad[:3]}', construct='take small-scope equivalence', counterexamples=bad[:5])


def selection_shortcuts(P, R, ga):
    """C16.f  A positional selection (take, boolean mask, integer array) may be served by a slice only when the requested positions ARE that slice.
    Every `return self[lo:hi]` whose bounds derive from the values of an index vector is evaluated, together with the tests guarding it, on all small
    index vectors (length <= 4 over positions 0..4; strictly increasing ones where the vector comes from np.nonzero): the positions of the slice must
    equal the vector (E-VEC small-scope evaluation of structural integers)."""
    import itertools as _it
    import veceval
    nsites = 0
    for fname in ('take', '__getitem__'):
        mem = ga.members.get(fname)
        if mem is None or mem[0] != 'func':
            continue
        f = mem[1]
        for ret in [x for x in walk_own(f.node) if isinstance(x, ast.Return) and isinstance(x.value, ast.Subscript) and norm(x.value.value) in ('self', 'self.data')
                    and isinstance(x.value.slice, ast.Slice)]:
            sl = ret.value.slice
            bnames = set()
            for b_ in (sl.lower, sl.upper):
                if b_ is not None:
                    bnames |= astq.names_in(b_)
            if not bnames:
                continue
            # source names of the bounds
            src = set(bnames)
            changed = True
            while changed:
                changed = False
                for nm in list(src):
                    for d in astq.assignments(f, nm):
                        if d[0] in ('expr', 'unpack') and isinstance(d[1], ast.AST):
                            new = astq.names_in(d[1]) - src
                            if new:
                                src |= new
                                changed = True
            vec = [v for v in src if v not in ('self', 'np', 'pa', 'pd') and (v in f.params or any(d[0] == 'expr' and ('nonzero(' in norm(d[1]) or 'asarray(' in norm(d[1]) or 'np.array(' in norm(d[1]))
                                                                                                    for d in astq.assignments(f, v)))]
            vec = [v for v in vec if v != f.params[1] or fname == 'take'] if fname == '__getitem__' else vec
            if len(vec) != 1:
                continue
            V = vec[0]
            strictly = any(d[0] == 'expr' and 'nonzero(' in norm(d[1]) for d in astq.assignments(f, V))
            # fragment: siblings of the outermost guarding statement, from the first one that mentions a V-derived name
            top = ret
            while getattr(top, '_parent', None) is not None and isinstance(top._parent, ast.If) and (astq.names_in(top._parent.test) & src):
                top = top._parent
            par = getattr(top, '_parent', None)
            sibs = None
            for field in ('body', 'orelse'):
                lst = getattr(par, field, None)
                if isinstance(lst, list) and top in lst:
                    sibs = lst
            if sibs is None:
                continue
            k = sibs.index(top)
            j = k
            while j > 0 and isinstance(sibs[j - 1], ast.Assign) and (astq.names_in(sibs[j - 1].value) & src) and not any(isinstance(t, ast.Name) and t.id == V for t in sibs[j - 1].targets):
                j -= 1
            frag = sibs[j:k + 1]
            nsites += 1
            bad, total, undec = [], 0, None
            for n_ in range(1, 6):
                for ln in range(0, 5):
                    for vals in _it.product(range(n_), repeat=ln):
                        vals = list(vals)
                        if strictly and any(b <= a for a, b in zip(vals, vals[1:])):
                            continue
                        total += 1
                        ev = veceval.VecEval(P, f, {V: vals}, n_)
                        ev.env['len_self'] = n_
                        try:
                            ev.block(frag)
                        except veceval.Returned as r_:
                            if r_.node is ret and isinstance(r_.value, veceval.SelfSlice):
                                if r_.value.positions(n_) != vals:
                                    bad.append({'requested': vals, 'len': n_, 'slice': [r_.value.lo, r_.value.hi], 'returns positions': r_.value.positions(n_)})
                        except veceval.Unsupported as e_:
                            undec = str(e_)
                            break
                        except (IndexError, TypeError, ValueError, ZeroDivisionError):
                            pass
                    if undec:
                        break
                if undec:
                    break
            if undec:
                R.abstain('C16.f', f, ret, f'slice shortcut `{norm(ret)}`: its guard uses a construct the small-scope evaluator does not model ({undec})', construct=f'{f.qualname}: {norm(ret)}')
                continue
            R.count('typed_ops', total)
            R.check(not bad, 'C16.f', f, ret, f'`{norm(ret)}` is taken only when the requested positions are exactly that slice ({total} index vectors)',
                    f'`{norm(ret)}` is taken for index vectors that are not that slice, e.g. {bad[:3]}: repeated / skipped positions come back as a run of neighbouring rows',
                    construct=f'{f.qualname}: {norm(ret)}', counterexamples=bad[:5])
    R.count('selection_shortcut_sites', nsites)


def _d(ix):
    o = getattr(ix, 'origin', None)
    d = getattr(ix, 'delta', 0)
    name = {'array.offset': 'offset', 'array.end': 'offset + len'}.get(o, 'const' if o is None else str(o))
    return name + (f' {d:+d}' if d else '')
