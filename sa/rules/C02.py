"""C02 — point-versus-shape `intersects` is exact (the predicate behind sjoin) — partially decided.

 C02.a  units of the point-vs-shape kernels and wrappers: flat_points[2*j] is X and [2*j+1] is Y of element j (also through inds),
        the shape side is the whole value buffer with the innermost (per ring/line) offsets, part ranges are [offs[k], offs[k+1]),
        cross products are X*Y - Y*X, segment end points are consecutive vertices of one part.
 C02.b  form agreement: scalar and array forms dispatch on the same six shape classes to siblings of the same name; polygon forms
        reach the same kernel with (x, y, whole values, innermost offsets); both line forms decide "on a segment" through the same
        routine; the bbox pre-filter is sound; with inds the read index and the write index come from the same enumerate(inds), and
        inds=None means arange(len(self)); a hit is never reset by a later part (monotone accumulator).
 C02.c  half-open edge rule of the winding loop: horizontal edges skipped; for y0 < y1 the edge is considered for y strictly between, for
        exactly one of y = y0 / y = y1, never outside (either half-open convention passes; closed or open fails).
 C02.d  a missing point gives False: fixed-width values are masked by the validity mask before the public result (taint).
 C02.e  segment_intersects_point: the bbox part is the closed box of the segment; the on-line test is `cross == 0` with cross = X*Y - Y*X.
Does not decide: the winding-number arithmetic, behaviour exactly on ring boundaries, exact arithmetic.
"""
import ast

import astq
import ordeval
from ordeval import Sym, Row, OPQ
from units import Interp, Vals, Tup, Q, Off, OffC, Arr, Const, Sel, Mask, Obj
from model import walk_own, AnalysisError, full as norm
from rules import geom

EXPLANATION = (
    'Units/levels abstract interpretation of PointArray.intersects / Point.intersects against scalars of all six shape kinds; sibling comparison of '
    'the two dispatch tables and of the routines each arm reaches; exhaustive order-type evaluation of the half-open edge filter, of the line bbox '
    'pre-filters and of the closed segment box; a monotone-accumulator rule for multi-part shapes; validity-mask taint for missing points.')

IX = 'spatialpandas.geometry._algorithms.intersection'
PT = 'spatialpandas.geometry.point'
SHAPES = [('point', 'Point', None), ('multipoint', 'MultiPoint', 0), ('line', 'Line', 0), ('multiline', 'MultiLine', 1), ('polygon', 'Polygon', 1), ('multipolygon', 'MultiPolygon', 2)]


def run(P, R, tier):
    units_part(P, R)
    dispatch(P, R)
    edge_rule(P, R)
    prefilters(P, R)
    segment_point(P, R)
    from rules import C13
    C13.fixed_taint(P, R, 'C02.d', ('intersects',))
    from rules import common as _cm
    _cm.coordinate_buffers_row_major(P, R, 'C02.a')
    _cm.scalar_dtype_from_data(P, R, 'C02.a')
    # sibling agreement on the shared kernel: every caller of point_intersects_polygon (scalar form, array kernel, the box-corner step of the polygon kernels)
    # asks it the same question - same number of positional arguments, same keyword options.  A mode switch passed by one form only makes the forms disagree
    pip = P.find_func('spatialpandas.geometry._algorithms.intersection', 'point_intersects_polygon')
    sites = []
    for f in P.all_funcs():
        for c in astq.own_calls(f):
            if astq.is_call_to(P, f, c, pip):
                sites.append((f, c, (len(c.args), tuple(sorted((k.arg, norm(k.value)) for k in c.keywords if k.arg)))))
    R.floor('C02.b', 'callers of point_intersects_polygon', len(sites), 3)
    import collections as _c
    major = _c.Counter(sig for _, _, sig in sites).most_common(1)[0][0]
    for f, c, sig in sites:
        R.check(sig == major, 'C02.b', f, c, f'{f.qualname} calls point_intersects_polygon like every other form ({major[0]} arguments, options {list(major[1])})',
                f'`{norm(c)[:90]}` passes {sig[0]} arguments / options {list(sig[1])} while the other forms pass {major[0]} / {list(major[1])}: the scalar, array and box forms no longer ask the '
                'same question, so they disagree for the inputs the option changes (e.g. clockwise shells)', construct=f'{f.qualname}: point_intersects_polygon call form')


def units_part(P, R):
    I = Interp(P)
    seen = set()
    n = 0
    pa = geom.point_array(P)
    pip = P.func(IX, 'point_intersects_polygon')
    for mod, cls, L in SHAPES:
        if L is None:
            continue
        shape = geom.scalar(P, mod, cls, L)
        for label, inds in (('all', Const(None)), ('inds', Sel(0))):
            ev0 = len(I.events)
            geom.call(I, pa, 'intersects', [shape, inds], f'PointArray.intersects({cls})[{label}]')
            n += 1
            geom.flush(R, 'C02.a', I, seen, f'PointArray.intersects({cls})[{label}]')
            for k, f, node, pl in I.events[ev0:]:
                if k == 'call' and pl[0].name.startswith('_perform_intersects_') and f is not None:
                    args = pl[1]
                    vals = [a for a in args if isinstance(a, Vals)]
                    offs = [a for a in args if isinstance(a, (Off, OffC))]
                    okp = bool(vals) and vals[0].placeholder and vals[0].base == 'win'
                    R.check(okp, 'C02.a', f, node, 'the kernel receives the array\'s own (windowed) point buffer', f'the kernel receives {vals[:1]!r:.70} as point buffer')
                    if pl[0].name != '_perform_intersects_multipoint':
                        oks = len(vals) >= 2 and vals[1].base == 'abs' and vals[1].L == L
                        R.check(oks, 'C02.a', f, node, f'{cls}: the shape side is its whole value buffer', f'{cls}: the shape side is {vals[1:2]!r:.70}')
                        oko = len(offs) == 1 and isinstance(offs[0], Off) and offs[0].level == L - 1 and not getattr(offs[0], 'modified', False)
                        R.check(oko, 'C02.a', f, node, f'{cls}: the kernel receives the innermost (per ring/line) offsets of the shape',
                                f'{cls}: the kernel receives {offs!r:.90}: rings/lines of the shape are merged or dropped')
                    sel = [a for a in args if isinstance(a, Sel)]
                    R.check(len(sel) == 1, 'C02.b', f, node, 'the kernel always receives an index selection (inds, or arange(len(self)) when inds is None)',
                            f'the kernel does not receive a selection of element indices ({[type(a).__name__ for a in args]})', nontrivial=False)
        # scalar point
        pt = Obj(P.cls(PT + '.Point'), {'data': OPQ_DATA})
    geom.stats(R, I)
    R.floor('C02.a', 'array entry forms typed', n, 10)
    # scalar Point forms: the polygon arm passes (x, y, whole values, innermost offsets) to the same kernel
    for form, qual in (('scalar', 'Point._intersects_polygon'), ('array', '_perform_intersects_polygon')):
        f = P.func(PT, qual)
        calls = [c for c in astq.own_calls(f) if astq.is_call_to(P, f, c, pip)]
        R.check(len(calls) == 1, 'C02.b', f, calls[0] if calls else None, f'{form} polygon form asks point_intersects_polygon', f'{form} polygon form does not call point_intersects_polygon')
    sp = P.func(PT, 'Point._intersects_polygon')
    for c in astq.own_calls(sp):
        if astq.is_call_to(P, sp, c, pip):
            a = [norm(x) for x in c.args]
            ok = a == ['self.x', 'self.y', f'{sp.params[1]}.buffer_values', f'{sp.params[1]}.buffer_inner_offsets']
            R.check(ok, 'C02.b', sp, c, 'scalar polygon form passes (x, y, whole values, innermost offsets)', f'scalar polygon form passes {a}')
    ap = P.func(PT, 'PointArray._intersects_polygon')
    for c in astq.own_calls(ap):
        if 'perform_intersects_polygon' in norm(c.func):
            a = [norm(x) for x in c.args]
            ok = a[:3] == ['self.flat_values', f'{ap.params[1]}.buffer_values', f'{ap.params[1]}.buffer_inner_offsets']
            R.check(ok, 'C02.b', ap, c, 'array polygon form passes (points, whole values, innermost offsets, inds)', f'array polygon form passes {a}')
    # x/y of element j, read and write index from the same enumerate(inds)
    # C02.f: a point belongs to a multipoint when ONE member has both its coordinates: membership tested per axis (np.isin on the x's and on the y's
    # separately, `x in xs and y in ys`) accepts (x of one member, y of another)
    nmp = 0
    for g_ in P.mods[PT].funcs.values():
        if 'multipoint' not in g_.name.lower() or 'intersects' not in g_.name.lower():
            continue
        nmp += 1
        per_axis = []
        for c in ast.walk(g_.node):
            tgt = None
            if isinstance(c, ast.Call) and norm(c.func).split('.')[-1] in ('isin', 'in1d') and len(c.args) >= 2:
                tgt = c.args[1]
            elif isinstance(c, ast.Compare) and len(c.ops) == 1 and isinstance(c.ops[0], (ast.In, ast.NotIn)):
                tgt = c.comparators[0]
            if tgt is None:
                continue
            e = astq.expand(g_, tgt)
            one_axis = any(isinstance(x, ast.Subscript) and isinstance(x.slice, ast.Slice) and x.slice.step is not None and norm(x.slice.step) == '2' for x in ast.walk(e)) \
                or any(isinstance(x, ast.Attribute) and x.attr in ('x', 'y', 'xs', 'ys') for x in ast.walk(e))
            if one_axis:
                per_axis.append(c)
        R.check(not per_axis, 'C02.f', g_, per_axis[0] if per_axis else None, 'multipoint membership pairs x and y of the same member',
                f'`{norm(per_axis[0]) if per_axis else ""}` tests membership on one axis only: a point with the x of one member and the y of another is reported as intersecting',
                construct=f'{g_.name}: paired membership')
    R.floor('C02.f', 'point-vs-multipoint functions', nmp, 2)
    for name in ('_perform_intersects_multipoint', '_perform_intersects_line', '_perform_intersects_polygon'):
        f = P.mods[PT].funcs.get(name)
        if f is None:
            if any(o.status == 'violated' for o in R.obs):
                continue        # the kernel was replaced and the replacement is already reported
            raise AnalysisError(f'function {PT}:{name} not found (anchor vanished)')
        loops = [l for l in f.node.body if isinstance(l, ast.For)]
        ok = False
        rname = next((norm(s.value) for s in f.node.body if isinstance(s, ast.Return) and isinstance(s.value, ast.Name)), 'result')
        if loops:
            l = loops[0]
            if isinstance(l.iter, ast.Call) and norm(l.iter.func) == 'enumerate' and norm(l.iter.args[0]) == f.params[-1] and isinstance(l.target, ast.Tuple):
                i_, j_ = [t.id for t in l.target.elts]
                reads = {norm(x.slice): True for x in ast.walk(l) if isinstance(x, ast.Subscript) and norm(x.value) == f.params[0] and isinstance(x.ctx, ast.Load)}
                okr = set(reads) == {f'2 * {j_}', f'2 * {j_} + 1'}
                writes = [s for s in ast.walk(l) if isinstance(s, ast.Assign) and isinstance(s.targets[0], ast.Subscript) and norm(s.targets[0].value) == rname]
                okw = bool(writes) and all(norm(s.targets[0].slice) == i_ for s in writes)
                ok = okr and okw
                # monotone accumulator: a store nested in an inner loop must be the constant True
                for s in writes:
                    depth = 0
                    p_ = getattr(s, '_parent', None)
                    while p_ is not None and p_ is not l:
                        if isinstance(p_, ast.For):
                            depth += 1
                        p_ = getattr(p_, '_parent', None)
                    if depth >= 1:
                        R.check(norm(s.value) == 'True', 'C02.b', f, s, 'inside the loop over parts a hit is only ever switched on (result[i] = True)',
                                f'`{norm(s)}` inside the loop over parts/segments can reset a hit found in an earlier part: a point on the first line of a multiline is lost')
        R.check(ok, 'C02.b', f, loops[0] if loops else None, f'{name}: point j = inds[i] is read at (2j, 2j+1) and its answer is written to slot i',
                f'{name}: read/write indices do not come from the same enumerate(inds)')
        zero = any(isinstance(s, ast.Assign) and norm(s.targets[0]) == rname and norm(s.value).startswith('np.zeros(') and 'bool' in norm(s.value) for s in f.node.body)
        R.check(zero, 'C02.b', f, None, f'{name}: the result starts all-False with one slot per selected point', f'{name}: result is not np.zeros(n, bool)', construct=f'{name} result init', nontrivial=False)
    # the array polygon kernel asks the exact predicate for EVERY selected point; a skip is accepted only when its bounds are taken over the
    # whole shape (all rings of all parts): the kernel is shared by polygons and multipolygons
    import cfg as cfgmod
    pk = P.func(PT, '_perform_intersects_polygon')
    lp = [l for l in pk.node.body if isinstance(l, ast.For)]
    if lp:
        C = cfgmod.build(pk.node)
        exact = [C.node(s_) for s_ in ast.walk(lp[0]) if isinstance(s_, ast.Assign) and isinstance(s_.value, ast.Call) and astq.is_call_to(P, pk, s_.value, pip)]
        exact = [n_ for n_ in exact if n_ is not None]
        skips = [s_ for s_ in ast.walk(lp[0]) if isinstance(s_, ast.If) and any(isinstance(x, (ast.Continue, ast.Break)) for x in s_.body)]
        head = C.node(lp[0])
        first = C.node(lp[0].body[0])
        bypass = bool(exact) and first not in exact and C.can_reach(first, head, blocked=set(exact))
        whole = True
        for sk in skips:
            srcs = set()
            for nm in astq.names_in(sk.test):
                g_, d_ = astq.unique_def(pk, nm)
                if isinstance(d_, ast.AST):
                    srcs.add(norm(d_))
                elif isinstance(d_, tuple) and d_[0] == 'unpack':
                    srcs.add(norm(d_[1]))
            for a_ in astq.assignments(pk, next(iter(astq.names_in(sk.test) - {pk.params[0]}), '')):
                pass
            txt_ = ' '.join(srcs) + ' ' + ' '.join(norm(x[1]) for nm in astq.names_in(sk.test) for x in astq.assignments(pk, nm) if x[0] in ('expr', 'unpack'))
            whole = whole and ('[-1]' in txt_ and '[0]' in txt_)
        R.check(not bypass or (bool(skips) and whole), 'C02.b', pk, skips[0].test if skips else lp[0],
                'the array polygon kernel asks point_intersects_polygon for every selected point (or skips only on a bbox of the whole shape)',
                'the array polygon kernel can skip the exact test on a bbox that does not span all rings/parts of the shape (the kernel also serves multipolygons): '
                'points inside a later part are reported False while the scalar form reports True', construct='no unsound skip before the exact polygon test')
    # inds=None -> arange(len(self))
    for name in ('PointArray._intersects_multipoint', 'PointArray._intersects_line', 'PointArray._intersects_polygon'):
        f = P.func(PT, name)
        ip_ = f.params[-1]
        ok = any(isinstance(s, ast.If) and norm(s.test) == f'{ip_} is None' and any(norm(x) == f'{ip_} = np.arange(len(self))' for x in s.body) for s in f.node.body)
        gather = any(isinstance(s, ast.If) and norm(s.test) == f'{ip_} is not None' and any(isinstance(x, ast.Assign) and isinstance(x.value, ast.Subscript) and norm(x.value.slice) == ip_ for x in s.body)
                     for s in walk_own(f.node))
        used = any(isinstance(x, ast.Name) and x.id == ip_ and isinstance(x.ctx, ast.Load) for x in walk_own(f.node))
        if ok or gather:
            R.ok('C02.b', f, None, f'{name}: inds=None means every element' if ok else f'{name}: the coordinates are gathered by inds when it is given', construct=f'{name} default inds')
        elif not used:
            R.bad('C02.b', f, None, f'{name} ignores inds: the answer is not restricted to (and ordered by) the requested positions', construct=f'{name} default inds')
        else:
            R.abstain('C02.b', f, None, f'{name}: handling of inds=None not recognised', construct=f'{name} default inds')
    # C02.g: the scalar point-vs-point form compares coordinate VALUES (x with x, y with y) like the array form; object equality of the two
    # geometries compares Arrow scalars (element dtype and bit pattern), so 0.0 / -0.0 or an int64 and a float64 point at the same place differ
    sp = P.func(PT, 'Point._intersects_point')
    other = sp.params[1] if len(sp.params) > 1 else 'point'
    outs = {}
    objeq = [c for c in walk_own(sp.node) if isinstance(c, ast.Compare) and len(c.ops) == 1 and isinstance(c.ops[0], (ast.Eq, ast.NotEq, ast.Is))
             and {norm(astq.expand(sp, c.left)), norm(astq.expand(sp, c.comparators[0]))} & {'self', other, 'self.data', f'{other}.data'}]
    if objeq:
        R.bad('C02.g', sp, objeq[0], f'`{norm(objeq[0])}` decides point-vs-point by object equality (Arrow scalar comparison), not by the coordinate values: points at the same place with another '
              'element dtype, or 0.0 against -0.0, are reported as not intersecting while the array form reports True', construct='scalar point-vs-point compares values')
    else:
        try:
            for rx in ((0, 0), (0, 1), (1, 0)):
                for ry in ((0, 0), (0, 1), (1, 0)):
                    vals = {'self.x': Sym(rx[0], 'sx', 'X'), f'{other}.x': Sym(rx[1], 'px', 'X'), 'self.y': Sym(ry[0], 'sy', 'Y'), f'{other}.y': Sym(ry[1], 'py', 'Y')}
                    I_, ctl = ordeval.run_fragment(sp.node.body, {'self': OPQ, other: OPQ}, {'attr': lambda I, e, vals=vals: vals.get(norm(e))})
                    outs[(rx, ry)] = ctl.val if ctl is not None and ctl.kind == 'return' else None
            wrong = [k for k, v in outs.items() if v is OPQ or bool(v) != (k[0][0] == k[0][1] and k[1][0] == k[1][1])]
            R.check(not wrong, 'C02.g', sp, None, 'scalar point-vs-point is x == x and y == y on the coordinate values (9 order cases)',
                    f'scalar point-vs-point differs from coordinate equality on {len(wrong)} of 9 cases, e.g. {wrong[:2]}', construct='scalar point-vs-point compares values')
        except (ordeval.NotComparisonOnly, ordeval.AxisMismatch) as e:
            R.abstain('C02.g', sp, None, f'scalar point-vs-point is not a comparison of coordinates the evaluator can follow ({e})', construct='scalar point-vs-point compares values')
    ip = P.func(PT, 'PointArray._intersects_point')
    txt = norm(ip.node)
    fl = next((s_.targets[0].id for s_ in walk_own(ip.node) if isinstance(s_, ast.Assign) and isinstance(s_.targets[0], ast.Name) and norm(s_.value) == 'self.flat_values'), 'flat')
    pt_, inds_ = ip.params[1], ip.params[2]
    ok = f'{fl}[{inds_} * 2] == {pt_}.x' in txt and f'{fl}[{inds_} * 2 + 1] == {pt_}.y' in txt and f'{fl}[0::2] == {pt_}.x' in txt and f'{fl}[1::2] == {pt_}.y' in txt
    R.check(ok, 'C02.a', ip, None, 'point-vs-point compares x with x (even positions) and y with y (odd positions), also through inds', 'point-vs-point mixes coordinate positions', construct='_intersects_point positions')


OPQ_DATA = None


def dispatch(P, R):
    sc = P.func(PT, 'Point.intersects')
    ar = P.func(PT, 'PointArray.intersects')

    def table(f):
        out = {}
        node = [s for s in f.node.body if isinstance(s, ast.If)]
        if not node:
            return out
        n = node[0]
        while True:
            t = n.test
            if isinstance(t, ast.Call) and norm(t.func) == 'isinstance':
                cls = norm(t.args[1])
                callee = None
                for x in ast.walk(ast.Module(body=n.body, type_ignores=[])):
                    if isinstance(x, ast.Call) and isinstance(x.func, ast.Attribute) and norm(x.func.value) == 'self':
                        callee = x.func.attr
                out[cls] = callee
            if len(n.orelse) == 1 and isinstance(n.orelse[0], ast.If):
                n = n.orelse[0]
            else:
                out['__else_raises__'] = any(isinstance(x, ast.Raise) for x in n.orelse)
                break
        return out
    ts, ta = table(sc), table(ar)
    want = {'Point': '_intersects_point', 'MultiPoint': '_intersects_multipoint', 'Line': '_intersects_line', 'MultiLine': '_intersects_line',
            'Polygon': '_intersects_polygon', 'MultiPolygon': '_intersects_polygon'}
    for nm, t, f in (('scalar', ts, sc), ('array', ta, ar)):
        got = {k: v for k, v in t.items() if k != '__else_raises__'}
        R.check(got == want, 'C02.b', f, None, f'{nm} form dispatches the six shape classes to the matching helpers', f'{nm} form dispatch table is {got}', construct=f'{nm} dispatch table')
    R.check(ts == ta, 'C02.b', ar, None, 'scalar and array forms have the same dispatch table', f'scalar and array dispatch tables differ: {ts} vs {ta}', construct='dispatch agreement')
    # both line forms decide on-segment through segment_intersects_point, over consecutive vertices of the same part
    sip = P.func(IX, 'segment_intersects_point')
    for qual in ('Point._intersects_line', '_perform_intersects_line'):
        f = P.func(PT, qual)
        calls = [c for c in ast.walk(f.node) if isinstance(c, ast.Call) and astq.is_call_to(P, f, c, sip)]
        R.check(len(calls) >= 1, 'C02.b', f, calls[0] if calls else None, f'{qual} decides "point on segment" through segment_intersects_point (closed segment box + zero cross product)',
                f'{qual} no longer calls segment_intersects_point: the two forms decide "on a segment" differently (a point collinear with a segment but beyond its end is matched)',
                construct=f'{qual} on-segment routine')
        for c in calls:
            # arguments 0..3 are vertices m and m+1 of the same coordinate arrays
            a = [astq.trace(f, x) for x in c.args[:4]]
            txt = [norm(x) if isinstance(x, ast.AST) else '' for x in a]
            ok = len(txt) == 4 and all(isinstance(x, ast.Subscript) for x in a) and norm(a[0].value) == norm(a[2].value) and norm(a[1].value) == norm(a[3].value) \
                and norm(a[0].value) != norm(a[1].value) and norm(a[2].slice) == f'{norm(a[0].slice)} + 1' and norm(a[3].slice) == f'{norm(a[1].slice)} + 1' and norm(a[0].slice) == norm(a[1].slice)
            R.check(ok, 'C02.a', f, c, 'the segment is (vertex m, vertex m+1) of the same part, x with x and y with y', f'segment end points are {txt}: not consecutive vertices of one part')
        eq = [x for x in ast.walk(f.node) if isinstance(x, ast.Call) and norm(x.func) == 'np.any' and '==' in norm(x)]
        R.check(bool(eq), 'C02.b', f, eq[0] if eq else None, f'{qual} tests vertex equality', f'{qual} has no vertex-equality test', nontrivial=False)


def edge_rule(P, R):
    f = P.func(IX, 'point_intersects_polygon')
    inner = None
    for l in ast.walk(f.node):
        if isinstance(l, ast.For) and any(isinstance(s, ast.AugAssign) for s in ast.walk(l)) and not any(isinstance(s, ast.For) for b in l.body for s in ast.walk(b)):
            inner = l
    if inner is None:
        R.abstain('C02.c', f, None, 'edge loop of the winding-number routine not found')
        return
    # names of the edge end points and of the test point
    reads = [s for s in inner.body if isinstance(s, ast.Assign) and isinstance(s.value, ast.Subscript) and norm(s.value.value) == f.params[2]]
    by_off = {}
    for s in reads:
        ix = norm(s.value.slice)
        off = 0 if '+' not in ix else int(ix.split('+')[-1])
        by_off[off] = s.targets[0].id
    if set(by_off) != {0, 1, 2, 3}:
        R.abstain('C02.c', f, inner, 'edge end points are not read as values[k .. k+3]')
        return
    ex0, ey0, ex1, ey1 = by_off[0], by_off[1], by_off[2], by_off[3]
    px, py = f.params[0], f.params[1]
    wn = None
    for s in ast.walk(inner):
        if isinstance(s, ast.AugAssign) and isinstance(s.target, ast.Name):
            wn = s.target.id
    body = [s for s in inner.body if s not in reads]
    bad = []
    table = {}
    for o in ordeval.orderings(3):
        a, b, y = o        # edge from y=a to y=b, test point at y
        env = {ex0: Sym(1, 'ex0', 'X'), ex1: Sym(1, 'ex1', 'X'), px: Sym(0, 'x', 'X'), ey0: Sym(a, 'ey0', 'Y'), ey1: Sym(b, 'ey1', 'Y'), py: Sym(y, 'y', 'Y'), wn: 0}
        try:
            I, ctl = ordeval.run_fragment(body, env, {})
        except ordeval.AxisMismatch as e:
            R.bad('C02.a', f, e.node, f'edge filter mixes axes: {e.a.name} with {e.b.name}')
            return
        except ordeval.NotComparisonOnly as e:
            R.abstain('C02.c', f, inner, f'edge filter is not comparison-only for an edge entirely to the right of the point: {e}')
            return
        table[o] = I.env[wn] != 0
    R.count('orderings', len(table))
    R.exhaustive_sites['C02.c half-open edge rule (13 orderings of y0, y1, y)'] = True
    # specification
    for (a, b, y), counted in table.items():
        lo, hi = min(a, b), max(a, b)
        if a == b and counted:
            bad.append(f'horizontal edge (y0=y1) counted, ordering {(a, b, y)}')
        if a != b and lo < y < hi and not counted:
            bad.append(f'edge not counted although y is strictly between its ends, ordering {(a, b, y)}')
        if a != b and (y < lo or y > hi) and counted:
            bad.append(f'edge counted although y is outside its y-range, ordering {(a, b, y)}')
    # ties: exactly one of y == lo / y == hi is counted, consistently for ascending and descending edges
    for asc in (True, False):
        at_lo = table[(0, 1, 0)] if asc else table[(1, 0, 0)]
        at_hi = table[(0, 1, 1)] if asc else table[(1, 0, 1)]
        if at_lo == at_hi:
            bad.append(f'{"ascending" if asc else "descending"} edge: end points are counted {"both" if at_lo else "neither"} — a ray through a vertex is counted '
                       f'{"twice" if at_lo else "never"} (closed/open instead of half-open)')
    if table[(0, 1, 0)] != table[(1, 0, 0)] or table[(0, 1, 1)] != table[(1, 0, 1)]:
        bad.append('ascending and descending edges use different half-open conventions: a ray through a vertex where the ring passes straight through is counted 0 or 2 times')
    R.check(not bad, 'C02.c', f, inner, 'edge filter is half-open in y: strictly-between always counted, exactly one end point counted, outside and horizontal never (all 13 orderings)',
            f'edge filter violates the half-open rule: {bad[:3]}', construct='half-open edge rule', counterexamples=bad[:6])
    # direction: an originally ascending edge adds +1, a descending one -1 (so that a closed ring cancels outside and sums to +-1 inside)
    for (a_, b_, y_), sgn in (((0, 2, 1), 1), ((2, 0, 1), -1)):
        env = {ex0: Sym(1, 'ex0', 'X'), ex1: Sym(1, 'ex1', 'X'), px: Sym(0, 'x', 'X'), ey0: Sym(a_, 'ey0', 'Y'), ey1: Sym(b_, 'ey1', 'Y'), py: Sym(y_, 'y', 'Y'), wn: 0}
        I, ctl = ordeval.run_fragment(body, env, {})
        R.check(I.env[wn] == sgn, 'C02.c', f, inner, f'an {"ascending" if sgn > 0 else "descending"} edge crossed by the ray changes the winding number by {sgn:+d}',
                f'an {"ascending" if sgn > 0 else "descending"} edge changes the winding number by {I.env[wn]:+d} instead of {sgn:+d}: rings no longer cancel outside the polygon',
                construct=f'winding increment {"ascending" if sgn > 0 else "descending"}')
    # straddling edge (one end left of the point, one right): the crossing is decided by the SIGN of one cross product; with the sign abstracted the edge
    # must be counted for a positive sign and not for a negative one (zero = point on the edge, outside the guarantee)
    mixed_bad = []
    for xs_ in ((0, 2, 1), (2, 0, 1)):
        for sgn in (-1, 1):
            env = {ex0: Sym(xs_[0], 'ex0', 'X'), ex1: Sym(xs_[1], 'ex1', 'X'), px: Sym(xs_[2], 'x', 'X'), ey0: Sym(0, 'ey0', 'Y'), ey1: Sym(2, 'ey1', 'Y'), py: Sym(1, 'y', 'Y'), wn: 0}
            try:
                I, ctl = ordeval.run_fragment(body, env, {'arith_sign': lambda I_, n_, sgn=sgn: sgn})
            except (ordeval.NotComparisonOnly, ordeval.AxisMismatch) as e:
                mixed_bad = None
                R.abstain('C02.c', f, inner, f'straddling-edge decision is not of the form "sign of one arithmetic quantity": {e}')
                break
            counted = I.env[wn] != 0
            if counted != (sgn > 0):
                mixed_bad.append({'x(e0,e1,p)': xs_, 'cross_sign': sgn, 'counted': counted})
        if mixed_bad is None:
            break
    if mixed_bad is not None:
        R.check(not mixed_bad, 'C02.c', f, inner, 'a straddling edge is crossed exactly when the cross product (lower vertex, upper vertex, point) is positive',
                f'straddling-edge decision is wrong for {mixed_bad[:2]}', construct='straddling edge sign test', counterexamples=mixed_bad[:4])
    # edges entirely to the left of the point are skipped, entirely to the right are counted without arithmetic
    ok = True
    for xs, want in (((1, 1, 0), True), ((0, 0, 1), False)):
        env = {ex0: Sym(xs[0], 'ex0', 'X'), ex1: Sym(xs[1], 'ex1', 'X'), px: Sym(xs[2], 'x', 'X'), ey0: Sym(0, 'ey0', 'Y'), ey1: Sym(2, 'ey1', 'Y'), py: Sym(1, 'y', 'Y'), wn: 0}
        try:
            I, ctl = ordeval.run_fragment(body, env, {})
            ok = ok and ((I.env[wn] != 0) == want)
        except (ordeval.NotComparisonOnly, ordeval.AxisMismatch):
            ok = False
    R.check(ok, 'C02.c', f, inner, 'an edge entirely right of the point is crossed by the ray, an edge entirely left is not', 'left/right pre-classification of edges is wrong', construct='left/right edge classification')


def prefilters(P, R):
    # array form: `if x < b[0] or y < b[1] or x > b[2] or y > b[3]: continue` ; scalar form: self.intersects_bounds(bounds) (closed, C01.e)
    f = P.func(PT, '_perform_intersects_line')
    bname = next((s_.targets[0].id for s_ in ast.walk(f.node) if isinstance(s_, ast.Assign) and isinstance(s_.targets[0], ast.Name) and isinstance(s_.value, ast.Tuple)
                  and len(s_.value.elts) == 4 and all(isinstance(e_, ast.Call) and norm(e_.func) in ('min', 'max') for e_ in s_.value.elts)), 'bounds')
    xy = {}
    for s_ in ast.walk(f.node):
        if isinstance(s_, ast.Assign) and isinstance(s_.targets[0], ast.Name) and isinstance(s_.value, ast.Subscript) and norm(s_.value.value) == f.params[0]:
            xy['y' if '+ 1' in norm(s_.value.slice) else 'x'] = s_.targets[0].id
    xname, yname = xy.get('x', 'x'), xy.get('y', 'y')
    tests = [s for s in ast.walk(f.node) if isinstance(s, ast.If) and any(isinstance(x, ast.Continue) for x in s.body) and bname in astq.names_in(s.test)]
    R.floor('C02.b', 'bbox pre-filter in the array line kernel', len(tests), 1)
    for t in tests:
        bad = []
        cases = [o for o in ordeval.orderings(3) if o[0] <= o[1]]
        for cx in cases:
            for cy in cases:
                env = {xname: Sym(cx[2], 'x', 'X'), yname: Sym(cy[2], 'y', 'Y'), bname: Row([Sym(cx[0], 'b.x0', 'X'), Sym(cy[0], 'b.y0', 'Y'), Sym(cx[1], 'b.x1', 'X'), Sym(cy[1], 'b.y1', 'Y')])}
                try:
                    I = ordeval.Interp(env, {})
                    got = I.truth(I.expr(t.test), t.test)
                except ordeval.AxisMismatch as e:
                    R.bad('C02.a', f, e.node, f'pre-filter mixes axes: {e.a.name} with {e.b.name}')
                    return
                except ordeval.NotComparisonOnly:
                    R.abstain('C02.b', f, t.test, 'pre-filter is not comparison-only')
                    return
                inside = cx[0] <= cx[2] <= cx[1] and cy[0] <= cy[2] <= cy[1]
                if got and inside:
                    bad.append({'x(b0,b1,p)': cx, 'y(b0,b1,p)': cy})
        R.count('orderings', len(cases) ** 2)
        R.check(not bad, 'C02.b', f, t.test, 'the bbox pre-filter skips a part only when the point is outside its closed bbox',
                f'the bbox pre-filter skips parts whose closed bbox contains the point on {len(bad)} orderings, e.g. {bad[:2]}: points on the bbox edge of a line are lost', counterexamples=bad[:5])
    # bounds tuple layout in both forms: (min xs, min ys, max xs, max ys)
    for qual in ('Point._intersects_line', '_perform_intersects_line'):
        g = P.func(PT, qual)
        for s in ast.walk(g.node):
            if isinstance(s, ast.Assign) and isinstance(s.targets[0], ast.Name) and isinstance(s.value, ast.Tuple) and len(s.value.elts) == 4 \
                    and all(isinstance(e_, ast.Call) and norm(e_.func) in ('min', 'max') for e_ in s.value.elts):
                fn = [norm(e.func) if isinstance(e, ast.Call) else '?' for e in s.value.elts]
                args = [astq.trace(g, e.args[0]) if isinstance(e, ast.Call) and e.args else None for e in s.value.elts]
                ax = []
                for a_ in args:
                    t = norm(a_) if isinstance(a_, ast.AST) else ''
                    ax.append('X' if t.endswith('[0::2]') else 'Y' if t.endswith('[1::2]') else '?')
                ok = fn == ['min', 'min', 'max', 'max'] and ax == ['X', 'Y', 'X', 'Y']
                R.check(ok, 'C02.a', g, s, 'part bbox is (min x, min y, max x, max y)', f'part bbox is built as {list(zip(fn, ax))}')


def segment_point(P, R):
    f = P.func(IX, 'segment_intersects_point')
    p = f.params   # ax0, ay0, ax1, ay1, bx, by
    # C02.e (pairing): the end points (ax0, ay0) and (ax1, ay1) stay paired on their way into the cross product: re-binding an end-point coordinate (a swap
    # "so that x1 >= x0") must swap the other coordinate of the two end points in the same statement -- sorting the axes independently mirrors every segment
    # of negative slope
    ends = set(p[:4])
    arith_uses = {n_.id for b_ in ast.walk(f.node) if isinstance(b_, ast.BinOp) and isinstance(b_.op, (ast.Sub, ast.Mult, ast.Add)) for n_ in ast.walk(b_) if isinstance(n_, ast.Name)} & ends
    for a_ in walk_own(f.node):
        if isinstance(a_, ast.Assign):
            tg = {n_.id for t_ in a_.targets for n_ in ast.walk(t_) if isinstance(n_, ast.Name) and isinstance(n_.ctx, ast.Store)} & ends
            if not tg:
                continue
            xs_, ys_ = tg & {p[0], p[2]}, tg & {p[1], p[3]}
            joint = len(xs_) == 2 and len(ys_) == 2
            R.check(joint or not arith_uses, 'C02.e', f, a_, 'end points are re-ordered as whole points (both coordinates together) before the cross product',
                    f'`{norm(a_)}` re-orders the segment on one axis only, and the re-ordered coordinates feed the cross product: for a segment whose x and y run in opposite directions the '
                    'collinearity test is made against the mirrored segment (points on it are missed, points on the other diagonal accepted)', construct='end points stay paired')
    bad = []
    cases = ordeval.orderings(3)
    n = 0
    for cx in cases:
        for cy in cases:
            n += 1
            env = {p[0]: Sym(cx[0], 'ax0', 'X'), p[2]: Sym(cx[1], 'ax1', 'X'), p[4]: Sym(cx[2], 'bx', 'X'),
                   p[1]: Sym(cy[0], 'ay0', 'Y'), p[3]: Sym(cy[1], 'ay1', 'Y'), p[5]: Sym(cy[2], 'by', 'Y')}
            rejected = None
            try:
                I, ctl = ordeval.run_fragment(f.body, env, {})
                rejected = ctl is not None and ctl.kind == 'return' and ctl.val is False
            except ordeval.NotComparisonOnly:
                rejected = False          # reached the arithmetic part: not rejected by the bbox
            except ordeval.AxisMismatch as e:
                R.bad('C02.a', f, e.node, f'segment bbox mixes axes: {e.a.name} with {e.b.name}')
                return
            inside = min(cx[0], cx[1]) <= cx[2] <= max(cx[0], cx[1]) and min(cy[0], cy[1]) <= cy[2] <= max(cy[0], cy[1])
            if rejected == inside:
                bad.append({'x(a0,a1,p)': cx, 'y(a0,a1,p)': cy, 'rejected': rejected, 'in_closed_segment_box': inside})
    R.count('orderings', n)
    R.exhaustive_sites['C02.e closed segment box (13 x 13 orderings)'] = True
    R.check(not bad, 'C02.e', f, None, f'the bbox part of segment_intersects_point is exactly the closed box of the segment ({n} orderings)',
            f'segment bbox test differs from the closed segment box on {len(bad)} orderings, e.g. {bad[:2]}: end points / collinear points beyond the end are mis-decided',
            construct='segment bbox', counterexamples=bad[:5])
    rets = [s for s in walk_own(f.node) if isinstance(s, ast.Return) and isinstance(s.value, ast.Compare)]
    ok = bool(rets) and isinstance(rets[-1].value.ops[0], ast.Eq) and norm(rets[-1].value.comparators[0]) == '0'
    R.check(ok, 'C02.e', f, rets[-1] if rets else None, 'the on-line test is cross == 0', 'the on-line test is not `cross == 0`')
    # dimension of the cross product via units
    from units import Interp as UI, Coord, Func
    I = UI(P)
    I.stack = ['segment_intersects_point']
    args = [Coord('X'), Coord('Y'), Coord('X'), Coord('Y'), Coord('X'), Coord('Y')]
    I.call_func(Func(f), args, {})
    seen = set()
    geom.flush(R, 'C02.e', I, seen, 'segment_intersects_point(X,Y,X,Y,X,Y)')
    pip = P.func(IX, 'point_intersects_polygon')
    R.check(not I.R.items, 'C02.e', f, None, 'cross product has dimension X*Y - Y*X', 'cross product is dimensionally wrong', construct='cross product dimension', nontrivial=False)
