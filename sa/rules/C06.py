"""C06 — a Dask geo frame answers exactly like the pandas frame it represents.

 C06.a  op table: DaskGeoSeries.{bounds, area, length, intersects_bounds} and both build_sindex are map_partitions of the pandas
        attribute of the same name with the same arguments.
 C06.b  total_bounds reduces the lower-bound columns with a NaN-ignoring min and the upper-bound columns with a NaN-ignoring max,
        in layout (x0, y0, x1, y1).
 C06.c  cx: partitions kept = covered U overlapping (sorted); each delayed partition is paired with its own partition number;
        overlapping ones are re-filtered with the pandas cx of the same box; covered ones are returned unfiltered (a KNOWN
        finding: inert rows of a covered partition leak, D9); cx_partitions returns exactly covered U overlapping.
 C06.d  provenance: set_geometry mapped over partitions, geometry= reaches per-partition reads, meta_nonempty keeps the geometry
        (shared with C20.d/e); partition-level caches are written only by the enumerated functions and propagated only for
        column selections.
 C06.e  sjoin: partitions zipped with their own bounds, right rows pre-filtered by that partition's bounds, for how='left'
        every partition is joined.
Does not decide: Dask graph semantics, equality of computed values.
"""
import ast

import astq
import cfg as cfgmod
from effects import effects
from model import walk_own, AnalysisError, full as norm
from rules import common

EXPLANATION = (
    'Static sibling/table and def-use analysis of spatialpandas/dask.py and the Dask branch of sjoin: each Dask operation is compared with the '
    'pandas operation of the same name it must delegate to, reductions over partition bounds are checked for NaN-awareness and role/column, the cx '
    'indexers are checked for which partitions are kept, how each delayed partition is paired with its partition number and which box re-filters it, '
    'and who may write or propagate the partition-level caches.  Dask semantics (S7) are assumed.')

MOD = 'spatialpandas.dask'
COLS = ['x0', 'y0', 'x1', 'y1']


class _AsLambda:
    """A nested `def f(s): return <expr>` seen as `lambda s: <expr>`."""

    def __init__(self, fn):
        self.args = fn.args
        self.body = fn.body[-1].value


def _lambda_body(call):
    if call.args and isinstance(call.args[0], ast.Lambda):
        return call.args[0]
    if call.args and isinstance(call.args[0], ast.Name):
        # a nested one-statement def used as the mapped callable
        n = call
        while n is not None and not isinstance(n, (ast.FunctionDef,)):
            n = getattr(n, '_parent', None)
        if n is not None:
            for st in n.body:
                if isinstance(st, ast.FunctionDef) and st.name == call.args[0].id and st.body and isinstance(st.body[-1], ast.Return) \
                        and all(isinstance(x, (ast.Return, ast.Expr)) for x in st.body):
                    return _AsLambda(st)
    return None


def dask_total_bounds(P, R, rule):
    """DaskGeoSeries.total_bounds reduces the per-partition bounds NaN-aware, lower bounds with min and upper bounds with max, column by column."""
    DS = P.cls(f'{MOD}.DaskGeoSeries')
    # ---------------------------------------------------------------- C06.b
    tb = DS.members['total_bounds'][1]
    red = 0
    for c in astq.own_calls(tb):
        fn = norm(c.func)
        last = fn.split('.')[-1]
        if last in ('min', 'max', 'amin', 'amax', 'nanmin', 'nanmax'):
            red += 1
            operand = c.args[0] if c.args else (c.func.value if isinstance(c.func, ast.Attribute) else None)
            otxt = norm(operand) if operand is not None else ''
            from effects import base_name
            bn = base_name(operand) if operand is not None else None
            if bn:
                g0, d0 = astq.unique_def(tb, bn)
                if isinstance(d0, ast.AST):
                    otxt += ' <= ' + norm(d0)
            # pandas reductions (also reached through np.min/np.max dispatch) skip NaN by default; numpy ones propagate it
            is_numpy = any(k in otxt for k in ('.to_numpy(', '.values', 'np.asarray(', 'np.array(', '.to_records('))
            skipna_off = any(k.arg == 'skipna' and norm(k.value) == 'False' for k in c.keywords)
            nanaware = last.startswith('nan') or (not is_numpy and not skipna_off)
            R.check(nanaware, rule, tb, c, f'`{fn}` ignores NaN partition bounds',
                    f'`{norm(c)}` propagates NaN: one partition without any valid geometry (NaN bounds) turns the frame\'s total_bounds into NaN')
    R.floor(rule, 'reductions in DaskGeoSeries.total_bounds', red, 2)
    rets = [s for s in walk_own(tb.node) if isinstance(s, ast.Return)]
    for rt in rets:
        if isinstance(rt.value, ast.Tuple) and len(rt.value.elts) == 4:
            for i, e in enumerate(rt.value.elts):
                if isinstance(e, ast.Call):
                    fn = norm(e.func).split('.')[-1]
                    col = None
                    a = e.args[0] if e.args else None
                    if isinstance(a, ast.Subscript):
                        col = astq.const_str(a.slice)
                    elif isinstance(a, ast.Attribute):
                        col = a.attr
                    want_fn = 'min' if i < 2 else 'max'
                    if col is None and isinstance(e.func, ast.Attribute) and isinstance(e.func.value, ast.Subscript):
                        col = astq.const_str(e.func.value.slice)
                    ok = col == COLS[i] and want_fn in fn
                    R.check(ok, rule, tb, e, f'total_bounds[{i}] = {want_fn} over column {COLS[i]}',
                            f'total_bounds[{i}] is `{norm(e)}`: expected the NaN-ignoring {want_fn} over column {COLS[i]}')
        else:
            R.abstain(rule, tb, rt, 'total_bounds is not returned as a literal 4-tuple of reductions; role/column layout not decided')



def run(P, R, tier):
    common.array_token(P, R, 'C06.f')
    R.assume('S7: map_partitions(f) applies f to every partition; from_delayed keeps list order')
    DS = P.cls(f'{MOD}.DaskGeoSeries')
    DF = P.cls(f'{MOD}.DaskGeoDataFrame')
    # ---------------------------------------------------------------- C06.a
    n = 0
    for name in ('bounds', 'area', 'length'):
        m = DS.members.get(name)
        if not m:
            raise AnalysisError(f'C06.a: DaskGeoSeries.{name} not found')
        f = m[1]
        ok = False
        for s in walk_own(f.node):
            if isinstance(s, ast.Return) and isinstance(s.value, ast.Call) and isinstance(s.value.func, ast.Attribute) and s.value.func.attr == 'map_partitions' \
                    and norm(s.value.func.value) == 'self':
                lam = _lambda_body(s.value)
                if lam is not None and isinstance(lam.body, ast.Attribute) and isinstance(lam.body.value, ast.Name) and lam.body.value.id == lam.args.args[0].arg:
                    n += 1
                    ok = lam.body.attr == name
                    R.check(ok, 'C06.a', f, s, f'DaskGeoSeries.{name} = map_partitions of the pandas `{name}`',
                            f'DaskGeoSeries.{name} maps the pandas `{lam.body.attr}` over the partitions, not `{name}`')
        if not ok and not any(o.site.endswith(f.qualname) and o.rule == 'C06.a' for o in R.obs):
            R.bad('C06.a', f, None, f'DaskGeoSeries.{name} is not map_partitions(lambda s: s.{name})', construct=f'{name} delegation')
    ib = DS.members.get('intersects_bounds')
    if ib:
        f = ib[1]
        ok = False
        for s in walk_own(f.node):
            if isinstance(s, ast.Return) and isinstance(s.value, ast.Call) and getattr(s.value.func, 'attr', '') == 'map_partitions':
                lam = _lambda_body(s.value)
                if lam is not None and isinstance(lam.body, ast.Call) and isinstance(lam.body.func, ast.Attribute):
                    n += 1
                    ok = lam.body.func.attr == 'intersects_bounds' and [norm(a) for a in lam.body.args] == [f.params[1]]
        R.check(ok, 'C06.a', f, None, 'DaskGeoSeries.intersects_bounds maps the pandas intersects_bounds with the same box',
                'DaskGeoSeries.intersects_bounds does not map the pandas intersects_bounds(bounds)', construct='intersects_bounds delegation')
    # ... on EVERY path: each return of these operations maps a per-partition function each of whose returns is the pandas operation of the same name on the
    # partition.  A per-partition shortcut decided from the partition's bounds ("the box covers it: everything that is not missing intersects") answers for
    # empty geometries and partial rows without looking at them.
    def _per_partition_ok(g, name):
        """every return of the per-partition callable g passes the pandas op `name` of its first parameter"""
        if isinstance(g, ast.Lambda):
            p0 = g.args.args[0].arg if g.args.args else None
            return any(isinstance(x, ast.Attribute) and x.attr == name and isinstance(x.value, ast.Name) and x.value.id == p0 for x in ast.walk(g.body)), None
        p0 = g.params[0] if g.params else None
        for r_ in [x for x in walk_own(g.node) if isinstance(x, ast.Return)]:
            e_ = astq.expand(g, r_.value) if r_.value is not None else None
            if e_ is None or not any(isinstance(x, ast.Attribute) and x.attr == name and isinstance(x.value, ast.Name) and x.value.id == p0 for x in ast.walk(e_)):
                return False, r_
        return True, None
    for name in ('bounds', 'area', 'length', 'intersects_bounds'):
        m = DS.members.get(name)
        if not m:
            continue
        f = m[1]
        for s_ in [x for x in walk_own(f.node) if isinstance(x, ast.Return)]:
            v = astq.trace(f, s_.value) if isinstance(s_.value, ast.Name) else s_.value
            okm = isinstance(v, ast.Call) and isinstance(v.func, ast.Attribute) and v.func.attr == 'map_partitions' and norm(v.func.value) == 'self' and v.args
            why = 'it is not a map_partitions over the partitions of this series'
            node = s_
            if okm:
                a0 = v.args[0]
                g = a0 if isinstance(a0, ast.Lambda) else None
                if g is None and isinstance(a0, ast.Name):
                    r_ = P.resolve_expr_static(f.mod, a0, local=f)
                    if r_ and r_[0] == 'func':
                        g = r_[1]
                    elif r_ and r_[0] == 'localassign' and isinstance(r_[2], ast.Lambda):
                        g = r_[2]
                if g is None:
                    okm, why = False, f'the per-partition callable `{norm(a0)}` could not be resolved'
                else:
                    okm, bad_ret = _per_partition_ok(g, name)
                    if not okm:
                        why = f'its per-partition function answers `{norm(bad_ret) if bad_ret is not None else "?"}` without the pandas `{name}` of the partition'
            R.check(bool(okm), 'C06.a', f, node, f'every return of DaskGeoSeries.{name} maps the pandas `{name}` over all partitions',
                    f'`{norm(s_)[:80]}` in DaskGeoSeries.{name}: {why} (rows are answered from partition-level knowledge - empty geometries, partial rows - instead of by the pandas operation)',
                    construct=f'DaskGeoSeries.{name}: {norm(s_)[:50]}')
    for ci in (DS, DF):
        bs = ci.members.get('build_sindex')
        if bs:
            f = bs[1]
            inner = list(f.nested.values())
            ok = bool(inner) and any(isinstance(c.func, ast.Attribute) and c.func.attr == 'build_sindex' and isinstance(c.func.value, ast.Name)
                                     and c.func.value.id == inner[0].params[0] for c in astq.own_calls(inner[0])) \
                and any(isinstance(s, ast.Return) and norm(s.value) == inner[0].params[0] for s in walk_own(inner[0].node)) \
                and any(getattr(c.func, 'attr', '') == 'map_partitions' for c in astq.own_calls(f))
            n += 1
            R.check(ok, 'C06.a', f, None, f'{ci.name}.build_sindex builds the index of every partition and returns the partition',
                    f'{ci.name}.build_sindex does not build and keep the per-partition index', construct='build_sindex delegation')
    R.floor('C06.a', 'delegating Dask operations', n, 5)

    # ---------------------------------------------------------------- C06.b
    dask_total_bounds(P, R, 'C06.b')

    # ---------------------------------------------------------------- C06.c
    ix = P.func(MOD, '_DaskCoordinateIndexer._perform_get_item')
    px = P.func(MOD, '_DaskPartitionCoordinateIndexer._perform_get_item')
    for f in (ix, px):
        g, d = astq.unique_def(f, 'all_partition_inds') if True else (None, None)
        # find the name bound to sorted(union(...))
        union = None
        for s in walk_own(f.node):
            if isinstance(s, ast.Assign) and isinstance(s.value, ast.Call) and norm(s.value.func) == 'sorted' and 'union' in norm(s.value):
                union = s
        okU = False
        if union is not None:
            names = astq.names_in(union.value)
            p = f.params
            # both index lists (after set()) take part
            okU = all(x in names for x in (p[1], p[2]))
        R.check(okU, 'C06.c', f, union, 'partitions kept = sorted(covered U overlapping)', 'the kept partitions are not the sorted union of covered and overlapping partitions',
                construct=norm(union) if union is not None else 'all partitions = sorted(union)')
        if union is not None:
            kept = union.targets[0].id
            sel = [x for x in walk_own(f.node) if isinstance(x, ast.Subscript) and norm(x.value).endswith('.partitions') and norm(x.slice) == kept]
            R.check(bool(sel), 'C06.c', f, sel[0] if sel else None, 'the result is built from exactly the kept partitions', 'the result is not built from self._obj.partitions[kept]',
                    construct=f'.partitions[{kept}]')
    # pairing + refilter in the row-level indexer
    loop = None
    for s in astq.own_nodes(ix, ast.For):
        if 'to_delayed' in norm(s.iter):
            loop = s
    if loop is None:
        raise AnalysisError('C06.c: loop over the delayed partitions not found')
    it = loop.iter
    kept = None
    for s in walk_own(ix.node):
        if isinstance(s, ast.Assign) and isinstance(s.value, ast.Call) and norm(s.value.func) == 'sorted' and 'union' in norm(s.value):
            kept = s.targets[0].id
    okp = isinstance(it, ast.Call) and norm(it.func) == 'zip' and len(it.args) >= 2 and isinstance(it.args[0], ast.Name) and it.args[0].id == kept \
        and isinstance(loop.target, ast.Tuple)
    R.check(okp, 'C06.c', ix, loop, 'each delayed partition is paired with its own partition number (zip with the kept partition numbers)',
            f'the loop `for {norm(loop.target)} in {norm(it)}` does not pair delayed partitions with their partition numbers: the covered/overlapping decision is '
            f'taken for the wrong partition', construct=f'for {norm(loop.target)} in {norm(it)}')
    pnum = loop.target.elts[0].id if isinstance(loop.target, ast.Tuple) and isinstance(loop.target.elts[0], ast.Name) else None
    dl = loop.target.elts[1].id if isinstance(loop.target, ast.Tuple) and len(loop.target.elts) > 1 and isinstance(loop.target.elts[1], ast.Name) else None
    tests = [s for s in loop.body if isinstance(s, ast.If)]
    okt = False
    cov_unfiltered = None
    for t in tests:
        tt = t.test
        if isinstance(tt, ast.Compare) and isinstance(tt.ops[0], ast.In) and isinstance(tt.left, ast.Name) and tt.left.id == pnum \
                and norm(tt.comparators[0]) == ix.params[2]:
            # overlapping -> cx_fn(delayed) ; else -> appended as is
            filt = [c for c in ast.walk(ast.Module(body=t.body, type_ignores=[])) if isinstance(c, ast.Call) and any(isinstance(a, ast.Name) and a.id == dl for a in c.args)
                    and not (isinstance(c.func, ast.Attribute) and c.func.attr == 'append')]
            okt = bool(filt)
            for c in ast.walk(ast.Module(body=t.orelse, type_ignores=[])):
                if isinstance(c, ast.Call) and isinstance(c.func, ast.Attribute) and c.func.attr == 'append' and c.args and isinstance(c.args[0], ast.Name) and c.args[0].id == dl:
                    cov_unfiltered = c
    R.check(okt, 'C06.c', ix, tests[0].test if tests else None, 'partitions that only overlap the box are re-filtered row by row',
            'overlapping partitions are not re-filtered by the pandas cx: rows outside the box are returned')
    # the refilter uses the same box
    cxfn = [g for g in ix.nested.values()]
    okb = False
    for g in cxfn:
        for s in walk_own(g.node):
            if isinstance(s, ast.Return) and isinstance(s.value, ast.Subscript) and isinstance(s.value.value, ast.Attribute) and s.value.value.attr == 'cx':
                sl = s.value.slice
                if isinstance(sl, ast.Tuple) and len(sl.elts) == 2 and all(isinstance(e, ast.Slice) for e in sl.elts):
                    xs, ys = sl.elts
                    p = ix.params  # self, covers, overlaps, x0, x1, y0, y1
                    okb = [norm(xs.lower), norm(xs.upper), norm(ys.lower), norm(ys.upper)] == p[3:7]
    R.check(okb, 'C06.c', ix, None, 'the per-partition re-filter is cx[x0:x1, y0:y1] with the caller\'s box', 'the per-partition re-filter does not use the caller\'s box in (x-slice, y-slice) order',
            construct='df.cx[x0:x1, y0:y1]')
    if cov_unfiltered is not None:
        R.bad('C06.c', ix, cov_unfiltered,
              'rows of a partition classified as covered reach the result without any per-row test: a missing/empty geometry inside a covered partition is returned '
              '(pandas cx on the concatenated frame drops it)', construct='covered partitions appended unfiltered')
    else:
        R.ok('C06.c', ix, None, 'no partition reaches the result without the per-row test', construct='covered partitions appended unfiltered')

    # ---------------------------------------------------------------- C06.d
    from rules import C20
    sub = type(R)(R.prop, R.tier)
    C20.run(P, sub, tier)
    k = 0
    for o in sub.obs:
        if o.rule in ('C20.d', 'C20.f') or (o.rule == 'C20.e' and ('meta_nonempty' in o.detail or '__finalize__' in o.detail)):
            k += 1
            R._add('C06.d', (o.path, o.site.split('::')[-1]), None, o.status, o.detail, construct=o.construct)
    R.floor('C06.d', 'active-geometry provenance obligations shared with C20', k, 4)
    E = effects(P)
    nw = 0
    for f, node, recv, attr in E.attr_writes:
        if attr in ('_partition_bounds', '_partition_sindex'):
            nw += 1
            ok = f.qualname in common.CACHE_ATTR_WRITERS[attr]
            R.check(ok, 'C06.d', f, node, f'`{attr}` is written by an enumerated cache owner ({f.qualname})',
                    f'`{attr}` is written in {f.qualname}, which is not one of the functions allowed to set partition-level caches: a frame whose rows changed keeps stale bounds')
    R.floor('C06.d', 'partition cache writes', nw, 8)
    from rules import C12
    sub = type(R)(R.prop, R.tier)
    try:
        C12.run(P, sub, tier)
    except AnalysisError:
        pass
    for o in sub.obs:
        if o.rule == 'C12.g':
            R._add('C06.d', (o.path, o.site.split('::')[-1]), None, o.status, o.detail, construct=o.construct)
        elif o.rule in ('C12.a', 'C12.b', 'C12.c', 'C12.d', 'C12.e', 'C12.f', 'C12.h', 'C12.i', 'C12.j'):
            R._add('C06.d', (o.path, o.site.split('::')[-1]), None, o.status, f'[{o.rule}] a frame read with bounds=/geometry= must carry, for every geometry column, the bounds of exactly the partitions it kept: ' + o.detail, construct=o.construct)

    # the frame pack_partitions_to_parquet returns holds the rows of THIS run only: each part is read from the sub-parts named by the run, after the
    # listing == expected gate (C19.b); left-overs of an interrupted earlier run in the same directories must not be merged in
    common.forward(P, R, 'C19', ['C19.b'], 'C06.d', 'the packed frame is read back from exactly the sub-parts this run wrote', floor=2)
    # ---------------------------------------------------------------- C06.e
    sj = P.func('spatialpandas.tools.sjoin', '_sjoin_dask_pandas')
    loop = None
    for s in astq.own_nodes(sj, ast.For):
        if isinstance(s.iter, ast.Call) and norm(s.iter.func) == 'zip':
            loop = s
    if loop is None:
        raise AnalysisError('C06.e: partition loop of _sjoin_dask_pandas not found')
    a0, a1 = loop.iter.args[0], loop.iter.args[1]
    d0 = astq.trace(sj, a0)
    d1 = astq.trace(sj, a1.func.value if isinstance(a1, ast.Call) and isinstance(a1.func, ast.Attribute) else a1)
    s0 = norm(d0) if isinstance(d0, ast.AST) else ''
    s1 = norm(d1) if isinstance(d1, ast.AST) else ''
    left = sj.params[0]
    okz = s0 == f'{left}.to_delayed()' and s1 == f'{left}.geometry.partition_bounds' and isinstance(a1, ast.Call) and a1.func.attr == 'iterrows'
    R.check(okz, 'C06.e', sj, loop, 'partitions are zipped with the rows of their own partition bounds (active geometry), in order',
            f'partitions ({s0}) are not zipped with the rows of {left}.geometry.partition_bounds ({s1})')
    bvar = None
    if isinstance(loop.target, ast.Tuple) and len(loop.target.elts) == 2 and isinstance(loop.target.elts[1], ast.Tuple):
        bvar = loop.target.elts[1].elts[1].id
    dfvar = loop.target.elts[0].id if isinstance(loop.target, ast.Tuple) and isinstance(loop.target.elts[0], ast.Name) else None
    pre = None
    for s in loop.body:
        if isinstance(s, ast.Assign) and isinstance(s.value, ast.Call) and isinstance(s.value.func, ast.Attribute) and s.value.func.attr == 'intersects':
            pre = s
    okpre = pre is not None and bvar is not None and bvar in astq.names_in(pre.value) and 'sindex' in norm(astq.trace(sj, pre.value.func.value))
    R.check(okpre, 'C06.e', sj, pre, 'right rows are pre-filtered with this partition\'s own bounds', 'right rows are not pre-filtered with this partition\'s bounds')
    # the join call uses df of this iteration and the pre-filtered right rows
    app = None
    for c in ast.walk(loop):
        if isinstance(c, ast.Call) and isinstance(c.func, ast.Attribute) and c.func.attr == 'append':
            app = c
    okj = False
    if app is not None and app.args and isinstance(app.args[0], ast.Call):
        jc = app.args[0]
        okj = len(jc.args) >= 2 and norm(jc.args[0]) == dfvar and pre is not None and f'.iloc[{pre.targets[0].id}]' in norm(jc.args[1]) \
            and norm(astq.arg_of(jc, kw='how')) == 'how'
        for kw, want in (('lsuffix', 'lsuffix'), ('rsuffix', 'rsuffix')):
            v = astq.arg_of(jc, kw=kw)
            okj = okj and v is not None and norm(v) == want
    R.check(okj, 'C06.e', sj, app, 'each partition is joined with the pre-filtered right rows, same how and suffixes', 'the per-partition join does not receive (df, right_df.iloc[candidates], how, suffixes)')
    # how == 'left' keeps every partition
    C = cfgmod.build(sj.node)
    if app is not None:
        an = C.node(_stmt(app))
        guard = None
        for s in ast.walk(loop):
            if isinstance(s, ast.If) and 'how' in astq.names_in(s.test) and "'left'" in norm(s.test):
                guard = s
        ln = C.node(loop)
        first = C.node(loop.body[0])
        blocked = {an}
        if guard is not None:
            blocked.add(C.node(guard))
        bypass = C.can_reach(first, ln, blocked=blocked) if first not in blocked else False
        okl = guard is not None and isinstance(guard.test, ast.BoolOp) and isinstance(guard.test.op, ast.Or) and not bypass
        R.check(okl, 'C06.e', sj, guard.test if guard is not None else loop, 'for how="left" every partition is joined (only `how == "left" or candidates` guards the join)',
                'a partition can be skipped before the `how == "left"` test: its rows vanish from a left join')


def _stmt(node):
    n = node
    while n is not None and not isinstance(n, ast.stmt):
        n = getattr(n, '_parent', None)
    return n
