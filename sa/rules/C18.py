"""C18 — results do not depend on scheduling, thread count or concurrent use.

Decides (E-EFF):
 C18.a  prange race freedom: in each prange loop every store to an array defined outside the loop is `A[i]`
        (or `A[i, ...]`) with i the induction variable; no scalar accumulation across iterations; every callee
        (including functions passed in as arguments at the kernel's call sites) stores into none of its parameters.
 C18.b  jit(parallel=True) kernels without prange: array stores inside loops are indexed by the loop's own variable.
 C18.c  task isolation: functions run as Dask tasks (dask.delayed targets, map_partitions callables, @delayed) declare no
        global/nonlocal and store into no captured or global object; the file a packing task writes is a function of the
        task's identity (input partition number in the name, output partition number in the directory).
 C18.d  in-place kernels are only handed fresh copies (or the caller's own out-parameter).
Does not decide: check-then-build caches under concurrent first access, numba's runtime, Dask's scheduler.
"""
import ast

import astq
from effects import effects, base_name
from model import walk_own, AnalysisError, FuncInfo, full as norm
from rules import common

EXPLANATION = (
    'Effect analysis over the resolved program: per-function sets of parameters stored into (closed over the call graph), '
    'store targets inside prange bodies compared with the induction variable, captured-state writes of Dask task functions, '
    'write-target templates of the packing tasks, and provenance (fresh / own out-parameter / object state) of every buffer handed '
    'to a parameter-mutating kernel.  Necessary conditions for schedule independence; runtime behaviour of numba/Dask is assumed per S4/S7.')


def _is_prange(P, f, call):
    r = P.resolve_call(f, call)
    return bool(r and r[0] == 'ext' and r[1].split('.')[-1] == 'prange')


def _assigned_names(nodes):
    out = set()
    for s in nodes:
        for n in ast.walk(s):
            if isinstance(n, ast.Name) and isinstance(n.ctx, ast.Store):
                out.add(n.id)
    return out


def _index_is(var, sl):
    if isinstance(sl, ast.Name):
        return sl.id == var
    if isinstance(sl, ast.Tuple) and sl.elts:
        return isinstance(sl.elts[0], ast.Name) and sl.elts[0].id == var
    return False


def prange_rules(P, R):
    E = effects(P)
    loops = 0
    for f in P.all_funcs():
        for loop in astq.own_nodes(f, ast.For):
            if not (isinstance(loop.iter, ast.Call) and _is_prange(P, f, loop.iter)):
                continue
            loops += 1
            if not isinstance(loop.target, ast.Name):
                R.abstain('C18.a', f, loop, 'prange with a non-name target')
                continue
            i = loop.target.id
            local = _assigned_names(loop.body) | {i}
            # loop-carried scalars: a name that is assigned in the body and READ in the same body before its assignment of this iteration carries a value from
            # the previous iteration.  With prange the iterations are distributed over threads (each starts from the value before the loop, or a private copy):
            # only reductions (`x += ...`) are supported as carried state
            first_use = {}
            order = []
            for st_ in loop.body:
                for n_ in ast.walk(st_):
                    if isinstance(n_, ast.Name):
                        order.append(n_)
            order.sort(key=lambda n_: (n_.lineno, n_.col_offset))
            assigned_top = {}
            for st_ in loop.body:
                if isinstance(st_, ast.Assign):
                    for t_ in st_.targets:
                        for n_ in ast.walk(t_):
                            if isinstance(n_, ast.Name) and isinstance(n_.ctx, ast.Store):
                                assigned_top.setdefault(n_.id, st_)
            for nm_, st_ in assigned_top.items():
                if nm_ == i:
                    continue
                reads_before = [n_ for n_ in order if n_.id == nm_ and isinstance(n_.ctx, ast.Load) and (n_.lineno, n_.col_offset) < (st_.lineno, st_.col_offset)
                                and not any(n_ is y for y in ast.walk(st_))]
                also_before_loop = any(isinstance(x, ast.Assign) and any(isinstance(t_, ast.Name) and t_.id == nm_ for t_ in x.targets) for x in walk_own(f.node) if getattr(x, 'lineno', 0) < loop.lineno)
                if reads_before and also_before_loop:
                    R.bad('C18.a', f, reads_before[0], f'`{nm_}` is read in the prange body before it is assigned there (line {st_.lineno}): it carries a value from the previous iteration. Iterations of a prange '
                          f'loop run on different threads, each with its own copy of `{nm_}`: the first iteration of every thread\'s chunk starts from the value before the loop, so the result '
                          'depends on the number of threads', construct=f'{f.qualname}: loop-carried {nm_} in prange')
            # indices owned by this iteration: the induction variable and inner loop variables whose range is a function of it (blocked loops)
            owned = {i}
            derived = {i}
            grew = True
            while grew:
                grew = False
                for s_ in loop.body:
                    for n_ in ast.walk(s_):
                        if isinstance(n_, ast.Assign) and isinstance(n_.targets[0], ast.Name) and n_.targets[0].id not in derived and (astq.names_in(n_.value) & derived) \
                                and not any(isinstance(x, ast.Subscript) for x in ast.walk(n_.value)):
                            derived.add(n_.targets[0].id)
                            grew = True
                        if isinstance(n_, ast.For) and isinstance(n_.target, ast.Name) and n_.target.id not in owned and isinstance(n_.iter, ast.Call) \
                                and norm(n_.iter.func) == 'range' and len(n_.iter.args) >= 2 and (astq.names_in(n_.iter.args[0]) & derived) and (astq.names_in(n_.iter.args[1]) & derived):
                            owned.add(n_.target.id)
                            grew = True
            okall = True
            for s in loop.body:
                for n in ast.walk(s):
                    if isinstance(n, (ast.Assign, ast.AugAssign, ast.AnnAssign)):
                        targets = n.targets if isinstance(n, ast.Assign) else [n.target]
                        for t in targets:
                            for tt in (t.elts if isinstance(t, (ast.Tuple, ast.List)) else [t]):
                                if isinstance(tt, ast.Subscript):
                                    b = base_name(tt.value)
                                    if b in local and not (b in f.params):
                                        continue   # array created inside the iteration
                                    ok = any(_index_is(v_, tt.slice) for v_ in owned)
                                    okall &= ok
                                    R.check(ok, 'C18.a', f, n, f'prange body stores only to `{b}[{i}]`',
                                            f'prange body stores to `{norm(tt)}`, not indexed by the induction variable `{i}`: iterations race on shared array `{b}`')
                                elif isinstance(tt, ast.Attribute):
                                    okall = False
                                    R.bad('C18.a', f, n, f'prange body stores to attribute `{norm(tt)}` shared by all iterations')
                        if isinstance(n, ast.AugAssign) and isinstance(n.target, ast.Name):
                            # accumulation into a variable that lives across iterations (defined before the loop)
                            name = n.target.id
                            first_def_in_loop = _defined_before_use_in_body(loop.body, name)
                            if not first_def_in_loop:
                                okall = False
                                R.bad('C18.a', f, n, f'prange body accumulates into `{name}` across iterations (only numba-recognised reductions are safe; none is used today)')
                    if isinstance(n, ast.Call):
                        if isinstance(n.func, ast.Attribute) and n.func.attr in ('fill', 'append', 'extend', 'sort', 'resize'):
                            b = base_name(n.func.value)
                            if b not in local or b in f.params:
                                okall = False
                                R.bad('C18.a', f, n, f'prange body mutates shared object `{b}` in place')
                        r = P.resolve_call(f, n)
                        callees = []
                        if r and r[0] == 'func':
                            callees = [r[1]]
                        elif r and r[0] == 'param':
                            callees = _functions_bound_to_param(P, f, r[1])
                            if not callees:
                                R.abstain('C18.a', f, n, f'callee parameter `{r[1]}` is never bound to a repository function')
                        for g in callees:
                            gm = {p for p in E.mutated_params(g) if p != 'self'}
                            ok = not gm
                            okall &= ok
                            R.check(ok, 'C18.a', f, n, f'callee {g.qualname} of a prange body stores into none of its parameters',
                                    f'callee {g.qualname} of a prange body stores into its parameter(s) {sorted(gm)}: shared between iterations',
                                    construct=f'{norm(n.func)} -> {g.qualname}')
            # a read of a neighbour's slot of an array that is written in the loop
            written = set()
            for s in loop.body:
                for n in ast.walk(s):
                    if isinstance(n, ast.Subscript) and isinstance(n.ctx, ast.Store):
                        written.add(base_name(n.value))
            for s in loop.body:
                for n in ast.walk(s):
                    if isinstance(n, ast.Subscript) and isinstance(n.ctx, ast.Load) and base_name(n.value) in written \
                            and base_name(n.value) not in (local - set(f.params)):
                        ok = any(_index_is(v_, n.slice) for v_ in owned)
                        okall &= ok
                        R.check(ok, 'C18.a', f, n, 'prange body reads only its own slot of the array it writes',
                                f'prange body reads `{norm(n)}` of an array written by other iterations')
            R.check(okall, 'C18.a', f, None, 'prange loop is race free by construction', 'prange loop has a cross-iteration dependence',
                    construct=f'for {i} in {norm(loop.iter)}')
    R.floor('C18.a', 'prange loops', loops, 1)
    return loops


def _defined_before_use_in_body(body, name):
    for s in body:
        for n in ast.walk(s):
            if isinstance(n, ast.Name) and n.id == name:
                return isinstance(n.ctx, ast.Store) and not isinstance(getattr(n, '_parent', None), ast.AugAssign)
    return False


def _functions_bound_to_param(P, f, param):
    out = []
    idx = f.params.index(param) if param in f.params else None
    if idx is None:
        return out
    for g in P.all_funcs():
        for c in astq.own_calls(g):
            r = P.resolve_call(g, c)
            if r and r[0] == 'func' and r[1] is f:
                a = astq.arg_of(c, pos=idx, kw=param)
                if a is not None:
                    rr = P.resolve_expr_static(g.mod, a, g)
                    if rr and rr[0] == 'func' and rr[1] not in out:
                        out.append(rr[1])
    return out


def parallel_kernels(P, R):
    n = 0
    for f in P.all_funcs():
        if not P.is_parallel(f):
            continue
        has_prange = any(isinstance(l.iter, ast.Call) and _is_prange(P, f, l.iter) for l in astq.own_nodes(f, ast.For))
        if has_prange:
            continue
        n += 1
        ok_all = True
        for loop in astq.own_nodes(f, ast.For):
            loopvars = {x.id for x in ast.walk(loop.target) if isinstance(x, ast.Name)}
            for s in loop.body:
                for node in ast.walk(s):
                    if isinstance(node, ast.Subscript) and isinstance(node.ctx, ast.Store):
                        allv = _enclosing_loop_vars(node)
                        idx = node.slice
                        names = {x.id for x in ast.walk(idx) if isinstance(x, ast.Name)}
                        ok = bool(names) and names <= allv and isinstance(idx, (ast.Name, ast.Tuple))
                        ok_all &= ok
                        R.check(ok, 'C18.b', f, node, 'store in a parallel=True kernel is indexed by its loop variable',
                                f'store `{norm(node)}` in a parallel=True kernel is not indexed by the loop variable')
        R.check(ok_all, 'C18.b', f, None, 'parallel=True kernel without prange: sequential loops with per-iteration result slots',
                'parallel=True kernel has a store that is not per-iteration', construct=f'{f.qualname}')
    R.floor('C18.b', 'parallel=True kernels without prange', n, 1)


def _enclosing_loop_vars(node):
    out = set()
    n = getattr(node, '_parent', None)
    while n is not None and not isinstance(n, (ast.FunctionDef, ast.Lambda)):
        if isinstance(n, ast.For):
            out |= {x.id for x in ast.walk(n.target) if isinstance(x, ast.Name)}
        n = getattr(n, '_parent', None)
    return out


def task_functions(P):
    """Functions that run as Dask tasks: targets of delayed(f)(...), @delayed functions, callables given to map_partitions."""
    tasks = {}
    for f in P.all_funcs():
        if f.tags.get('delayed'):
            tasks[f.key] = (f, '@delayed')
        for c in astq.own_calls(f):
            if isinstance(c.func, ast.Call):
                r = P.resolve_call(f, c)
                inner = P.resolve_call(f, c.func)
                if r and r[0] == 'func' and inner and inner[0] == 'ext' and inner[1].split('.')[-1] == 'delayed':
                    tasks[r[1].key] = (r[1], 'delayed(...)')
            if isinstance(c.func, ast.Attribute) and c.func.attr == 'map_partitions' and c.args:
                a = c.args[0]
                if isinstance(a, ast.Lambda) and hasattr(a, '_fi'):
                    tasks[a._fi.key] = (a._fi, 'map_partitions')
                else:
                    rr = P.resolve_expr_static(f.mod, a, f)
                    if rr and rr[0] == 'func':
                        tasks[rr[1].key] = (rr[1], 'map_partitions')
            rr = P.resolve_call(f, c)
            if rr and rr[0] == 'ext' and rr[1].split('.')[-1] == 'delayed' and c.args and not isinstance(getattr(c, '_parent', None), ast.Call):
                g = P.resolve_expr_static(f.mod, c.args[0], f)
                if g and g[0] == 'func':
                    tasks[g[1].key] = (g[1], 'delayed(f)')
    return tasks


def task_isolation(P, R):
    tasks = task_functions(P)
    R.floor('C18.c', 'Dask task functions', len(tasks), 8)
    for f, how in tasks.values():
        local = set(f.params) | _assigned_names(f.body)
        bad = False
        for n in walk_own(f.node):
            if isinstance(n, (ast.Global, ast.Nonlocal)):
                bad = True
                R.bad('C18.c', f, n, f'task function ({how}) rebinds shared state via `{norm(n)}`')
            tgt = None
            if isinstance(n, (ast.Assign, ast.AugAssign, ast.AnnAssign)):
                for t in (n.targets if isinstance(n, ast.Assign) else [n.target]):
                    for tt in (t.elts if isinstance(t, (ast.Tuple, ast.List)) else [t]):
                        if isinstance(tt, (ast.Subscript, ast.Attribute)):
                            tgt = tt
                            b = base_name(tt)
                            if b is not None and b not in local:
                                bad = True
                                R.bad('C18.c', f, n, f'task function ({how}) stores into captured/global object `{b}`: concurrent tasks share it')
            if isinstance(n, ast.Call) and isinstance(n.func, ast.Attribute) and n.func.attr in ('append', 'extend', 'update', 'add', 'pop', 'clear', 'insert', 'remove', 'setdefault', 'sort', 'fill'):
                b = base_name(n.func.value)
                if b is not None and b not in local:
                    bad = True
                    R.bad('C18.c', f, n, f'task function ({how}) mutates captured/global object `{b}` in place')
        # a task must not modify the partition / objects it is handed either (they are shared by every graph built on the same collection)
        E = effects(P)
        for p_ in sorted(E.mutated_params(f)):
            if (f.qualname, p_) in common.ALLOWED_DEEP:
                continue
            if f.parent is not None and getattr(f.parent, 'qualname', '').endswith('pack_partitions_to_parquet'):
                continue        # packing tasks own their arguments (paths, sub-frames)
            probs = E.direct.get(f.key, {}).get(p_, []) + [(c_, 'via') for c_, g_, gp_ in E.via.get(f.key, {}).get(p_, [])]
            for node_, kind_ in probs[:2]:
                bad = True
                R.bad('C18.c', f, node_, f'task function ({how}) modifies its argument `{p_}` in place: the partition object is shared with the frame it was derived from')
        if not bad:
            R.ok('C18.c', f, None, f'task function ({how}) writes only its own locals and arguments', construct=f'task {f.qualname}')


THREAD_COUNT_SOURCES = {'get_num_threads', 'cpu_count', 'NUMBA_NUM_THREADS', 'NUMBA_DEFAULT_NUM_THREADS', 'get_thread_count', 'active_count'}


def _evenness(f, e, tainted, depth=6):
    """'even' | 'odd' | None (unknown) of an integer expression; len() of a coordinate buffer is even by S2."""
    if depth <= 0:
        return None
    if isinstance(e, ast.Constant) and isinstance(e.value, int):
        return 'even' if e.value % 2 == 0 else 'odd'
    if isinstance(e, ast.Name):
        defs = astq.assignments(f, e.id)
        if len(defs) == 1 and defs[0][0] == 'expr':
            return _evenness(f, defs[0][1], tainted, depth - 1)
        if defs and all(d[0] == 'expr' for d in defs):
            vs = {_evenness(f, d[1], tainted, depth - 1) for d in defs}
            return vs.pop() if len(vs) == 1 else None
        augs = [d for d in defs if d[0] == 'aug']
        if augs and len(defs) == len(augs) + 1:
            # x = e0; x -= x % 2 / x += x % 2 / x &= ~1
            for d in augs:
                n = d[1]
                if isinstance(n.op, (ast.Sub, ast.Add)) and norm(n.value) in (f'{e.id} % 2', f'{e.id} & 1'):
                    return 'even'
                if isinstance(n.op, ast.BitAnd) and norm(n.value) in ('~1', '-2'):
                    return 'even'
        return None
    if isinstance(e, ast.BinOp):
        l, r = _evenness(f, e.left, tainted, depth - 1), _evenness(f, e.right, tainted, depth - 1)
        if isinstance(e.op, ast.Mult):
            if 'even' in (l, r):
                return 'even'
            return 'odd' if l == r == 'odd' else None
        if isinstance(e.op, (ast.Add, ast.Sub)):
            if isinstance(e.op, ast.Sub) and isinstance(e.right, ast.BinOp) and isinstance(e.right.op, ast.Mod) and norm(e.right.right) == '2' and norm(e.right.left) == norm(e.left):
                return 'even'            # x - x % 2
            if isinstance(e.op, ast.Add) and isinstance(e.right, ast.BinOp) and isinstance(e.right.op, ast.Mod) and norm(e.right.right) == '2' and norm(e.right.left) == norm(e.left):
                return 'even'            # x + x % 2
            if l is None or r is None:
                return None
            return 'even' if l == r else 'odd'
        if isinstance(e.op, ast.LShift) and isinstance(e.right, ast.Constant) and isinstance(e.right.value, int) and e.right.value >= 1:
            return 'even'
        if isinstance(e.op, ast.BitAnd) and norm(e.right) in ('~1', '-2'):
            return 'even'
        return None
    if isinstance(e, ast.Call) and norm(e.func) in ('min', 'max') and e.args:
        vs = {_evenness(f, a, tainted, depth - 1) for a in e.args}
        return 'even' if vs == {'even'} else None
    if isinstance(e, ast.Call) and norm(e.func) == 'len' and e.args and isinstance(e.args[0], ast.Name) and e.args[0].id in f.params:
        return 'even'                    # length of an interleaved coordinate buffer (S2)
    return None


def thread_count_rules(P, R):
    """C18.f: a value derived from the number of threads may decide how work is split, never what the result is.  The
    structural part decided: when such a value bounds a slice of an interleaved coordinate buffer that is handed to a
    coordinate kernel, the lower bound is provably even for every thread count (otherwise a block starts on a y value for
    some counts and x/y are swapped)."""
    interleaved_kernels = {g.key for g in P.all_funcs() if g.mod.name.startswith('spatialpandas.geometry._algorithms.') and g.params and g.params[0] in ('values', 'flat_values')}
    nsrc = 0
    for f in P.all_funcs():
        if isinstance(f.node, ast.Lambda):
            continue
        srcs = [n for n in walk_own(f.node) if (isinstance(n, ast.Call) and norm(n.func).split('.')[-1] in THREAD_COUNT_SOURCES)
                or (isinstance(n, ast.Attribute) and n.attr in THREAD_COUNT_SOURCES and not isinstance(getattr(n, 'ctx', None), ast.Store))]
        if not srcs:
            continue
        nsrc += 1
        tainted = set()
        changed = True
        while changed:
            changed = False
            for n in walk_own(f.node):
                tg, val = None, None
                if isinstance(n, ast.Assign) and len(n.targets) == 1:
                    tg, val = n.targets[0], n.value
                elif isinstance(n, ast.AugAssign):
                    tg, val = n.target, n.value
                elif isinstance(n, ast.For):
                    tg, val = n.target, n.iter
                if tg is None:
                    continue
                dep = any((x in srcs) or (isinstance(x, ast.Name) and x.id in tainted) for x in ast.walk(val))
                if dep:
                    for x in ast.walk(tg):
                        if isinstance(x, ast.Name) and x.id not in tainted:
                            tainted.add(x.id)
                            changed = True
        for c in astq.own_calls(f):
            r = P.resolve_call(f, c)
            if not (r and r[0] == 'func' and r[1].key in interleaved_kernels and c.args):
                continue
            a0 = c.args[0]
            if isinstance(a0, ast.Name):
                t_ = astq.trace(f, a0)
                a0 = t_ if isinstance(t_, ast.AST) else a0
            if not (isinstance(a0, ast.Subscript) and isinstance(a0.slice, ast.Slice)):
                continue
            lo = a0.slice.lower
            if lo is None or not (astq.names_in(lo) & tainted):
                continue
            ev = _evenness(f, lo, tainted)
            R.check(ev == 'even', 'C18.f', f, c, 'a block boundary derived from the thread count is even for every count: blocks of the interleaved buffer start on an x value',
                    f'`{norm(a0)}` is handed to {r[1].name}: its lower bound `{norm(lo)}` derives from the number of threads and is not even for every count, '
                    'so for some thread counts a block starts on a y value and x/y are swapped: the result depends on the number of numba threads',
                    construct=f'thread-count block start {norm(lo)}')
    R.count('functions_reading_thread_count', nsrc)


def run(P, R, tier):
    R.assume('S4: numba prange iterations run concurrently; parallel=True without prange parallelises array expressions only')
    R.assume('S7: dask.delayed(f)(...) / map_partitions(f) run f once per task, possibly concurrently')
    prange_rules(P, R)
    parallel_kernels(P, R)
    task_isolation(P, R)
    thread_count_rules(P, R)
    common.forward(P, R, 'C12', ['C12.g'], 'C18.g', 'a row selection does not share the partition caches of its parent: whichever of the two builds the index first would decide the entry both use', floor=2)
    common.forward(P, R, 'C04', ['C04.b', 'C04.c'], 'C18.g', 'a cx query racing with the first build_sindex: the indexer works on ONE snapshot of the index and branches on the result it obtained', floor=2)
    # write-target injectivity of the packing tasks (shared with C10.c)
    from rules import C10
    sub, sub_err = common.sub_results(P, R, 'C10')
    if sub_err is not None and not __import__('report').unlisted(list(R.obs) + list(sub.obs)):
        raise sub_err
    k = 0
    for o in sub.obs:
        if (o.rule == 'C10.c' and ('sub-part' in o.detail or 'renumbering moves' in o.detail)) or (o.rule == 'C10.a' and 'removal above' in (o.construct or '')):
            k += 1
            R._add('C18.c', (o.path, o.site.split('::')[-1]), None, o.status, 'write-target injectivity: ' + o.detail, construct=o.construct)
    if sub_err is None:
        R.floor('C18.c', 'write-target obligations of the packing tasks', k, 2)
    common.fresh_arguments(P, R, 'C18.d', floor=12)
    # functions handed to a thread pool complete in any order: a result list filled by `append` from inside the tasks is in COMPLETION order, not in the order
    # of the inputs (Executor.map / as_completed preserve or expose the order themselves)
    npool = 0
    for f in P.all_funcs():
        if isinstance(f.node, ast.Lambda):
            continue
        pools = set()
        for st in walk_own(f.node):
            if isinstance(st, ast.With):
                for it in st.items:
                    if isinstance(it.context_expr, ast.Call) and norm(it.context_expr.func).split('.')[-1] in ('ThreadPoolExecutor', 'ProcessPoolExecutor', 'ThreadPool', 'Pool') and isinstance(it.optional_vars, ast.Name):
                        pools.add(it.optional_vars.id)
            if isinstance(st, ast.Assign) and isinstance(st.value, ast.Call) and norm(st.value.func).split('.')[-1] in ('ThreadPoolExecutor', 'ThreadPool', 'Thread'):
                pools |= {t.id for t in st.targets if isinstance(t, ast.Name)}
        for c in astq.own_calls(f):
            is_pool_call = isinstance(c.func, ast.Attribute) and c.func.attr in ('map', 'submit', 'imap', 'imap_unordered', 'apply_async', 'starmap') and isinstance(c.func.value, ast.Name) and c.func.value.id in pools
            is_thread = norm(c.func).split('.')[-1] == 'Thread' and astq.arg_of(c, kw='target') is not None
            if not (is_pool_call or is_thread):
                continue
            tgt = astq.arg_of(c, kw='target') if is_thread else (c.args[0] if c.args else None)
            g = None
            if isinstance(tgt, ast.Name):
                r_ = P.resolve_expr_static(f.mod, tgt, local=f)
                g = r_[1] if r_ and r_[0] == 'func' else None
            if g is None:
                continue
            npool += 1
            local = set(g.params) | {n_.id for n_ in walk_own(g.node) if isinstance(n_, ast.Name) and isinstance(n_.ctx, ast.Store)}
            shared = [x for x in astq.own_calls(g) if isinstance(x.func, ast.Attribute) and x.func.attr in ('append', 'extend', 'insert') and isinstance(x.func.value, ast.Name) and x.func.value.id not in local]
            R.check(not shared, 'C18.c', g, shared[0] if shared else c, f'the pool task {g.name} returns its result (no shared list filled in completion order)',
                    f'`{norm(shared[0]) if shared else ""}` in the pool task {g.name} fills a shared list as the calls FINISH: the results are in completion order, but the caller pairs them with its '
                    'inputs by position', construct=f'{g.qualname}: results collected in completion order')
    R.count('thread_pool_tasks', npool)
    # the shuffle that orders tied rows is chosen by the caller (default: the task shuffle), not by ambient dask configuration or by what dask picks for the
    # scheduler in use: the partd ('disk') shuffle returns rows with equal distance in a run- and schedule-dependent order
    pp_ = P.func('spatialpandas.dask', 'DaskGeoDataFrame.pack_partitions')
    amb = [c for c in astq.own_calls(pp_) if 'config' in norm(c.func) and norm(c.func).split('.')[-1] in ('get', 'set')]
    dflt = None
    a_ = pp_.node.args
    pos_ = a_.posonlyargs + a_.args
    for arg_, d_ in zip(pos_[len(pos_) - len(a_.defaults):], a_.defaults):
        if 'shuffle' in arg_.arg:
            dflt = d_
    R.check(not amb and isinstance(dflt, ast.Constant) and isinstance(dflt.value, str), 'C18.g', pp_, amb[0] if amb else dflt,
            'pack_partitions shuffles with the method the caller names (default: a fixed method), independent of ambient configuration',
            f'the shuffle method of pack_partitions comes from `{norm(amb[0]) if amb else norm(dflt) if dflt is not None else "?"}`: without a distributed client dask then uses the partd (disk) shuffle, '
            'which returns rows that tie on the Hilbert distance in a run- and schedule-dependent order', construct='pack_partitions: shuffle method fixed')
    common.evaluated_once(P, R, 'C18.c', 'concurrent pack_partitions_to_parquet calls (or any two calls in one process) that rely on it write into the same "unique" directories')
    # C18.e: objects shared between threads (arrays, indexes, frames) are not written by their query methods; only constructors and the
    # enumerated lazily-built caches store attributes (the check-then-build race of those caches is NOT decided, see module docstring)
    # transient helper objects: a class all of whose instances are created inside a property that returns them at once (`obj.cx` builds a new indexer
    # on every access) is never shared between threads through the library; stores into such an object are thread-local
    transient = set()
    for ci in P.classes.values():
        sites = []
        for g in P.all_funcs():
            for c in astq.own_calls(g):
                r = P.resolve_call(g, c)
                if r and r[0] == 'class' and (r[1] is ci or (r[1].mro and ci in r[1].mro)):
                    par = getattr(c, '_parent', None)
                    sites.append(g.kind == 'property' and isinstance(par, ast.Return))
        subs = [c2 for c2 in P.classes.values() if c2.mro and ci in c2.mro]
        if sites and all(sites) and not any(c2.mod.name != ci.mod.name and False for c2 in subs):
            transient.add(ci)
    shared = []
    for f in P.all_funcs():
        if f.cls is not None and (f.cls in transient or any(b in transient for b in (f.cls.mro or []))) and f.name != '__init__':
            continue
        if f.cls is not None and f.kind in ('method', 'property') and f.mod.name in ('spatialpandas.spatialindex.rtree', 'spatialpandas.geometry.base', 'spatialpandas.geometry.baselist',
                                                                                      'spatialpandas.geometry.basefixed', 'spatialpandas.geoseries', 'spatialpandas.geodataframe', 'spatialpandas.dask') \
                or (f.cls is not None and f.mod.name.startswith('spatialpandas.geometry.')):
            shared.append(f)
    common.who_mutates(P, R, 'C18.e', shared, note=' (objects are shared between threads: concurrent callers see each other\'s writes)')
    common.decorated_methods(P, R, 'C18.e', shared, note=' (objects are shared between threads)')
    # write-target identity inside the writer helpers: the path opened for writing is the helper's own path argument
    F = P.func('spatialpandas.dask', 'DaskGeoDataFrame.pack_partitions_to_parquet')
    nopen = 0
    for g in F.nested.values():
        for c in astq.own_calls(g):
            if astq.fs_call(c) == 'open':
                mode = astq.arg_of(c, pos=1, kw='mode')
                m = astq.const_str(mode) if mode is not None else 'rb'
                if m and ('w' in m or 'a' in m) and c.args and g.params:
                    a0 = c.args[0]
                    if isinstance(a0, ast.Name) and a0.id in g.params:
                        nopen += 1
                        R.ok('C18.c', g, c, f'{g.name} writes exactly the path it was given (the caller makes it unique per task)')
                    elif isinstance(a0, ast.Name):
                        g0, d0 = astq.unique_def(g, a0.id)
                        if isinstance(d0, ast.AST) and (astq.sources(g, d0) & set(g.params)):
                            nopen += 1
                            txt = norm(d0)
                            lossy = 'dirname(' in txt or '.parent' in txt or 'rsplit(' in txt or 'split(' in txt
                            consts = [x.value for x in ast.walk(d0) if isinstance(x, ast.Constant) and isinstance(x.value, str)]
                            R.check(not lossy, 'C18.c', g, c, f'{g.name} writes a path that keeps the identity of its path argument',
                                    f'{g.name} writes to `{txt}`: only the directory of its path argument is kept and the file name is the constant {consts}: concurrent tasks writing into '
                                    f'the same directory share this file')
    R.floor('C18.c', 'open-for-write sites of packing helpers with a path parameter', nopen, 2)
