"""C04 — .cx selects exactly the intersecting rows, with or without a spatial index.

 C04.a  box construction: x-slice ends are X and y-slice ends are Y; an omitted end takes the same-axis, same-side total bound;
        reversed ends are swapped AFTER the defaults are filled in; the tuple handed to the R-tree (covers_overlaps) and to the
        exact test (intersects_bounds) is (x.lo, y.lo, x.hi, y.hi) — decided by order-type evaluation of the whole
        __getitem__ -> _get_bounds -> _perform_get_item pipeline for every combination of given/omitted/reversed ends.
 C04.b  with an index: result positions = covered U overlaps[exact-test mask]; the mask is computed with inds = overlaps and applied
        to overlaps; positions are put back in ascending order; selection on a parent is positional (iloc) or by full-length mask.
 C04.c  containers hand the active geometry's array and parent=self to the indexer.
 C04.d  `_sindex` is written only by the constructor (None) and build_sindex; no derivation copies it.
Does not decide: the exact test itself (C01), pandas indexing semantics.
"""
import ast

import astq
import ordeval
from ordeval import Sym, Row, OPQ
from effects import effects
from model import walk_own, AnalysisError, full as norm
from rules import common

EXPLANATION = (
    'Static analysis of the coordinate indexers in geometry/base.py: the box pipeline (__getitem__ -> _get_bounds -> covers_overlaps / '
    'intersects_bounds) is interpreted over all weak orderings of (slice start, slice stop, total min, total max) per axis, for given and omitted '
    'ends, with and without an index, and the tuples reaching the R-tree and the exact test are compared with (x.lo, y.lo, x.hi, y.hi); def-use rules '
    'decide mask/selection pairing, order restoration and positional selection; an effect rule decides who writes _sindex.')

MOD = 'spatialpandas.geometry.base'


class SliceObj:
    def __init__(self, start, stop):
        self.start, self.stop, self.step = start, stop, None


SLICE = object()


def run(P, R, tier):
    R.assume('S3: cx[x-slice, y-slice]; boxes are (x0, y0, x1, y1)')
    BI = P.cls(f'{MOD}._BaseCoordinateIndexer')
    CI = P.cls(f'{MOD}._CoordinateIndexer')
    gb = BI.members['_get_bounds'][1]
    gi = BI.members['__getitem__'][1]
    pg = CI.members['_perform_get_item'][1]
    box_pipeline(P, R, BI, CI, gb, gi, pg)
    index_path(P, R, pg)
    containers(P, R)
    exact_test_on_every_path(P, R, CI)
    common.forward(P, R, 'C13', ['C13.a', 'C13.b'], 'C04.e', 'the boxes the spatial index is built from are the elements\' own extents (sliced arrays included)', floor=10)
    sindex_writers(P, R)
    common.forward(P, R, 'C16', ['C16.c', 'C16.d'], 'C04.e', 'the boxes and the index a selection is queried with are computed from its own rows: derived arrays carry no cached state of their source', floor=5)
    common.forward(P, R, 'C01', ['C01.l'], 'C04.e', 'without an index cx compares the point coordinates with the slice ends: in double precision, like the boxes of the index', floor=1)
    common.forward(P, R, 'C01', ['C01.c'], 'C04.e', 'cx applies intersects_bounds to the candidates: every element the caller selects gets its own verdict (rows outside `inds` stay False, rows inside are all computed)', floor=3)
    common.forward(P, R, 'C03', ['C03.a', 'C03.b', 'C03.c', 'C03.d', 'C03.e', 'C03.f', 'C03.g', 'C03.h', 'C03.j', 'C03.k'], 'C04.e', 'cx with a spatial index is exact only if the R-tree answers exactly', floor=10)


# ------------------------------------------------------------------------------------------------------------------
def axis_cases():
    """(start, stop, tmin, tmax) ranks; None = omitted end."""
    out = []
    for o in ordeval.orderings(4):
        s, e, lo, hi = o
        if lo > hi:
            continue
        out.append((s, e, lo, hi))
    for o in ordeval.orderings(3):
        a, lo, hi = o
        if lo > hi:
            continue
        out.append((a, None, lo, hi))
        out.append((None, a, lo, hi))
    out.append((None, None, 0, 1))
    out.append((None, None, 0, 0))
    return out


def expected(c):
    s, e, lo, hi = c
    a = s if s is not None else lo
    b = e if e is not None else hi
    return min(a, b), max(a, b)


def box_pipeline(P, R, BI, CI, gb, gi, pg):
    cases = axis_cases()
    step = 1 if len(cases) ** 2 < 4000 else 3
    total = 0
    bad = {}
    for with_index in (True, False):
        for ix, cx in enumerate(cases):
            for iy, cy in enumerate(cases):
                if (ix * 7 + iy) % step and not (cx[0] is None or cx[1] is None or cy[0] is None or cy[1] is None):
                    continue
                total += 1

                def S(r, name, tag):
                    return None if r is None else Sym(r, name, tag)
                xs = SliceObj(S(cx[0], 'x.start', 'X'), S(cx[1], 'x.stop', 'X'))
                ys = SliceObj(S(cy[0], 'y.start', 'Y'), S(cy[1], 'y.stop', 'Y'))
                tot = Row([Sym(cx[2], 'tot.x0', 'X'), Sym(cy[2], 'tot.y0', 'Y'), Sym(cx[3], 'tot.x1', 'X'), Sym(cy[3], 'tot.y1', 'Y')])
                seen = {}

                def attr(I, e, tot=tot, with_index=with_index):
                    src = norm(e)
                    if src.endswith('.total_bounds'):
                        return tot
                    if e.attr in ('start', 'stop', 'step'):
                        base = I.expr(e.value)
                        if isinstance(base, SliceObj):
                            return ordeval.Just(getattr(base, e.attr))
                    if src == 'self._sindex':
                        return with_index
                    return None

                def call(I, e, seen=seen):
                    fn = norm(e.func)
                    if fn == 'type' and e.args:
                        v = I.expr(e.args[0])
                        return SLICE if isinstance(v, SliceObj) else OPQ
                    if fn == 'slice' and len(e.args) == 2:
                        return SliceObj(I.expr(e.args[0]), I.expr(e.args[1]))
                    if isinstance(e.func, ast.Attribute) and isinstance(e.func.value, ast.Name) and e.func.value.id == 'self':
                        name = e.func.attr
                        target = None
                        for ci in (CI, BI):
                            cc, mem = P.lookup(ci, name)
                            if mem is not None and mem[0] == 'func':
                                target = mem[1]
                                break
                        if target is not None and not any(isinstance(x, ast.Raise) and False for x in []):
                            env = {'self': OPQ, 'slice': SLICE}
                            params = target.params if target.kind == 'staticmethod' else target.params[1:]
                            for p_, a in zip(params, e.args):
                                env[p_] = I.expr(a)
                            sub = ordeval.Interp(env, I.hooks, I.check_axes)
                            try:
                                sub.block(target.body)
                            except ordeval.Ctl as c:
                                if c.kind == 'return':
                                    return c.val if c.val is not None else OPQ
                            return OPQ
                    if isinstance(e.func, ast.Attribute) and e.func.attr in ('covers_overlaps', 'intersects_bounds', 'intersects'):
                        v = I.expr(e.args[0]) if e.args else OPQ
                        seen.setdefault(e.func.attr, []).append(v)
                        if e.func.attr == 'covers_overlaps':
                            return [OPQ, OPQ]
                        return OPQ
                    return None

                def opaque_test(I, node):
                    return True
                env = {'self': OPQ, 'key': [xs, ys], 'slice': SLICE}
                kp = [p for p in gi.params if p != 'self']
                if kp:
                    env[kp[0]] = [xs, ys]
                try:
                    I, ctl = ordeval.run_fragment(gi.body, env, {'attr': attr, 'call': call, 'opaque_test': opaque_test})
                except ordeval.AxisMismatch as e:
                    R.bad('C04.a', gb, e.node, f'box construction mixes axes: {e.a.name} with {e.b.name}')
                    return
                except ordeval.NotComparisonOnly as e:
                    if 'truth value of a symbolic number' in str(e):
                        # `xs.start or xmin`: a slice end is tested by its truth value
                        R.bad('C04.a', gb, None, 'a slice end (or a coordinate) is tested by its truth value (`end or default`, `if end:`): an explicit end of 0 counts as omitted and is '
                              'replaced by the data extent, so cx[0:5, 0:5] selects rows left of / below 0', construct='slice ends tested with `is None`')
                        return
                    raise AnalysisError(f'C04.a: box pipeline is not comparison-only: {e}')
                ex, ey = expected(cx), expected(cy)
                sinks = ['intersects_bounds'] + (['covers_overlaps'] if with_index else [])
                for sink in sinks:
                    vals = seen.get(sink)
                    if not vals:
                        bad.setdefault((sink, 'not reached'), []).append({'x': cx, 'y': cy, 'index': with_index})
                        continue
                    v = vals[0]
                    v = v.vals if isinstance(v, Row) else v
                    ok = isinstance(v, list) and len(v) == 4 and all(isinstance(t, Sym) for t in v)
                    if ok:
                        tags = [t.tag for t in v]
                        ranks = [t.rank for t in v]
                        if tags != ['X', 'Y', 'X', 'Y']:
                            bad.setdefault((sink, 'layout'), []).append({'x': cx, 'y': cy, 'got_axes': tags})
                        elif (ranks[0], ranks[2]) != ex or (ranks[1], ranks[3]) != ey:
                            bad.setdefault((sink, 'values'), []).append({'x(start,stop,tmin,tmax)': cx, 'y(start,stop,tmin,tmax)': cy, 'index': with_index,
                                                                        'box_x': (ranks[0], ranks[2]), 'expected_x': ex, 'box_y': (ranks[1], ranks[3]), 'expected_y': ey})
                    else:
                        bad.setdefault((sink, 'opaque'), []).append({'x': cx, 'y': cy})
    R.count('orderings', total)
    R.exhaustive_sites['C04.a box pipeline (given/omitted/reversed ends x index/no index)'] = (step == 1)
    R.sample({'site': 'C04.a', 'cases': total, 'axis_cases': len(cases), 'spec': 'box = (min(a_x,b_x), min(a_y,b_y), max(a_x,b_x), max(a_y,b_y)) with a/b = given end or same-side total bound'})
    if any(k[1] == 'opaque' for k in bad):
        raise AnalysisError(f'C04.a: the box reaching {[k[0] for k in bad if k[1] == "opaque"]} could not be evaluated')
    for sink in ('covers_overlaps', 'intersects_bounds'):
        who = 'the R-tree query' if sink == 'covers_overlaps' else 'the exact test'
        lay = bad.get((sink, 'layout'), [])
        val = bad.get((sink, 'values'), []) + bad.get((sink, 'not reached'), [])
        R.check(not lay, 'C04.a', gi, None, f'the box reaching {who} is laid out (x, y, x, y)',
                f'the box reaching {who} has axes {lay[0]["got_axes"] if lay else ""} instead of (x0, y0, x1, y1)', construct=f'box layout for {sink}', counterexamples=lay[:3])
        R.check(not val, 'C04.a', gb, None, f'the box reaching {who} is (lo, hi) per axis with omitted ends defaulted to the total bounds, for all {total} cases',
                f'the box reaching {who} is wrong on {len(val)} of {total} cases, e.g. {val[:1]}', construct=f'box values for {sink}', counterexamples=val[:5])


# ------------------------------------------------------------------------------------------------------------------
def index_path(P, R, pg):
    p = pg.params   # self, covers_inds, overlaps_inds, x0, x1, y0, y1
    cov, ovl = p[1], p[2]
    # exact test with inds = overlaps
    mask_asg = None
    for s in walk_own(pg.node):
        if isinstance(s, ast.Assign) and isinstance(s.value, ast.Call) and isinstance(s.value.func, ast.Attribute) and s.value.func.attr == 'intersects_bounds':
            mask_asg = s
    if mask_asg is None:
        raise AnalysisError('C04.b: exact test call not found in _perform_get_item')
    c = mask_asg.value
    inds = astq.arg_of(c, pos=1, kw='inds')
    R.check(inds is not None and norm(inds) == ovl and norm(c.func.value) == 'self._obj', 'C04.b', pg, c,
            'the exact test runs on the indexed array restricted to the overlapping rows', f'the exact test is `{norm(c)}`: not restricted to the overlapping rows of the indexed array')
    mask = mask_asg.targets[0].id
    sel = None
    for s in walk_own(pg.node):
        if isinstance(s, ast.Assign) and 'concatenate' in norm(s.value):
            sel = s
    if sel is None:
        R.bad('C04.b', pg, None, 'covered and tested rows are not combined', construct='covered U overlaps[mask]')
    else:
        txt = norm(sel.value)
        parts = None
        for n in ast.walk(sel.value):
            if isinstance(n, ast.Call) and norm(n.func).endswith('concatenate') and n.args and isinstance(n.args[0], (ast.List, ast.Tuple)):
                parts = [norm(e) for e in n.args[0].elts]
        ok = parts is not None and sorted(parts) == sorted([cov, f'{ovl}[{mask}]'])
        R.check(ok, 'C04.b', pg, sel, 'selected rows = covered U overlaps[mask of the same overlaps]', f'selected rows are built from {parts}: not covered U overlaps[mask]')
        ordered = 'np.sort(' in txt or 'sorted(' in txt or 'np.unique(' in txt
        if not ordered:
            # sorted later before use?
            name = sel.targets[0].id
            ordered = any(isinstance(s, ast.Assign) and isinstance(s.targets[0], ast.Name) and s.targets[0].id == name and ('sort' in norm(s.value)) for s in walk_own(pg.node)) \
                or any(isinstance(cc, ast.Call) and isinstance(cc.func, ast.Attribute) and cc.func.attr == 'sort' and norm(cc.func.value) == name for cc in astq.own_calls(pg))
        R.check(ordered, 'C04.b', pg, sel, 'selected positions are put back in ascending order (rows come out in their original order)',
                'selected positions stay in Hilbert/page order: rows come out permuted')
        name = sel.targets[0].id
        # selection sites
        n = 0
        for s in walk_own(pg.node):
            if isinstance(s, ast.Return) and isinstance(s.value, ast.Call) and isinstance(s.value.func, ast.Attribute) and s.value.func.attr == 'take' \
                    and s.value.args and norm(s.value.args[0]) == name:
                n += 1
                R.ok('C04.b', pg, s, 'rows are selected by position (take)')
                continue
            if isinstance(s, ast.Return) and isinstance(s.value, ast.Subscript):
                idx = norm(s.value.slice)
                recv = s.value.value
                if idx == name:
                    n += 1
                    if norm(recv).startswith('self._parent'):
                        ok = isinstance(recv, ast.Attribute) and recv.attr == 'iloc'
                        R.check(ok, 'C04.b', pg, s, 'rows of the parent are selected by position (iloc)',
                                f'`{norm(s.value)}` selects rows of the parent by label with R-tree positions: wrong rows (or KeyError) for any non-default index')
                    else:
                        R.check(norm(recv) == 'self._obj', 'C04.b', pg, s, 'rows of the array are selected by position', f'`{norm(s.value)}` does not select from the indexed array')
                elif idx == mask:
                    n += 1
                    ok = norm(recv) in ('self._parent', 'self._obj', 'self._parent.loc', 'self._parent.iloc')
                    R.check(ok, 'C04.b', pg, s, 'without an index the full-length mask selects the rows', f'`{norm(s.value)}` is not a full-length mask selection')
        R.floor('C04.b', 'selection sites', n, 4)
    # the no-index branch is taken only when no index result is present
    tests = [s for s in astq.own_nodes(pg, ast.If) if cov in astq.names_in(s.test)]
    R.check(bool(tests) and 'is not None' in norm(tests[0].test), 'C04.b', pg, tests[0].test if tests else None,
            'index path is taken exactly when the index produced (covered, overlaps)', 'index/no-index branch is not keyed on the presence of the index result', nontrivial=False)


def containers(P, R):
    gs = P.func('spatialpandas.geoseries', 'GeoSeries.cx')
    ok = False
    for c in astq.own_calls(gs):
        if norm(c.func).endswith('_CoordinateIndexer'):
            par = astq.arg_of(c, pos=1, kw='parent')
            ok = c.args and norm(c.args[0]) == 'self.array' and par is not None and norm(par) == 'self'
    R.check(ok, 'C04.c', gs, None, 'GeoSeries.cx indexes its own array with parent=self', 'GeoSeries.cx does not index (self.array, parent=self)', construct='_CoordinateIndexer(self.array, parent=self)')
    gd = P.func('spatialpandas.geodataframe', 'GeoDataFrame.cx')
    ok = False
    for c in astq.own_calls(gd):
        if norm(c.func).endswith('_CoordinateIndexer'):
            par = astq.arg_of(c, pos=1, kw='parent')
            ok = c.args and norm(c.args[0]) == 'self.geometry.array' and par is not None and norm(par) == 'self'
    R.check(ok, 'C04.c', gd, None, 'GeoDataFrame.cx indexes the active geometry array with parent=self', 'GeoDataFrame.cx does not index (self.geometry.array, parent=self)',
            construct='_CoordinateIndexer(self.geometry.array, parent=self)')
    ga = P.func(MOD, 'GeometryArray.cx')
    ok = any(norm(c.func).endswith('_CoordinateIndexer') and c.args and norm(c.args[0]) == 'self' for c in astq.own_calls(ga))
    R.check(ok, 'C04.c', ga, None, 'GeometryArray.cx indexes itself', 'GeometryArray.cx does not index itself', construct='_CoordinateIndexer(self)', nontrivial=False)
    init = P.func(MOD, '_CoordinateIndexer.__init__')
    ok = any(isinstance(c.func, ast.Attribute) and c.func.attr == '__init__' and c.args and norm(c.args[0]) == f'{init.params[1]}._sindex' for c in astq.own_calls(init))
    R.check(ok, 'C04.c', init, None, 'the indexer uses the index of the very array it selects from (obj._sindex)', 'the indexer does not take the index of the array it selects from',
            construct='super().__init__(obj._sindex)')


def exact_test_on_every_path(P, R, CI):
    """C04.f  Whatever shortcut the concrete indexer takes, a row is returned only after the exact test: in the `__getitem__` that
    `_CoordinateIndexer` resolves to (an override included), every path to a return passes through `_perform_get_item` or through the
    inherited `__getitem__` (which is checked the same way); in `_perform_get_item` every return passes through `intersects_bounds`."""
    import cfg as cfgmod

    def passes(f, names, seen):
        if f.key in seen:
            return True
        seen.add(f.key)
        C = cfgmod.build(f.node)
        gates = []
        for s in walk_own(f.node):
            if isinstance(s, ast.stmt) and not isinstance(s, (ast.If, ast.For, ast.While, ast.With, ast.Try, ast.FunctionDef)):
                for c in ast.walk(s):
                    if isinstance(c, ast.Call) and isinstance(c.func, ast.Attribute):
                        if c.func.attr in names:
                            gates.append(s)
                        elif c.func.attr == f.name and norm(c.func.value) == 'super()':
                            sup = None
                            for b in (f.cls.mro[1:] if f.cls is not None and f.cls.mro else []):
                                if f.name in b.members and b.members[f.name][0] == 'func':
                                    sup = b.members[f.name][1]
                                    break
                            if sup is not None and passes(sup, names, seen):
                                gates.append(s)
        gn = [C.node(s) for s in gates if C.node(s) is not None]
        bad = []
        for ret in [s for s in walk_own(f.node) if isinstance(s, ast.Return)]:
            if not gn or not C.every_path_passes(C.ENTRY, C.node(ret), gn):
                bad.append(ret)
        for ret in bad:
            R.bad('C04.f', f, ret, f'`{norm(ret)}` in {f.qualname} is reached without {" / ".join(sorted(names))}: rows are returned that never went through the exact '
                  'intersection test (a missing or empty geometry inside a "covering" box is selected)', construct=f'{f.qualname}: exact test on every path')
        if not bad:
            R.ok('C04.f', f, None, f'every return of {f.qualname} passes through {" / ".join(sorted(names))}', construct=f'{f.qualname}: exact test on every path')
        return not bad

    ci_, mem = P.lookup(CI, '__getitem__')
    if mem is None or mem[0] != 'func':
        raise AnalysisError('C04.f: _CoordinateIndexer.__getitem__ not resolvable')
    passes(mem[1], {'_perform_get_item'}, set())
    ci_, mem2 = P.lookup(CI, '_perform_get_item')
    if mem2 is not None and mem2[0] == 'func':
        passes(mem2[1], {'intersects_bounds'}, set())


def sindex_writers(P, R, rule='C04.d'):
    E = effects(P)
    n = 0
    for f, node, recv, attr in E.attr_writes:
        if attr == '_sindex':
            n += 1
            ok = f.qualname in common.CACHE_ATTR_WRITERS['_sindex']
            R.check(ok, rule, f, node, f'`_sindex` is written by {f.qualname} (constructor / build_sindex / indexer holder)',
                    f'`_sindex` is written in {f.qualname}: an index built for other rows can be carried over to a derived array (stale row numbers)')
    R.floor(rule, 'writers of _sindex', n, 2)
    # constructor sets None; build_sindex builds from self.bounds
    init = P.func(MOD, 'GeometryArray.__init__')
    ok = any(isinstance(s, ast.Assign) and norm(s.targets[0]) == 'self._sindex' and norm(s.value) == 'None' for s in walk_own(init.node))
    R.check(ok, rule, init, None, 'every new array starts without an index', 'a new array does not start with _sindex = None', construct='self._sindex = None')
    bs = P.func(MOD, 'GeometryArray.build_sindex')
    ok = False
    arg0 = None
    for s in walk_own(bs.node):
        if isinstance(s, ast.Assign) and norm(s.targets[0]) == 'self._sindex' and isinstance(s.value, ast.Call) and s.value.args:
            arg0 = astq.trace(bs, s.value.args[0])
            ok = isinstance(arg0, ast.AST) and norm(arg0) == 'self.bounds'
    R.check(ok, rule, bs, None, 'the index is built from ALL rows of the array\'s own bounds, in array order (row numbers = array positions)',
            f'build_sindex builds the index from `{norm(arg0) if isinstance(arg0, ast.AST) else arg0}` instead of self.bounds: the row numbers it returns are not positions in the array',
            construct='self._sindex = HilbertRtree(self.bounds, ...)')
    # ... for EVERY array: after build_sindex the index exists - each return is reached through the store, or through the branch in which the index was there
    # already.  An early exit ("nothing to index" for an empty array) leaves `sindex` answering None, and the first query on it raises
    import cfg as _cfg
    Cb = _cfg.build(bs.node)
    stores = [Cb.node(s) for s in walk_own(bs.node) if isinstance(s, ast.Assign) and norm(s.targets[0]) == 'self._sindex' and Cb.node(s) is not None]
    for r_ in [x for x in walk_own(bs.node) if isinstance(x, ast.Return)]:
        through = bool(stores) and Cb.every_path_passes(Cb.ENTRY, Cb.node(r_), stores)
        if not through:
            # paths that avoid the store must be the ones on which `self._sindex is None` was false
            guards = [g for g in astq.own_nodes(bs, ast.If) if '_sindex' in norm(g.test) and any(Cb.node(s2) in stores for s2 in ast.walk(g) if isinstance(s2, ast.Assign) and Cb.node(s2) is not None)]
            only_guard = bool(guards) and all(isinstance(g.test, ast.Compare) and norm(g.test) in ('self._sindex is None',) for g in guards) and \
                not any(isinstance(x, ast.Return) and x is r_ and any(x is y for g in astq.own_nodes(bs, ast.If) if '_sindex' not in norm(g.test) for y in ast.walk(g)) for x in [r_])
            through = only_guard
        R.check(through, rule, bs, r_, 'every return of build_sindex is reached with the index built (or already there)',
                f'`{norm(r_)}` leaves build_sindex without an index for some arrays (an early exit that is not the "already built" case): `sindex` then answers None and the first query raises',
                construct=f'build_sindex: {norm(r_)} with the index built')
