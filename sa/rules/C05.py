"""C05 — spatial join returns exactly the intersecting (left, right) pairs.

 C05.a  every emitted pair passed the exact predicate: the left keys are candidate_inds[mask] where mask =
        left_geom.intersects(shape, inds=candidate_inds) for the SAME candidates, candidates come from the index of the same
        (reset) left frame's active geometry whose array is tested.
 C05.b  same-row rule: within one iteration the right bounds, the right shape and the recorded right key use the loop index.
 C05.c  join kind at outcome level: folding the `how=` of each merge chain over which operand carries which side gives
        {matched} for inner, {matched, unmatched-left} for left, {matched, unmatched-right} for right; keys are joined
        _key_left <-> left row position, _key_right <-> right row position; suffixes are (lsuffix, rsuffix) with the left-derived
        operand on the left; the other side's geometry column is dropped; the recorded index columns are restored.
 C05.d  Dask form (shared with C06.e).
 C05.e  active geometry of the result (shared with C20.e).
Does not decide: pandas merge semantics (multiplicity, NaN fill, column order), index dtype.
"""
import ast

import astq
from model import walk_own, AnalysisError, full as norm

EXPLANATION = (
    'Static def-use and table analysis of tools/sjoin.py: provenance of the key columns (they must flow through the exact-predicate mask of the '
    'same candidate set), loop-index discipline, and an outcome-level abstraction of each merge chain (which of matched / unmatched-left / '
    'unmatched-right row kinds survive, folded over how= and operand sides), plus key/suffix/drop/index-restore agreement.  pandas merge semantics '
    'are assumed (S5).')

MOD = 'spatialpandas.tools.sjoin'


def run(P, R, tier):
    R.assume('S5: pandas merge(how=inner|left|right|outer) keeps unmatched rows of the left / right operand accordingly')
    f = P.func(MOD, '_sjoin_pandas_pandas')
    pairs(P, R, f)
    reset_helper(P, R)
    chains(P, R, f)
    from rules import common as _common
    _common.forward(P, R, 'C02', ['C02.*'], 'C05.g', 'a pair is emitted iff the point intersects the shape (C02)', floor=10)
    _common.forward(P, R, 'C03', ['C03.a', 'C03.b', 'C03.c', 'C03.d', 'C03.e', 'C03.f', 'C03.g', 'C03.h', 'C03.i', 'C03.j', 'C03.k'], 'C05.g', 'candidate rows come from the R-tree, each exactly once (C03)', floor=10)
    _common.forward(P, R, 'C16', ['C16.f'], 'C05.g', 'the merges gather the geometry columns row by row through GeometryArray.take', floor=1)
    # C05.d / C05.e
    from rules import C06, C20
    sub = type(R)(R.prop, R.tier)
    try:
        C06.run(P, sub, tier)
    except AnalysisError:
        pass
    k = 0
    for o in sub.obs:
        if o.rule == 'C06.e':
            k += 1
            R._add('C05.d', (o.path, o.site.split('::')[-1]), None, o.status, o.detail, construct=o.construct)
        elif o.rule == 'C06.d' and (o.detail.startswith('[C12.') or '_partition_bounds' in o.detail or '_partition_bounds' in (o.construct or '')):
            # the Dask join zips every partition with ITS row of the partition bounds: rows numbered in partition order, for the partitions that were kept
            R._add('C05.d', (o.path, o.site.split('::')[-1]), None, o.status, 'partitions are joined against the right rows selected by their own bounds: ' + o.detail, construct=o.construct)
    R.floor('C05.d', 'Dask sjoin obligations', k, 3)
    sub = type(R)(R.prop, R.tier)
    C20.run(P, sub, tier)
    for o in sub.obs:
        if o.rule == 'C20.e' and 'sjoin' in o.detail:
            R._add('C05.e', (o.path, o.site.split('::')[-1]), None, o.status, o.detail, construct=o.construct)
    # both frames are index-reset copies; dispatch passes how and suffixes through
    sj = P.func(MOD, 'sjoin')
    for c in astq.own_calls(sj):
        r = P.resolve_call(sj, c)
        if r and r[0] == 'func' and r[1].name.startswith('_sjoin_'):
            ok = all(astq.arg_of(c, kw=k_) is not None and norm(astq.arg_of(c, kw=k_)) == k_ for k_ in ('how', 'lsuffix', 'rsuffix')) \
                and [norm(a) for a in c.args[:2]] == sj.params[:2]
            R.check(ok, 'C05.c', sj, c, 'sjoin passes (left_df, right_df, how, lsuffix, rsuffix) through unchanged', f'`{norm(c)}` does not pass frames/how/suffixes through unchanged')


def pairs(P, R, f):
    loop = None
    for s in astq.own_nodes(f, ast.For):
        if isinstance(s.target, ast.Name) and isinstance(s.iter, ast.Call) and norm(s.iter.func) == 'range' and 'len(' in norm(s.iter):
            loop = s
    if loop is None:
        raise AnalysisError('C05.a: loop over the right frame not found')
    i = loop.target.id
    right_frame = None
    m = ast.walk(loop.iter)
    for n in m:
        if isinstance(n, ast.Call) and norm(n.func) == 'len' and isinstance(n.args[0], ast.Name):
            right_frame = n.args[0].id
    # stores into the two per-row lists
    stores = [s for s in ast.walk(loop) if isinstance(s, ast.Assign) and isinstance(s.targets[0], ast.Subscript) and norm(s.targets[0].slice) == i]
    R.floor('C05.a', 'per-row stores in the join loop', len(stores), 2)
    # which list feeds _key_left / _key_right
    keys = {}
    for n in walk_own(f.node):
        if isinstance(n, ast.Dict):
            for k, v in zip(n.keys, n.values):
                ks = astq.const_str(k)
                if ks in ('_key_left', '_key_right'):
                    e = astq.trace(f, v)
                    # flat_x = np.concatenate(x)  (several defs because of the empty fallback): take all defs
                    srcs = set()
                    if isinstance(v, ast.Name):
                        for d in astq.assignments(f, v.id):
                            if d[0] == 'expr' and 'concatenate' in norm(d[1]):
                                srcs |= astq.names_in(d[1]) - {'np'}
                    keys[ks] = srcs
    if set(keys) != {'_key_left', '_key_right'}:
        raise AnalysisError('C05.a: pair table {_key_left, _key_right} not found')
    for s in stores:
        lst = s.targets[0].value.id if isinstance(s.targets[0].value, ast.Name) else None
        if lst in keys['_key_left']:
            v = astq.trace(f, s.value)
            ok = False
            detail = norm(v) if isinstance(v, ast.AST) else str(v)
            if isinstance(v, ast.Subscript) and isinstance(v.value, ast.Name) and isinstance(v.slice, (ast.Name, ast.Call)):
                cand = v.value.id
                md = astq.trace(f, v.slice) if isinstance(v.slice, ast.Name) else v.slice
                cd = astq.trace(f, v.value)
                ok_mask = isinstance(md, ast.Call) and isinstance(md.func, ast.Attribute) and md.func.attr == 'intersects' \
                    and astq.arg_of(md, pos=1, kw='inds') is not None and norm(astq.arg_of(md, pos=1, kw='inds')) == cand
                recv = astq.expand(f, md.func.value) if ok_mask else None
                ok_recv = isinstance(recv, ast.AST) and (norm(recv).endswith('.geometry.array') or norm(recv).endswith('.geometry.values'))
                ok_cand = isinstance(cd, ast.Call) and isinstance(cd.func, ast.Attribute) and cd.func.attr == 'intersects'
                sx = astq.expand(f, cd.func.value) if ok_cand else None
                ok_sx = isinstance(sx, ast.AST) and norm(sx).endswith('.geometry.sindex')
                same_frame = ok_recv and ok_sx and norm(recv).split('.geometry')[0] == norm(sx).split('.geometry')[0]
                ok = ok_mask and ok_recv and ok_cand and ok_sx and same_frame
                # the shape tested is the right row's shape; the candidate query uses the right row's bounds
                if ok:
                    shape = astq.trace(f, md.args[0]) if md.args else None
                    bnds = astq.trace(f, cd.args[0]) if cd.args else None
                    okb = isinstance(shape, ast.Subscript) and norm(shape.slice) == i and isinstance(bnds, ast.Subscript) and norm(bnds.slice).lstrip('(').startswith(i)
                    rs = astq.expand(f, shape.value) if isinstance(shape, ast.Subscript) else None
                    rb = astq.expand(f, bnds.value) if isinstance(bnds, ast.Subscript) else None
                    okb = okb and isinstance(rs, ast.AST) and norm(rs) in (f'{right_frame}.geometry.array', f'{right_frame}.geometry.values') \
                        and isinstance(rb, ast.AST) and norm(rb).startswith(f'{right_frame}.geometry.bounds')
                    R.check(okb, 'C05.b', f, s, f'the shape and the bounds used in iteration {i} are row {i} of the right frame\'s active geometry',
                            f'shape `{norm(shape) if isinstance(shape, ast.AST) else shape}` / bounds `{norm(bnds) if isinstance(bnds, ast.AST) else bnds}` are not row {i} of {right_frame}.geometry')
            R.check(ok, 'C05.a', f, s, 'left keys = candidates[mask], mask = exact predicate on the same candidates of the same left geometry',
                    f'left keys `{detail}` do not flow through the exact-predicate mask of the same candidate set: bbox-only matches or misaligned rows are emitted')
        elif lst in keys['_key_right']:
            v = s.value
            ok = isinstance(v, ast.Call) and norm(v.func) in ('np.full', 'np.repeat') and len(v.args) == 2 and i in {norm(a) for a in v.args}
            lens = [a for a in v.args if 'len(' in norm(a)] if isinstance(v, ast.Call) else []
            # its length is the number of emitted left keys of the same iteration
            left_store = [x for x in stores if isinstance(x.targets[0].value, ast.Name) and x.targets[0].value.id in keys['_key_left']]
            ok = ok and bool(lens) and bool(left_store) and norm(left_store[0].value) in norm(lens[0])
            R.check(ok, 'C05.b', f, s, f'right key = the loop index {i}, once per emitted left key', f'right keys `{norm(v)}` are not the loop index repeated once per emitted left key')
    # C05.f: an inert right row (missing/empty geometry => NaN bounds, element None) never reaches the exact predicate
    import cfg as cfgmod
    C = cfgmod.build(f.node)
    pred_calls = [c for c in ast.walk(loop) if isinstance(c, ast.Call) and isinstance(c.func, ast.Attribute) and c.func.attr == 'intersects'
                  and astq.arg_of(c, kw='inds') is not None]
    for c in pred_calls:
        st = c
        while not isinstance(st, ast.stmt):
            st = st._parent
        guards = []
        for g in ast.walk(loop):
            if isinstance(g, ast.If) and any(isinstance(x, ast.Continue) for x in g.body):
                t = norm(g.test)
                if ('isnan' in t or 'is None' in t or 'isna' in t) :
                    guards.append(C.node(g))
        ok = bool(guards) and C.every_path_passes(C.node(loop.body[0]), C.node(st), guards)
        R.check(ok, 'C05.f', f, c, 'a right row without a valid box (missing/empty geometry) is skipped before the exact predicate',
                'a missing right geometry reaches the exact predicate: its NaN bounds select every left row as candidate and intersects(None) raises ValueError',
                construct='skip right rows with NaN bounds')
    # the lists are pre-filled with empty arrays for rows without candidates
    for lst in keys['_key_left'] | keys['_key_right']:
        d = [x for x in astq.assignments(f, lst) if x[0] == 'expr']
        ok = bool(d) and '* len(' in norm(d[0][1]) and right_frame in norm(d[0][1])
        R.check(ok, 'C05.a', f, d[0][1] if d else None, f'`{lst}` has one (initially empty) entry per right row', f'`{lst}` is not initialised with one empty entry per right row', nontrivial=False)


def operand(f, e, roles):
    """Abstract a merge-chain expression: returns dict(kinds=set, left=bool, right=bool, node=expr) or None."""
    if isinstance(e, ast.Name):
        if e.id in roles:
            r = roles[e.id]
            return dict(kinds={'LEFT': {'m', 'L'}, 'RIGHT': {'m', 'R'}, 'PAIRS': {'m'}}[r], left=r == 'LEFT', right=r == 'RIGHT', pairs=r == 'PAIRS',
                        index={'LEFT': 'leftpos', 'RIGHT': 'rightpos', 'PAIRS': None}[r], dropped=set())
        g, d = astq.unique_def(f, e.id)
        if isinstance(d, ast.AST):
            return operand(g, d, roles)
        return None
    if isinstance(e, ast.Call) and isinstance(e.func, ast.Attribute):
        meth = e.func.attr
        base = operand(f, e.func.value, roles)
        if base is None:
            return None
        if meth == 'merge':
            return None      # handled by the caller
        if meth == 'set_index' and e.args and base.get('pairs'):
            k = astq.const_str(e.args[0])
            b = dict(base)
            b['index'] = k
            return b
        if meth == 'drop' and e.args:
            b = dict(base)
            b['dropped'] = set(base['dropped']) | {norm(e.args[0])}
            return b
        return base
    return None


def fold(R, f, e, roles, merges):
    if isinstance(e, ast.Call) and isinstance(e.func, ast.Attribute) and e.func.attr == 'merge':
        A = fold(R, f, e.func.value, roles, merges)
        B = fold(R, f, e.args[0], roles, merges) if e.args else None
        if A is None or B is None:
            return None
        how = astq.arg_of(e, kw='how')
        how = astq.const_str(how) if how is not None else 'inner'
        kinds = set()
        if 'm' in A['kinds'] and 'm' in B['kinds']:
            kinds.add('m')
        for k in A['kinds'] - {'m'}:
            if how in ('left', 'outer'):
                kinds.add(k)
        for k in B['kinds'] - {'m'}:
            if how in ('right', 'outer'):
                kinds.add(k)
        res = dict(kinds=kinds, left=A['left'] or B['left'], right=A['right'] or B['right'], pairs=A.get('pairs') or B.get('pairs'), index=None,
                   dropped=A['dropped'] | B['dropped'])
        merges.append((e, A, B, how))
        return res
    if isinstance(e, ast.Call) and isinstance(e.func, ast.Attribute):
        base = fold(R, f, e.func.value, roles, merges)
        if base is None:
            return None
        b = dict(base)
        if e.func.attr == 'set_index' and e.args:
            b['set_index'] = norm(e.args[0])
            if base.get('pairs') and not (base['left'] or base['right']):
                b['index'] = astq.const_str(e.args[0])
        if e.func.attr == 'drop' and e.args:
            b['dropped'] = set(base['dropped']) | {norm(e.args[0])}
        return b
    return operand(f, e, roles)


def reset_helper(P, R):
    """C05.h  The pair table holds row POSITIONS (_key_left/_key_right); the frames they are merged with must therefore be indexed by position:
    every return of _record_reset_index passes through reset_index, except under a guard that establishes that the labels already ARE the positions
    (RangeIndex with start 0 AND step 1)."""
    import cfg as cfgmod
    g = P.func(MOD, '_record_reset_index')
    C = cfgmod.build(g.node)
    resets = [s for s in walk_own(g.node) if isinstance(s, (ast.Assign, ast.Expr)) and any(isinstance(c, ast.Call) and isinstance(c.func, ast.Attribute) and c.func.attr == 'reset_index'
                                                                                         for c in ast.walk(s))]
    R.floor('C05.h', 'reset_index statements in _record_reset_index', len(resets), 1)
    rn = [C.node(s) for s in resets]
    for ret in [s for s in walk_own(g.node) if isinstance(s, ast.Return)]:
        if C.every_path_passes(C.ENTRY, C.node(ret), rn):
            R.ok('C05.h', g, ret, 'the returned frame went through reset_index: its index is the row position the pair table refers to')
            continue
        # a bypass: acceptable only under a guard that proves labels == positions
        guard = None
        q = ret
        while getattr(q, '_parent', None) is not None and q._parent is not g.node:
            q = q._parent
            if isinstance(q, ast.If):
                guard = q.test
        gt = norm(guard) if guard is not None else ''
        full = guard is not None and 'RangeIndex' in gt and ('.start == 0' in gt or '.start == 0' in gt.replace('0 == ', '')) and '.step == 1' in gt
        equals = guard is not None and '.equals(' in gt and 'RangeIndex(' in gt
        R.check(full or equals, 'C05.h', g, ret, 'a return without reset_index is guarded by "the index is RangeIndex(0, n, 1)" (labels are the positions)',
                f'`{norm(ret)}` is reached without reset_index under `{gt}`, which does not establish that the labels are the row positions '
                '(a strided RangeIndex 0, k, 2k, ... passes): the positional pair keys are then merged against labels and pair up the wrong rows',
                construct='return without reset_index')


def chains(P, R, f):
    p = f.params
    # roles: the reset copies of the two frames and the pair table
    roles = {}
    for s in walk_own(f.node):
        if isinstance(s, ast.Assign) and isinstance(s.targets[0], ast.Tuple) and isinstance(s.value, ast.Call) and norm(s.value.func) == '_record_reset_index':
            tgt = s.targets[0].elts[0].id
            a0 = s.value.args[0]
            srcname = a0.id if isinstance(a0, ast.Name) else None
            if srcname is not None and srcname not in p:
                g0, d0 = astq.unique_def(f, srcname)
                srcname = d0.id if isinstance(d0, ast.Name) else None
            side = 'LEFT' if srcname == p[0] else 'RIGHT' if srcname == p[1] else None
            if side:
                roles[tgt] = side
                suffix = norm(s.value.args[1]) if len(s.value.args) > 1 else ''
                want = 'lsuffix' if side == 'LEFT' else 'rsuffix'
                R.check(suffix == want, 'C05.c', f, s, f'the {side.lower()} frame\'s index is recorded under the {want}', f'the {side.lower()} frame\'s index is recorded under `{suffix}`')
                idxname = s.targets[0].elts[2].id
                roles['__index_' + side] = idxname
                roles['__oldname_' + side] = s.targets[0].elts[1].id
    if 'LEFT' not in roles.values() or 'RIGHT' not in roles.values():
        raise AnalysisError('C05.c: index-reset copies of the two frames not found')
    for n in walk_own(f.node):
        if isinstance(n, ast.Assign) and isinstance(n.targets[0], ast.Name) and isinstance(n.value, ast.Call) and norm(n.value.func).endswith('DataFrame') \
                and '_key_left' in norm(n.value):
            roles[n.targets[0].id] = 'PAIRS'
    pairs_name = [k for k, v in roles.items() if v == 'PAIRS']
    if not pairs_name:
        raise AnalysisError('C05.c: pair table not found')
    # the three branches
    branches = {}
    top = [s for s in f.node.body if isinstance(s, ast.If) and 'how' in astq.names_in(s.test)]
    if not top:
        raise AnalysisError('C05.c: how-dispatch not found')
    node = top[0]
    while True:
        t = node.test
        hv = None
        if isinstance(t, ast.Compare) and isinstance(t.ops[0], ast.Eq):
            hv = astq.const_str(t.comparators[0])
        branches[hv] = node.body
        if len(node.orelse) == 1 and isinstance(node.orelse[0], ast.If):
            node = node.orelse[0]
        else:
            rest = {'inner', 'left', 'right'} - set(branches)
            if node.orelse and len(rest) == 1:
                branches[rest.pop()] = node.orelse
            break
    R.floor('C05.c', 'join-kind branches', len([k for k in branches if k in ('inner', 'left', 'right')]), 3)
    want = {'inner': {'m'}, 'left': {'m', 'L'}, 'right': {'m', 'R'}}
    for how, body in branches.items():
        if how not in want:
            continue
        br_roles = dict(roles)
        joined = None
        for s in body:
            if isinstance(s, ast.Assign) and isinstance(s.targets[0], ast.Name):
                # re-definition of the pair table inside the branch (result = result.set_index('_key_left'))
                if s.targets[0].id in pairs_name and 'merge' not in norm(s.value):
                    continue
                if 'merge' in norm(s.value):
                    joined = s
        if joined is None:
            R.bad('C05.c', f, None, f'no merge chain found for how={how!r}', construct=f'chain {how}')
            continue
        # pair-table index inside this branch
        pidx = None
        for s in body:
            if isinstance(s, ast.Assign) and isinstance(s.targets[0], ast.Name) and s.targets[0].id in pairs_name and 'set_index' in norm(s.value):
                for c in ast.walk(s.value):
                    if isinstance(c, ast.Call) and isinstance(c.func, ast.Attribute) and c.func.attr == 'set_index' and c.args:
                        pidx = astq.const_str(c.args[0])
        merges = []
        res = fold(R, f, joined.value, br_roles, merges)
        if res is None:
            R.abstain('C05.c', f, joined, f'merge chain for how={how!r} is not in a shape the analysis understands')
            continue
        R.check(res['kinds'] == want[how], 'C05.c', f, joined, f'how={how!r}: the chain keeps exactly the row kinds {sorted(want[how])} (m=matched, L/R=unmatched left/right)',
                f'how={how!r}: the chain keeps row kinds {sorted(res["kinds"])} instead of {sorted(want[how])}: unmatched rows vanish or spurious unmatched rows appear',
                construct=f'merge chain how={how}', hows=[m[3] for m in merges])
        for (e, A, B, h) in merges:
            # keys
            li, ri = astq.arg_of(e, kw='left_index'), astq.arg_of(e, kw='right_index')
            lo, ro = astq.arg_of(e, kw='left_on'), astq.arg_of(e, kw='right_on')
            def keyof(side_op, use_index, on):
                if use_index is not None and norm(use_index) == 'True':
                    if side_op.get('pairs') and not (side_op['left'] or side_op['right']):
                        return side_op.get('index') or pidx
                    return 'leftpos' if side_op['left'] and not side_op['right'] else 'rightpos' if side_op['right'] and not side_op['left'] else '?'
                return astq.const_str(on) if on is not None else '?'
            ka, kb = keyof(A, li, lo), keyof(B, ri, ro)
            pairing = {frozenset(['leftpos', '_key_left']), frozenset(['rightpos', '_key_right'])}
            R.check(frozenset([ka, kb]) in pairing, 'C05.c', f, e, f'merge joins {ka} with {kb}',
                    f'merge joins `{ka}` with `{kb}`: left row positions must meet _key_left and right row positions _key_right', construct=f'{how}: keys of {_short(e)}')
            # suffixes where both sides' columns meet
            suf = astq.arg_of(e, kw='suffixes')
            both = (A['left'] and B['right']) or (A['right'] and B['left'])
            if both:
                ok = suf is not None and isinstance(suf, ast.Tuple) and len(suf.elts) == 2
                if ok:
                    s0, s1 = norm(suf.elts[0]), norm(suf.elts[1])
                    want_order = ('lsuffix', 'rsuffix') if A['left'] else ('rsuffix', 'lsuffix')
                    ok = want_order[0] in s0 and want_order[1] in s1 and want_order[1] not in s0 and want_order[0] not in s1
                R.check(ok, 'C05.c', f, e, 'clashing columns get (lsuffix for left-frame columns, rsuffix for right-frame columns)',
                        f'suffixes `{norm(suf) if suf is not None else None}` with the {"left" if A["left"] else "right"}-frame operand on the left: left columns get the right suffix',
                        construct=f'{how}: suffixes of {_short(e)}')
        # geometry drop
        dropped = res['dropped']
        lname = [k for k, v in roles.items() if v == 'LEFT'][0]
        rname = [k for k, v in roles.items() if v == 'RIGHT'][0]
        wantdrop = f'{rname}.geometry.name' if how in ('inner', 'left') else f'{lname}.geometry.name'
        R.check(wantdrop in dropped, 'C05.c', f, joined, f'how={how!r}: the {"right" if how != "right" else "left"} frame\'s geometry column is dropped',
                f'how={how!r}: `{wantdrop}` is not dropped (dropped: {sorted(dropped)})', construct=f'{how}: geometry drop')
        # index restore
        side = 'LEFT' if how in ('inner', 'left') else 'RIGHT'
        R.check(res.get('set_index') == roles.get('__index_' + side), 'C05.c', f, joined, f'how={how!r}: the recorded {side.lower()} index column(s) become the index again',
                f'how={how!r}: index is set from `{res.get("set_index")}` instead of the recorded {side.lower()} index columns', construct=f'{how}: index restore')
        named = any(isinstance(s, (ast.If, ast.Assign)) and roles.get('__oldname_' + side, '?') in norm(s) and ('.index.name' in norm(s)) for s in body)
        R.check(named, 'C05.c', f, None, f'how={how!r}: the original index name(s) are restored', f'how={how!r}: original index names are not restored',
                construct=f'{how}: index names', nontrivial=False)


def _short(e):
    s = norm(e.func.value)
    return (s[:40] + '...') if len(s) > 43 else s
