"""C11 — parquet round trips are lossless for every geometry type (thin structural claim).

 C11.a  registry closure for all seven kinds: Dtype registered with pandas, unique _geometry_name, Dtype.construct_array_type() ->
        Array, Array._dtype_class -> Dtype, Array._element_type -> scalar, scalar.construct_array_type() -> Array, Dask non-empty
        example registered for that Dtype, built with that Array AND with the requested dtype, nesting levels scalar = array - 1.
 C11.b  arrow hooks: __arrow_array__ returns the backing array; __from_arrow__ builds construct_array_type()(data, dtype=self); both
        base constructors accept pa.Array and pa.ChunkedArray.
 C11.c  column projection: index columns named in the pandas metadata are prepended to columns= unless already requested.
 C11.d  pieces of each dataset are sorted with the natural key, dataset by dataset (datasets stay in the order given).
Does not decide: pyarrow/pandas serialisation itself — almost all of the value-level content of the property.
"""
import ast

import astq
from model import walk_own, AnalysisError, full as norm

EXPLANATION = (
    'Static table/sibling analysis: the seven geometry kinds must close under Dtype <-> Array <-> scalar <-> Dask example <-> nesting level; the arrow '
    'conversion hooks and the (Chunked)Array branches of the constructors are checked structurally; read_parquet\'s index-column prepending and the '
    'per-dataset natural sort of pieces are def-use rules.  The serialisation done by pyarrow/pandas is not decided.')

KINDS = ['point', 'multipoint', 'line', 'ring', 'multiline', 'polygon', 'multipolygon']
G = 'spatialpandas.geometry.'


def _returns_class(P, f):
    for s in walk_own(f.node):
        if isinstance(s, ast.Return) and isinstance(s.value, ast.Name):
            r = P.resolve_expr_static(f.mod, s.value)
            if r and r[0] == 'class':
                return r[1]
    return None


def run(P, R, tier):
    names = {}
    for k in KINDS:
        mod = P.mods.get(G + k)
        if mod is None:
            raise AnalysisError(f'C11.a: module for kind {k} not found')
        classes = {n: v[1] for n, v in mod.globals.items() if v[0] == 'class' and v[1].mod is mod}
        dt = [c for n, c in classes.items() if n.endswith('Dtype')]
        ar = [c for n, c in classes.items() if n.endswith('Array')]
        sc = [c for n, c in classes.items() if not n.endswith('Dtype') and not n.endswith('Array')]
        if len(dt) != 1 or len(ar) != 1 or len(sc) != 1:
            R.abstain('C11.a', (mod.path, k), None, f'kind {k}: expected exactly one Dtype/Array/scalar class, found {len(dt)}/{len(ar)}/{len(sc)}')
            continue
        dt, ar, sc = dt[0], ar[0], sc[0]
        site = (mod.path, k)
        # registered with pandas
        reg = any((P.resolve_expr_static(mod, d) or ('', ''))[1].endswith('register_extension_dtype') for d in dt.decorators if isinstance(d, (ast.Name, ast.Attribute)))
        R.check(reg, 'C11.a', site, None, f'{dt.name} is registered as a pandas extension dtype', f'{dt.name} is not registered with pandas: the column cannot be rebuilt from its dtype name',
                construct=f'@register_extension_dtype {dt.name}')
        gn = dt.members.get('_geometry_name')
        gname = astq.const_str(gn[1]) if gn and gn[0] == 'assign' else None
        R.check(gname is not None and gname not in names, 'C11.a', site, gn[1] if gn else None, f'{dt.name}._geometry_name = {gname!r} is unique',
                f'{dt.name}._geometry_name = {gname!r} clashes with {names.get(gname)}: two kinds share one dtype string')
        names[gname] = dt.name
        c1 = P.lookup(dt, 'construct_array_type')[1]
        r1 = _returns_class(P, c1[1]) if c1 and c1[0] == 'func' else None
        R.check(r1 is ar, 'C11.a', site, None, f'{dt.name}.construct_array_type() -> {ar.name}', f'{dt.name}.construct_array_type() returns {r1.name if r1 else None}, not {ar.name}',
                construct=f'{dt.name}.construct_array_type')
        c2 = ar.members.get('_dtype_class')
        r2 = _returns_class(P, c2[1]) if c2 and c2[0] == 'func' else None
        R.check(r2 is dt, 'C11.a', site, None, f'{ar.name}._dtype_class -> {dt.name}', f'{ar.name}._dtype_class returns {r2.name if r2 else None}, not {dt.name}', construct=f'{ar.name}._dtype_class')
        et = ar.members.get('_element_type')
        r3 = P.resolve_expr_static(mod, et[1]) if et and et[0] == 'assign' else None
        R.check(bool(r3) and r3[0] == 'class' and r3[1] is sc, 'C11.a', site, et[1] if et else None, f'{ar.name}._element_type = {sc.name}',
                f'{ar.name}._element_type is {r3[1].name if r3 and r3[0] == "class" else None}, not {sc.name}')
        c4 = sc.members.get('construct_array_type')
        r4 = _returns_class(P, c4[1]) if c4 and c4[0] == 'func' else None
        R.check(r4 is ar, 'C11.a', site, None, f'{sc.name}.construct_array_type() -> {ar.name}', f'{sc.name}.construct_array_type() returns {r4.name if r4 else None}, not {ar.name}',
                construct=f'{sc.name}.construct_array_type')
        # nesting levels
        la = P.lookup(ar, '_nesting_levels')[1]
        ls = P.lookup(sc, '_nesting_levels')[1]
        if la and ls and la[0] == 'assign' and ls[0] == 'assign' and isinstance(la[1], ast.Constant) and isinstance(ls[1], ast.Constant):
            R.check(la[1].value == ls[1].value + 1, 'C11.a', site, None, f'nesting levels: {sc.name}={ls[1].value}, {ar.name}={la[1].value}',
                    f'nesting levels {sc.name}={ls[1].value}, {ar.name}={la[1].value} are not scalar = array - 1', construct=f'{k} nesting levels')
        # dask non-empty example
        regd = None
        for n in ast.walk(mod.tree):
            if isinstance(n, ast.Call) and isinstance(n.func, ast.Call) and isinstance(n.func.func, ast.Attribute) and n.func.func.attr == 'register' \
                    and 'make_array_nonempty' in norm(n.func.func.value):
                regd = n
        if regd is None:
            R.bad('C11.a', site, None, f'no Dask non-empty example is registered for {dt.name}', construct=f'make_array_nonempty.register({dt.name})')
        else:
            d0 = P.resolve_expr_static(mod, regd.func.args[0]) if regd.func.args else None
            fn = P.resolve_expr_static(mod, regd.args[0]) if regd.args else None
            okd = bool(d0) and d0[0] == 'class' and d0[1] is dt and bool(fn) and fn[0] == 'func'
            built = None
            passes_dtype = False
            if okd:
                g = fn[1]
                for s in walk_own(g.node):
                    if isinstance(s, ast.Return) and isinstance(s.value, ast.Call):
                        rr = P.resolve_expr_static(mod, s.value.func)
                        built = rr[1] if rr and rr[0] == 'class' else None
                        dv = astq.arg_of(s.value, kw='dtype')
                        passes_dtype = dv is not None and g.params and norm(dv) == g.params[0]
            R.check(okd and built is ar, 'C11.a', site, regd, f'the Dask example registered for {dt.name} is a {ar.name}',
                    f'the Dask example registered for {norm(regd.func.args[0]) if regd.func.args else None} builds {built.name if built else None}')
            R.check(passes_dtype, 'C11.a', site, regd, f'the Dask example of {ar.name} is built with the requested dtype (coordinate subtype)',
                    f'the Dask example of {ar.name} ignores the requested dtype: Dask infers the write schema from it and non-float64 columns come back as float64')
    R.floor('C11.a', 'geometry kinds closed', len(names), 7)

    # ---------------------------------------------------------------- C11.b
    ga = P.cls(G + 'base.GeometryArray')
    gd = P.cls(G + 'base.GeometryDtype')
    aa = ga.members.get('__arrow_array__')
    ok = aa is not None and any(isinstance(s, ast.Return) and norm(s.value) == 'self.data' for s in walk_own(aa[1].node))
    R.check(ok, 'C11.b', aa[1] if aa else (ga.mod.path, 'GeometryArray'), None, '__arrow_array__ returns the backing arrow array', '__arrow_array__ does not return self.data', construct='__arrow_array__')
    fa = gd.members.get('__from_arrow__')
    ok = fa is not None and any(isinstance(s, ast.Return) and norm(s.value) == f'self.construct_array_type()({fa[1].params[1]}, dtype=self)' for s in walk_own(fa[1].node))
    R.check(ok, 'C11.b', fa[1] if fa else (gd.mod.path, 'GeometryDtype'), None, '__from_arrow__ rebuilds the registered array type with dtype=self', '__from_arrow__ does not rebuild construct_array_type()(data, dtype=self)',
            construct='__from_arrow__')
    init = ga.members['__init__'][1]
    src = norm(init.node)
    ok = 'isinstance(array, pa.Array)' in src and 'isinstance(array, pa.ChunkedArray)' in src and 'pa.concat_arrays(array.chunks)' in src
    R.check(ok, 'C11.b', init, None, 'GeometryArray accepts pa.Array as is and concatenates the chunks of a pa.ChunkedArray', 'GeometryArray constructor lost its (Chunked)Array branch', construct='arrow input branches')
    fx = P.func(G + 'basefixed', 'GeometryFixedArray.__init__')
    ok = 'isinstance(array, (pa.Array, pa.ChunkedArray))' in norm(fx.node)
    R.check(ok, 'C11.b', fx, None, 'GeometryFixedArray accepts pa.Array / pa.ChunkedArray (with dtype)', 'GeometryFixedArray constructor lost its arrow branch', construct='arrow input branch (fixed)')

    # ---------------------------------------------------------------- C11.c
    rp = P.func('spatialpandas.io.parquet', 'read_parquet')
    blk = [s for s in astq.own_nodes(rp, ast.If) if norm(s.test) == 'columns is not None']
    ok = False
    guard = False
    if blk:
        for s in ast.walk(blk[0]):
            if isinstance(s, ast.Assign) and norm(s.targets[0]) == 'columns' and isinstance(s.value, ast.BinOp) and isinstance(s.value.op, ast.Add):
                ok = 'list(columns)' in norm(s.value.right) or norm(s.value.right) == 'columns'
                extra = s.value.left
                ok = ok and isinstance(extra, ast.Name)
        txt = norm(blk[0])
        guard = 'not in columns' in txt and 'index_columns' in txt
    R.check(ok, 'C11.c', rp, blk[0].test if blk else None, 'index columns are prepended to a column projection', 'index columns are not prepended to columns=: the index is lost on projection')
    R.check(guard, 'C11.c', rp, blk[0].test if blk else None, 'an index column that is already requested is not added twice', 'an index column listed in columns= is requested twice (the read then fails)')
    okr = any(isinstance(c.func, ast.Attribute) and c.func.attr == 'read' and astq.arg_of(c, kw='columns') is not None and norm(astq.arg_of(c, kw='columns')) == 'columns' for c in astq.own_calls(rp))
    # (seed S12: pandas metadata lists index columns by FIELD name -- '__index_level_0__' for an unnamed index, whose column entry has name None; dask writes an
    # unnamed index under the name '__null_dask_index__')
    R.assume('S12: pandas parquet metadata: index_columns holds field names; columns[i] has name (None for an unnamed index) and field_name; dask names an unnamed index __null_dask_index__')
    known = [c for c in walk_own(rp.node) if isinstance(c, (ast.SetComp, ast.ListComp, ast.GeneratorExp)) and "'columns'" in norm(c.generators[0].iter)]
    okf = bool(known) and all('field_name' in norm(c.elt) for c in known)
    R.check(okf, 'C11.c', rp, known[0] if known else None, 'index columns are matched against the stored FIELD names (an unnamed index is stored as __index_level_0__)',
            'the stored columns are collected by `name`: the entry of an unnamed index has name None, so its field is never added to the projection and read_parquet(columns=...) '
            'returns a fresh RangeIndex instead of the stored index', construct='index columns matched by field name')
    nulls = [c for c in walk_own(rp.node) if isinstance(c, ast.Compare) and any(astq.const_str(x) == '__null_dask_index__' for x in [c.left] + list(c.comparators))]
    fixes = [a for a in walk_own(rp.node) if isinstance(a, ast.Assign) and isinstance(a.targets[0], ast.Attribute) and a.targets[0].attr == 'name' and 'index' in norm(a.targets[0].value)
             and norm(a.value) == 'None'] + [c for c in astq.own_calls(rp) if isinstance(c.func, ast.Attribute) and c.func.attr in ('rename_axis', 'rename') and 'None' in norm(c)]
    R.check(bool(nulls) and bool(fixes), 'C11.c', rp, nulls[0] if nulls else None, 'the name dask gives to an unnamed index (__null_dask_index__) is turned back into "no name"',
            'read_parquet takes the stored index name literally: a frame written by dask with an unnamed index comes back with its index named __null_dask_index__',
            construct='dask null index name')
    R.check(okr, 'C11.c', rp, None, 'the projection (with index columns) is what is read', 'dataset.read does not receive the projection', construct='dataset.read(columns=columns)', nontrivial=False)

    # ---------------------------------------------------------------- C11.d
    pr = P.func('spatialpandas.io.parquet', '_perform_read_parquet_dask')
    okd = False
    for lp in astq.own_nodes(pr, ast.For):
        if isinstance(lp.iter, ast.Name):
            srt = [c for c in ast.walk(lp) if isinstance(c, ast.Call) and isinstance(c.func, ast.Name) and c.func.id == 'sorted' and 'natural_sort_key' in norm(c)]
            ext = [c for c in ast.walk(lp) if isinstance(c, ast.Call) and isinstance(c.func, ast.Attribute) and c.func.attr == 'extend']
            if srt and ext:
                okd = True
    R.check(okd, 'C11.d', pr, None, 'pieces are natural-sorted inside each dataset and appended dataset by dataset (datasets keep the order given)',
            'pieces are not sorted per dataset with the natural key: several datasets read through a list are interleaved / part.10 precedes part.2', construct='per-dataset natural sort')
    # C11.e: which files make up a dataset directory is decided by listing the directory, never by names recorded inside a file
    # (recorded names go stale when parts are renumbered or the dataset is moved; then the read fails or silently skips files)
    def reads_content(c, g):
        if astq.fs_call(c, {'open', 'cat', 'cat_file', 'read_bytes'}):
            return True
        r_ = P.resolve_call(g, c)
        return bool(r_ and r_[0] == 'ext' and r_[1].split('.')[-1] in ('read_metadata', 'read_table', 'ParquetFile', 'read_schema'))
    nds = 0
    for c in astq.own_calls(pr):
        if norm(c.func).split('.')[-1] == 'ParquetDataset' and c.args and isinstance(c.args[0], ast.Name):
            nds += 1
            nm = c.args[0].id
            stale = []
            for d in astq.assignments(pr, nm):
                if d[0] != 'expr':
                    continue
                for cc in [x for x in ast.walk(d[1]) if isinstance(x, ast.Call)]:
                    r = P.resolve_call(pr, cc)
                    if r and r[0] == 'func' and astq.performs(P, r[1], reads_content, depth=3):
                        stale.append(cc)
            R.check(not stale, 'C11.e', pr, stale[0] if stale else c, 'the data files of a dataset directory are found by listing it',
                    f'`{norm(stale[0]) if stale else ""}` supplies the files to read from names recorded inside a file: after the parts were renumbered (compaction of empty partitions) '
                    'or the dataset was moved, recorded names no longer exist', construct='dataset files come from the directory listing')
    R.floor('C11.e', 'ParquetDataset constructions in the Dask reader', nds, 1)
    # C11.f: parsing a dtype string gives an instance of the class that was asked (`cls(...)`): a lazily created class-level table
    # (`if cls.T is None: cls.T = {}` ... `return cls.T[key]`) is found through inheritance by every subclass once a base class created it
    # (RingDtype derives from LineDtype), so 'ring[int64]' is answered with the cached LineDtype
    gdt = P.cls(G + 'base.GeometryDtype')
    ncfs = 0
    for ci_ in [gdt] + [c_ for c_ in P.classes.values() if c_.mro and gdt in c_.mro and c_ is not gdt]:
        mem_ = ci_.members.get('construct_from_string')
        if mem_ is None or mem_[0] != 'func':
            continue
        cf = mem_[1]
        ncfs += 1
        clsp = cf.params[0] if cf.params else 'cls'
        lazy = {t.attr for s_ in walk_own(cf.node) if isinstance(s_, ast.Assign) for t in s_.targets
                if isinstance(t, ast.Attribute) and isinstance(t.value, ast.Name) and t.value.id == clsp}
        for ret in [s_ for s_ in walk_own(cf.node) if isinstance(s_, ast.Return) and s_.value is not None]:
            e_ = astq.expand(cf, ret.value)
            shared = [x for x in ast.walk(e_) if isinstance(x, ast.Attribute) and isinstance(x.value, ast.Name) and x.value.id == clsp and x.attr in lazy]
            keyed = any(isinstance(x, ast.Subscript) and any(isinstance(k_, ast.Name) and k_.id == clsp for k_ in ([x.slice] + (list(x.slice.elts) if isinstance(x.slice, ast.Tuple) else [])))
                        for x in ast.walk(ret.value))
            R.check(not shared or keyed, 'C11.f', cf, ret, 'a parsed dtype is built by the class that was asked (or taken from a table keyed by that class)',
                    f'`{norm(ret)}` answers from the class-level table `{clsp}.{shared[0].attr if shared else ""}`, created lazily on whichever class parses first: subclasses find their base class\'s table '
                    '(RingDtype -> LineDtype), so a ring column comes back as a line column', construct=f'{cf.qualname}: per-class result')
    R.floor('C11.f', 'construct_from_string implementations', ncfs, 1)
    # C11.g: GeoSeries(series_like) keeps the labels of its input: either the explicit index= still carries them, or the data handed to pandas is still
    # the Series-like object.  Dropping a RangeIndex "because pandas recreates it" is only right for RangeIndex(0, n, 1), and only harmless while
    # to_geometry_array passes Series-like geometry data through untouched.
    gsi = P.func('spatialpandas.geoseries', 'GeoSeries.__init__')
    tga = P.func(G + 'base', 'to_geometry_array')
    ip_ = gsi.params[2] if len(gsi.params) > 2 else 'index'
    drops = []
    for s_ in walk_own(gsi.node):
        if isinstance(s_, ast.Assign) and any(isinstance(t, ast.Name) and t.id == ip_ for t in s_.targets) and norm(s_.value) == 'None':
            g_ = s_
            guard = None
            while getattr(g_, '_parent', None) is not None and g_._parent is not gsi.node:
                g_ = g_._parent
                if isinstance(g_, ast.If) and guard is None:
                    guard = g_.test
            gt_ = norm(guard) if guard is not None else ''
            if not ('.start == 0' in gt_ and '.step == 1' in gt_):
                drops.append((s_, gt_))
    unwraps = []
    for s_ in walk_own(tga.node):
        if isinstance(s_, ast.If) and 'is_geometry_array(' in norm(s_.test) and not norm(s_.test).startswith('not '):
            for b0_ in s_.body:
                for b_ in ast.walk(b0_):
                    if isinstance(b_, ast.Assign) and any(isinstance(t, ast.Name) and t.id == tga.params[0] for t in b_.targets):
                        unwraps.append(b_)
    # ... and the labels are read from the input BEFORE the input is replaced by its array
    import cfg as _cfg
    Cg = _cfg.build(gsi.node)
    dp_ = gsi.params[1] if len(gsi.params) > 1 else 'data'
    reads = [s_ for s_ in walk_own(gsi.node) if isinstance(s_, ast.Assign) and any(isinstance(t, ast.Name) and t.id == ip_ for t in s_.targets)
             and any((isinstance(x, ast.Call) and norm(x.func) == 'getattr' and len(x.args) >= 2 and norm(x.args[0]) == dp_ and astq.const_str(x.args[1]) == 'index')
                     or (isinstance(x, ast.Attribute) and x.attr == 'index' and norm(x.value) == dp_) for x in ast.walk(s_.value))]
    convs = [s_ for s_ in walk_own(gsi.node) if isinstance(s_, ast.Assign) and any(isinstance(t, ast.Name) and t.id == dp_ for t in s_.targets)
             and any(isinstance(x, ast.Call) and astq.is_call_to(P, gsi, x, tga) for x in ast.walk(s_.value))]
    late = [(r_, c_) for r_ in reads for c_ in convs if Cg.node(c_) is not None and Cg.node(r_) is not None and Cg.can_reach(Cg.node(c_), Cg.node(r_))]
    if late and unwraps:
        R.bad('C11.g', gsi, late[0][0], f'`{norm(late[0][0])}` reads the labels from `{dp_}` after `{norm(late[0][1])[:60]}` replaced it, and to_geometry_array unwraps Series-like geometry data '
              f'(`{norm(unwraps[0])}`): the labels of the input are gone, the series gets 0..n-1 and GeoDataFrame.__init__ re-aligns the column by label - geometries move to other rows',
              construct='GeoSeries reads the labels before converting the data')
    elif reads:
        R.ok('C11.g', gsi, reads[0], 'the labels of a Series-like input are read before the data is converted (or the conversion keeps Series-like data)', construct='GeoSeries reads the labels before converting the data')
    if drops and unwraps:
        R.bad('C11.g', gsi, drops[0][0], f'GeoSeries drops the input\'s index under `{drops[0][1]}` (any RangeIndex, also a sliced one such as 3..n) while to_geometry_array unwraps Series-like '
              f'geometry data (`{norm(unwraps[0])}`): the labels are replaced by 0..n-1, and GeoDataFrame.__init__ (used by read_parquet) re-aligns the geometry column by label against the '
              'frame\'s real index: geometries move to other rows', construct='GeoSeries keeps the labels of a Series-like input')
    else:
        R.ok('C11.g', gsi, None, 'the labels of a Series-like input reach pandas (explicit index= kept, or the data is still Series-like)', construct='GeoSeries keeps the labels of a Series-like input')
    # C11.d (cont.): one piece per file: the delayed read takes `piece.path`, i.e. the whole file; pieces must therefore not be split into sub-fragments
    for c in astq.own_calls(pr):
        if isinstance(c.func, ast.Attribute) and c.func.attr in ('split_by_row_group', 'subset') or (isinstance(c.func, ast.Name) and c.func.id == 'getattr' and len(c.args) >= 2
                                                                                                       and astq.const_str(c.args[1]) in ('split_by_row_group', 'subset')):
        
            R.bad('C11.d', pr, c, f'`{norm(c)}`: pieces are split into row-group fragments, but every piece is read by its path (the whole file): a file with k row groups is loaded k times',
                  construct='one piece per file')
    # C11.h: the writer writes the frame it was given: `ddf` reaches dd.to_parquet unchanged (no partition selection, row filter or re-assignment on the way):
    # a partition "without bounds" still has rows (missing / empty geometries, index, other columns)
    tw = P.func('spatialpandas.io.parquet', 'to_parquet_dask')
    fparam = tw.params[0]
    rebinds = [a for a in walk_own(tw.node) if isinstance(a, (ast.Assign, ast.AugAssign)) and any(isinstance(t, ast.Name) and t.id == fparam
                                                                                                    for t in (a.targets if isinstance(a, ast.Assign) else [a.target]))]
    wcalls = [c for c in astq.own_calls(tw) if norm(c.func).split('.')[-1] in ('dd_to_parquet', 'to_parquet') and c.args]
    R.floor('C11.h', 'dask to_parquet calls in to_parquet_dask', len(wcalls), 1)
    for c in wcalls:
        a0 = c.args[0]
        ok = isinstance(a0, ast.Name) and a0.id == fparam and not rebinds
        R.check(ok, 'C11.h', tw, rebinds[0] if rebinds else c, 'the frame handed to dask\'s to_parquet is the caller\'s frame, unchanged',
                f'`{norm(rebinds[0]) if rebinds else norm(a0)}`: the frame that is written is not the caller\'s frame (partitions or rows are selected before writing): rows of the dropped '
                'partitions -- index, other columns, missing geometries -- are silently not written', construct='writer writes the given frame')
    # C11.i: the pandas writer receives the caller's `df`, `index` and `compression` as given.  Deciding `index=` from the look of the index (e.g. "a default
    # RangeIndex needs no storing") loses what the index carries besides its values: a named positional index comes back unnamed.
    wp = P.func('spatialpandas.io.parquet', 'to_parquet')
    pcalls = [c for c in astq.own_calls(wp) if norm(c.func).split('.')[-1] in ('pd_to_parquet', 'to_parquet') and (c.keywords or c.args)]
    R.floor('C11.i', 'pandas to_parquet calls in to_parquet', len(pcalls), 1)
    for c in pcalls:
        for pname in ('df', 'index', 'compression'):
            if pname not in wp.params:
                continue
            v = astq.arg_of(c, kw=pname) if pname != 'df' else (astq.arg_of(c, kw='df') or (c.args[0] if c.args else None))
            rebound = [a for a in astq.assignments(wp, pname)]
            ok = isinstance(v, ast.Name) and v.id == pname and not rebound
            R.check(ok, 'C11.i', wp, c, f'`{pname}` reaches the pandas writer as the caller gave it',
                    f'`{pname}` does not reach the pandas writer as given (' + (f'it is re-assigned in to_parquet' if rebound else f'the writer receives `{norm(v) if v is not None else None}`') +
                    '): what is stored no longer depends on the caller\'s frame and arguments alone - e.g. an index that "looks default" is not written and loses its name',
                    construct=f'to_parquet: {pname} passed through')
    # C11.j: the column ORDER of a projected read is the order of the request.  A list built by filtering some other column sequence by membership in `columns`
    # (`[c for c in meta.columns if c in columns]`) has the file's order; the per-piece reads return the requested order, so meta and partitions disagree.
    nproj = 0
    for g in P.mods['spatialpandas.io.parquet'].funcs.values():
        if 'columns' not in g.params or isinstance(g.node, ast.Lambda):
            continue
        for lc in [x for x in walk_own(g.node) if isinstance(x, ast.ListComp) and len(x.generators) == 1]:
            gen = lc.generators[0]
            if not (isinstance(lc.elt, ast.Name) and isinstance(gen.target, ast.Name) and lc.elt.id == gen.target.id):
                continue
            member = [t for t in gen.ifs if isinstance(t, ast.Compare) and len(t.ops) == 1 and isinstance(t.ops[0], ast.In) and 'columns' in astq.sources(g, t.comparators[0])
                      and isinstance(t.left, ast.Name) and t.left.id == gen.target.id]
            it_ = gen.iter
            while isinstance(it_, ast.Call) and norm(it_.func) in ('list', 'tuple', 'iter') and len(it_.args) == 1:
                it_ = it_.args[0]
            if isinstance(it_, ast.Name) and it_.id != 'columns':
                t_ = astq.trace(g, it_)
                it_ = t_ if isinstance(t_, ast.AST) else it_
                while isinstance(it_, ast.Call) and norm(it_.func) in ('list', 'tuple', 'iter') and len(it_.args) == 1:
                    it_ = it_.args[0]
            over_request = isinstance(it_, ast.Name) and it_.id == 'columns'
            if not member and not over_request:
                continue
            nproj += 1
            R.check(over_request, 'C11.j', g, lc, 'a projected column list iterates over the requested `columns` (request order)',
                    f'`{norm(lc)}` keeps the columns that are in `columns` but in the order of `{norm(gen.iter)}`: the collection\'s meta (columns, dtypes, active geometry) is in file order while '
                    'every partition comes back in the requested order', construct=f'{g.name}: projection order')
    R.floor('C11.j', 'projection lists derived from `columns`', nproj, 1)
    from rules import common as _cm
    _cm.array_token(P, R, 'C11.k')
    _cm.read_path_not_memoised(P, R, 'C11.e')
    # datasets come back in the order the caller listed them: the glob expansion (fsspec returns the SORTED SET of matches) is applied entry by entry, inside
    # the loop over the requested paths, never to the list as a whole
    rpd = P.func('spatialpandas.io.parquet', 'read_parquet_dask')
    epf = P.mods['spatialpandas.io.parquet'].funcs.get('_expand_path')
    nexp = 0
    for c_ in astq.own_calls(rpd):
        if epf is not None and astq.is_call_to(P, rpd, c_, epf) and c_.args:
            nexp += 1
            lp_ = c_
            loopvar = None
            while getattr(lp_, '_parent', None) is not None and lp_._parent is not rpd.node:
                lp_ = lp_._parent
                if isinstance(lp_, ast.For) and isinstance(lp_.target, ast.Name):
                    loopvar = lp_.target.id
                    break
            a0 = c_.args[0]
            per_entry = loopvar is not None and isinstance(a0, ast.Name) and (a0.id == loopvar or loopvar in astq.sources(rpd, a0))
            R.check(per_entry, 'C11.d', rpd, c_, 'glob patterns are expanded one requested path at a time (the datasets keep the order they were listed in)',
                    f'`{norm(c_)[:70]}` expands the whole list of paths at once: the expansion is a sorted set, so the datasets are concatenated in lexicographic order instead of the requested one '
                    '(and a path listed twice is read once)', construct='read_parquet_dask: per-entry glob expansion')
    R.floor('C11.d', 'glob expansions in read_parquet_dask', nexp, 1)
    # the projection the caller asked for reaches the per-piece reads as given (the index column is filtered for dask's meta only)
    rebound = [a for a in astq.assignments(pr, 'columns')] if 'columns' in pr.params else []
    R.check(not rebound, 'C11.c', pr, rebound[0][1] if rebound and isinstance(rebound[0][1], ast.AST) else None, 'the requested columns are not rewritten before the per-piece reads',
            '`columns` is re-assigned in _perform_read_parquet_dask: the per-piece reads receive the rewritten projection, so a data column that happens to be called like the index '
            '(hilbert_distance after reset_index) silently disappears from the frame', construct='_perform_read_parquet_dask: columns passed through')
    for c_ in astq.own_calls(pr):
        v_ = astq.arg_of(c_, kw='columns')
        if v_ is not None and isinstance(c_.func, ast.Call) and 'delayed' in norm(c_.func.func):
            R.check(isinstance(v_, ast.Name) and v_.id == 'columns', 'C11.c', pr, c_, 'every per-piece read receives the caller\'s `columns`',
                    f'the per-piece reads receive `columns={norm(v_)}` instead of the caller\'s projection', construct='per-piece columns')
    # every path the caller's glob matches is read, except metadata files: the filter of the glob expansion may only EXCLUDE names (the `_metadata` family); a
    # filter that keeps a list of known extensions drops datasets and files that are named differently (`tiles_2020`, `data.pq`), silently
    ep = P.mods['spatialpandas.io.parquet'].funcs.get('_expand_path')
    nflt = 0
    if ep is not None:
        for lc in [x for x in walk_own(ep.node) if isinstance(x, (ast.ListComp, ast.GeneratorExp)) and len(x.generators) == 1 and x.generators[0].ifs]:
            for t_ in lc.generators[0].ifs:
                nflt += 1
                neg = (isinstance(t_, ast.Compare) and len(t_.ops) == 1 and isinstance(t_.ops[0], (ast.NotIn, ast.NotEq))) or (isinstance(t_, ast.UnaryOp) and isinstance(t_.op, ast.Not))
                about_meta = '_metadata' in norm(astq.expand(ep, t_)) or any('_metadata' in (astq.const_str(v_) or '') for nm_ in astq.names_in(t_)
                                                                            for r_ in [P.resolve_global(ep.mod, nm_)] if r_ and r_[0] == 'assign'
                                                                            for v_ in ast.walk(r_[2]) if isinstance(v_, ast.Constant))
                R.check(neg and about_meta, 'C11.e', ep, t_, 'the glob expansion only excludes metadata files',
                        f'`{norm(t_)[:80]}` keeps the matches that look like data files instead of excluding the metadata files: datasets and files the caller\'s glob matched under any other '
                        'name are dropped without a word', construct='_expand_path filter excludes only')
        R.floor('C11.e', 'filters of the glob expansion', nflt, 1)
    _cm.task_names(P, R, 'C11.d', [pr] + list(pr.nested.values()), 'partitions of one dataset are filled with the rows of another')
    # no global re-sort of the combined list afterwards
    plist = None
    for lp in astq.own_nodes(pr, ast.For):
        for c in ast.walk(lp):
            if isinstance(c, ast.Call) and isinstance(c.func, ast.Attribute) and c.func.attr == 'extend' and isinstance(c.func.value, ast.Name) and 'sorted' in norm(lp) :
                plist = c.func.value.id
    glob = [c for c in astq.own_calls(pr) if isinstance(c.func, ast.Name) and c.func.id == 'sorted' and c.args and norm(c.args[0]) == plist]
    glob += [c for c in astq.own_calls(pr) if isinstance(c.func, ast.Attribute) and c.func.attr == 'sort' and norm(c.func.value) == plist]
    R.check(not glob, 'C11.d', pr, glob[0] if glob else None, 'the combined piece list is not re-sorted across datasets', 'the combined piece list is re-sorted across datasets: datasets no longer come back in the order given')
