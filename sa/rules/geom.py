"""Shared driver for the units/levels abstract interpretation (E-UNITS) over the seven geometry kinds."""
import ast

import units
from units import Interp, Tup, Rows, Q, Arr, FreshSlot, Off, OffC, Vals, Const, Sel, TOP, Top, make_array, make_scalar, box
from model import full as norm

G = 'spatialpandas.geometry.'
ARRAYS = [('multipoint', 'MultiPointArray', 1), ('line', 'LineArray', 1), ('ring', 'RingArray', 1), ('multiline', 'MultiLineArray', 2),
          ('polygon', 'PolygonArray', 2), ('multipolygon', 'MultiPolygonArray', 3)]
SCALARS = [('multipoint', 'MultiPoint', 0), ('line', 'Line', 0), ('ring', 'Ring', 0), ('multiline', 'MultiLine', 1),
           ('polygon', 'Polygon', 1), ('multipolygon', 'MultiPolygon', 2)]
KIND_RULE = {'axis': 'axis', 'level': 'level', 'base': 'base', 'parity': 'parity', 'layout': 'layout', 'role': 'role', 'dim': 'dim', 'range': 'range', 'fencepost': 'fencepost'}


def array(P, mod, cls, L):
    return make_array(P, f'{G}{mod}.{cls}', L)


def point_array(P):
    return make_array(P, G + 'point.PointArray', 0, fixed=True)


def scalar(P, mod, cls, L):
    return make_scalar(P, f'{G}{mod}.{cls}', L)


def get(I, obj, attr, label):
    I.stack = [label]
    I.fstack = []
    return I.getattr(obj, attr, None, None)


def call(I, obj, meth, args, label, kwargs=None):
    I.stack = [label]
    I.fstack = []
    f = I.getattr(obj, meth, None, None)
    if not isinstance(f, units.Func):
        return TOP
    return I.call_func(f, args, kwargs or {})


def unslot(v):
    if isinstance(v, FreshSlot):
        return v._bound
    return v


def flush(R, rule, I, seen, entry):
    """Turn the interpreter's new reports into violated obligations (one per root construct); returns how many."""
    n = 0
    for r in I.R.items:
        k = id(r)
        if k in seen:
            continue
        seen.add(k)
        n += 1
        fi = r['fi']
        R.bad(f'{rule}', fi if fi is not None else entry, r['node'], f"{r['kind']} mismatch: {r['msg']}  [reached from {entry}; call path: {r['stack']}]",
              construct=f"{r['kind']}: {norm(r['node'])[:140]}")
    return n


def stats(R, I):
    st = I.R.stats
    R.count('typed_ops', st['cmp'] + st['sub'] + st['arith'] + st['minmax'])
    R.count('abstract_calls', st['calls'])
    R.count('functions_typed', len(I.typed_funcs))


def check_box_layout(R, rule, where, label, v, rows=False):
    """(X.lb, Y.lb, X.ub, Y.ub) expected."""
    items = None
    if rows and isinstance(v, Rows):
        items = [unslot(x) for x in v.layout.items]
    elif isinstance(v, Tup):
        items = [unslot(x) for x in v.items]
    if items is None or len(items) != 4 or not all(isinstance(x, Q) for x in items):
        R.abstain(rule, where, None, f'{label}: result could not be typed as a 4-slot row ({v!r:.80})', construct=f'{label} layout')
        return
    got = [(list(x.dim)[0] if len(x.dim) == 1 else str(x.dim), x.role) for x in items]
    want = [('X', 'lb'), ('Y', 'lb'), ('X', 'ub'), ('Y', 'ub')]
    R.check(got == want, rule, where, None, f'{label} is laid out (min x, min y, max x, max y)',
            f'{label} is laid out {got} instead of (X.lb, Y.lb, X.ub, Y.ub)', construct=f'{label} layout', inferred=[f'{a}.{r}' for a, r in got])
