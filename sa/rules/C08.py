"""C08 — a geometry's Hilbert distance is the curve position of its bbox centre.

 C08.a  the total_bounds argument is not modified and any sequence type is accepted: no store into the parameter (or a view of it)
        in hilbert_distance and its callees (effect analysis; `np.asarray` of an ndarray is a view, `list(...)` a copy).
 C08.b  row independence: between the per-row bounds and the result there is no axis-0 reduction, sort, cumulative or shifted
        operation on row-derived values — only element-wise arithmetic with (total_bounds, p).
 C08.c  units: the centre of dimension d is (lb_d + ub_d)/2 of the same d and is scaled with the range (total.lb_d, total.ub_d) of
        the same d; the zero-extent widening is an exact-equality test on lb/ub of the same axis, for both axes, widening the upper end.
 C08.d  clamp: both clips (<0 -> 0, >n-1 -> n-1) dominate the return of the scaling helper, and the truncation is to a 64-bit integer.
 C08.k  bit interleave (small-scope): every bit of both grid coordinates reaches the distance, p up to 31.
 C08.e  delegation: GeoSeries.hilbert_distance passes total_bounds and p through and keeps the index.
Does not decide: the curve itself (C07), floating-point scaling exactness.
"""
import ast
import re

import astq
import cfg as cfgmod
from effects import effects, base_name
from model import walk_own, AnalysisError, full as norm
from rules import common

EXPLANATION = (
    'Static analysis of GeometryArray.hilbert_distance, _distances_from_bounds and _data2coord: effect analysis (no store into the caller\'s '
    'total_bounds), a taint rule forbidding cross-row operations on bounds-derived values, index-pattern checks that centre/range/column use the '
    'same dimension and that the degenerate-extent widening is an exact equality test per axis, and CFG dominance of both clips over the return. '
    'Arithmetic exactness and the curve are not decided.')

REDUCERS = {'min', 'max', 'sum', 'mean', 'median', 'std', 'var', 'argsort', 'sort', 'cumsum', 'cumprod', 'unique', 'argmin', 'argmax', 'nanmin', 'nanmax', 'nansum',
            'nanmean', 'roll', 'diff', 'ptp', 'percentile', 'quantile', 'searchsorted', 'any', 'all', 'prod', 'amin', 'amax', 'rank', 'flip', 'shuffle', 'permutation'}


def _is_half(f, name):
    """`name` is the number of dimensions: <rows>.shape[1] // 2."""
    g, d = astq.unique_def(f, name)
    return isinstance(d, ast.AST) and norm(d).endswith('.shape[1] // 2')


def data2coord_small_scope(P, R, d2c):
    """C08.d (exhaustive within the scope): the scaling helper is interpreted by E-VEC on vectors over {NaN, below, lower end, interior points, upper end, above}
    for ranges (0,4), (-4,4), (-8,-2) and grids of 1, 2, 4, 8 cells: a finite value lands in cell trunc((v - lo) * n / width) clamped to [0, n-1], and a NaN
    (the centre of a missing or empty element) lands in cell 0 - whatever the helper is written like."""
    import veceval
    R.assume('S13: converting NaN / +-inf to int64 gives the most negative integer (numpy on the supported platforms)')
    nan = float('nan')
    bad, total, undec = [], 0, None
    for lo, hi in ((0.0, 4.0), (-4.0, 4.0), (-8.0, -2.0)):
        w = hi - lo
        vals = [nan, lo - 1.0, lo, lo + w / 8, lo + w / 4, lo + w / 2, lo + 3 * w / 4, hi - w / 16, hi, hi + 1.0, 0.0]
        for n in (1, 2, 4, 8):
            total += 1
            env = dict(zip(d2c.params, (list(vals), (lo, hi), n)))
            ev = veceval.VecEval(P, d2c, env, len(vals))
            try:
                ev.block(d2c.node.body)
                got = None
            except veceval.Returned as r_:
                got = r_.value
            except veceval.Unsupported as e_:
                undec = str(e_)
                break
            except (IndexError, TypeError, ValueError, ZeroDivisionError, OverflowError) as e_:
                got = f'error {type(e_).__name__}'
            want = []
            for v in vals:
                if v != v:
                    want.append(0)
                else:
                    want.append(min(max(int((v - lo) * (n / w)), 0), n - 1))
            if not (isinstance(got, list) and [int(x) if isinstance(x, (int, float)) and x == x else x for x in got] == want):
                bad.append({'range': (lo, hi), 'cells': n, 'values': [None if v != v else v for v in vals], 'cells returned': got if not isinstance(got, list) else [x for x in got], 'wanted': want})
        if undec:
            break
    if undec:
        R.abstain('C08.d', d2c, None, f'the scaling helper uses a construct the small-scope evaluator does not model ({undec})', construct='_data2coord small-scope')
        return False
    R.count('typed_ops', total)
    R.exhaustive_sites['C08.d _data2coord: 11 values x 3 ranges x grids of 1, 2, 4, 8 cells'] = True
    R.check(not bad, 'C08.d', d2c, None, f'values are scaled, truncated and clamped to the grid; NaN (missing / empty elements) lands in cell 0 ({total} range x grid combinations)',
            f'the scaling helper differs from scale-truncate-clamp on {len(bad)} of {total} combinations, e.g. {bad[:1]}', construct='_data2coord small-scope', counterexamples=bad[:4])
    return True


def centres_small_scope(P, R, dfb):
    """C08.c (exhaustive within the scope): `_distances_from_bounds` is interpreted by E-VEC with the scaling helper and the curve kernel replaced by recorders: for
    boxes inside, straddling and outside the extent (and a NaN box) the value scaled in dimension d is exactly (lb_d + ub_d) / 2 of that row, scaled against
    (total.lb_d, total.ub_d) - widened by one when that range is empty - with 2**p cells, and the columns reach the curve kernel in dimension order."""
    import veceval
    nan = float('nan')
    rows = [[1.0, 1.0, 3.0, 3.0], [-2.0, 1.0, 2.0, 3.0], [3.0, 3.0, 9.0, 9.0], [5.0, -5.0, 6.0, -1.0], [nan, nan, nan, nan], [0.0, 4.0, 0.0, 4.0]]
    bad, total, undec = [], 0, None
    for tb in ((0.0, 0.0, 4.0, 4.0), (-8.0, 2.0, 8.0, 2.0), (1.0, 1.0, 1.0, 1.0)):
        for p_ in (1, 3):
            total += 1
            calls = []

            def d2c(vals, rng, n_, calls=calls):
                calls.append((list(vals), tuple(rng), n_))
                return [len(calls) * 100 + k for k in range(len(vals))]
            got_coords = []

            def curve(pp, coords, got_coords=got_coords):
                got_coords.append((pp, [list(r) for r in coords]))
                return [0] * len(coords)
            names = {}
            for c in astq.own_calls(dfb):
                r = P.resolve_call(dfb, c)
                if r and r[0] == 'func' and isinstance(c.func, ast.Name):
                    if r[1].name == '_data2coord':
                        names[c.func.id] = d2c
                    elif r[1].mod.name.endswith('hilbert_curve'):
                        names[c.func.id] = curve
            env = dict(zip(dfb.params, ([list(r) for r in rows], tb, p_)))
            env.update(names)
            ev = veceval.VecEval(P, dfb, env, len(rows))
            ev.ncols = 4
            try:
                ev.block(dfb.node.body)
            except veceval.Returned:
                pass
            except veceval.Unsupported as e_:
                undec = str(e_)
                break
            except (IndexError, TypeError, ValueError, ZeroDivisionError) as e_:
                bad.append({'total_bounds': tb, 'p': p_, 'error': f'{type(e_).__name__}: {e_}'})
                continue
            want = []
            for d in (0, 1):
                lo, hi = tb[d], tb[d + 2]
                if lo == hi:
                    hi = hi + 1
                want.append(([(r[d] + r[d + 2]) / 2.0 for r in rows], (lo, hi), 2 ** p_))

            def same(a, b):
                return len(a) == len(b) and all((x != x and y != y) or x == y for x, y in zip(a, b))
            ok = len(calls) == 2 and all(same(c[0], w[0]) and tuple(c[1]) == w[1] and c[2] == w[2] for c, w in zip(calls, want))
            ok = ok and len(got_coords) == 1 and got_coords[0][0] == p_ and all(row == [100 + k, 200 + k] for k, row in enumerate(got_coords[0][1]))
            if not ok:
                bad.append({'total_bounds': tb, 'p': p_, 'scaled': [(c[0], c[1], c[2]) for c in calls][:2], 'wanted': want})
        if undec:
            break
    if undec:
        R.abstain('C08.c', dfb, None, f'_distances_from_bounds uses a construct the small-scope evaluator does not model ({undec})', construct='box centres small-scope')
        return False
    R.count('typed_ops', total)
    R.exhaustive_sites['C08.c box centres: 6 boxes (inside / straddling / outside the extent, NaN, a point) x 3 extents (one empty on an axis, one a point) x p in {1, 3}'] = True
    R.check(not bad, 'C08.c', dfb, None, f'the value located on the grid is the centre (lb + ub) / 2 of the element\'s own box, per dimension, against the range of that dimension ({total} extents)',
            f'the value handed to the scaling helper is not the centre of the element\'s box on {len(bad)} of {total} extents, e.g. {bad[:1]}', construct='box centres small-scope', counterexamples=bad[:3])
    return True


def interleave_small_scope(P, R):
    """C08.k (exhaustive within the scope): the step that turns the per-dimension grid coordinates into ONE integer interleaves all p bits of every coordinate:
    bit b of coordinate j lands at position n*b + (n-1-j).  Interpreted by E-VEC for n = 2, p in {1, 2, 3, 8, 15, 16, 17, 20, 24, 31}: every one-hot coordinate
    pair, all-ones and a mixed pattern.  A bit that is dropped or misplaced (a narrower fast path, masks sized for 16 bits) makes distances collide or
    leave the curve order for large p only.  Decides bit positions, not the geometry of the curve (C07)."""
    import veceval
    f = P.mods['spatialpandas.spatialindex.hilbert_curve'].funcs.get('_transpose_to_hilbert_integer')
    if f is None or len(f.params) != 2:
        R.abstain('C08.k', ('spatialpandas/spatialindex/hilbert_curve.py', '_transpose_to_hilbert_integer'), None, 'the transpose-to-integer step is not a function (p, coord) of the curve module')
        return
    bad, total, undec = [], 0, None
    n = 2
    for p_ in (1, 2, 3, 8, 15, 16, 17, 20, 24, 31):
        pats = [[0, 0], [2 ** p_ - 1, 2 ** p_ - 1], [2 ** p_ - 1, 0], [0, 2 ** p_ - 1]]
        for b in range(p_):
            pats += [[1 << b, 0], [0, 1 << b], [1 << b, 1 << (p_ - 1 - b)]]
        mixed = sum(1 << b for b in range(0, p_, 2))
        pats.append([mixed, (2 ** p_ - 1) ^ mixed])
        for co in pats:
            total += 1
            ev = veceval.VecEval(P, f, {f.params[0]: p_, f.params[1]: veceval.PyList(co)}, 0)
            try:
                ev.block(f.node.body)
                got = None
            except veceval.Returned as r_:
                got = r_.value
            except veceval.Unsupported as e_:
                undec = str(e_)
                break
            except (IndexError, TypeError, ValueError, ZeroDivisionError, OverflowError) as e_:
                got = f'error {type(e_).__name__}'
            want = 0
            for j, v in enumerate(co):
                for b in range(p_):
                    if (v >> b) & 1:
                        want |= 1 << (n * b + (n - 1 - j))
            if got != want:
                bad.append({'p': p_, 'coordinates': [hex(x) for x in co], 'integer returned': hex(got) if isinstance(got, int) else str(got), 'wanted': hex(want)})
        if undec:
            break
    if undec:
        R.abstain('C08.k', f, None, f'the transpose-to-integer step uses a construct the small-scope evaluator does not model ({undec})', construct='bit interleave small-scope')
        return
    R.count('typed_ops', total)
    R.exhaustive_sites['C08.k bit interleave: n = 2, p in {1,2,3,8,15,16,17,20,24,31}, one-hot / all-ones / alternating coordinates'] = True
    R.check(not bad, 'C08.k', f, None, f'all p bits of both coordinates are interleaved into the distance, for p up to 31 ({total} coordinate pairs)',
            f'the distance does not carry every bit of the coordinates on {len(bad)} of {total} coordinate pairs, e.g. {bad[:2]}: for such p, different cells share a distance / '
            'the order along the curve is lost', construct='bit interleave small-scope', counterexamples=bad[:4])


def run(P, R, tier):
    hd = P.func('spatialpandas.geometry.base', 'GeometryArray.hilbert_distance')
    dfb = P.func('spatialpandas.spatialindex.rtree', '_distances_from_bounds')
    d2c = P.func('spatialpandas.utils', '_data2coord')
    gs = P.func('spatialpandas.geoseries', 'GeoSeries.hilbert_distance')

    # the value range [0, 4^p): 2*p bits survive every cast between the curve kernel and the public result
    from rules import C09 as _C09
    _C09.narrow_casts(P, R, 'C08.f')
    # C08.g: "whatever sequence type total_bounds is given as": the jit kernel needs a homogeneous tuple/array, so the elements are converted
    # to float between the parameter and the kernel call (integer bounds widened by `+= 1.0` would otherwise give an (int, int, float, int) tuple
    # that numba cannot type: TypingError instead of a result)
    tbp = hd.params[1] if len(hd.params) > 1 else 'total_bounds'
    conv = []
    for n_ in walk_own(hd.node):
        if isinstance(n_, (ast.ListComp, ast.GeneratorExp)) and isinstance(n_.elt, ast.Call) and norm(n_.elt.func) in ('float', 'np.float64') \
                and tbp in astq.names_in(n_.generators[0].iter):
            conv.append(n_)
        if isinstance(n_, ast.Call):
            fn_ = norm(n_.func)
            if fn_ == 'map' and n_.args and norm(n_.args[0]) in ('float', 'np.float64') and any(tbp in astq.names_in(a) for a in n_.args[1:]):
                conv.append(n_)
            if fn_.split('.')[-1] in ('asarray', 'array', 'asfarray') and n_.args and tbp in astq.names_in(n_.args[0]) \
                    and (fn_.endswith('asfarray') or any(k.arg == 'dtype' and norm(k.value) in ('float', 'np.float64', "'float64'", "'f8'") for k in n_.keywords)):
                conv.append(n_)
            if isinstance(n_.func, ast.Attribute) and n_.func.attr == 'astype' and tbp in astq.names_in(n_.func.value) and n_.args and norm(n_.args[0]) in ('float', 'np.float64', "'float64'", "'f8'"):
                conv.append(n_)
    kcalls = [c for c in astq.own_calls(hd) if astq.is_call_to(P, hd, c, dfb)]
    R.floor('C08.g', 'calls of the distance kernel in hilbert_distance', len(kcalls), 1)
    R.check(bool(conv), 'C08.g', hd, kcalls[0], 'the elements of total_bounds are converted to float before the jit kernel receives them (any mix of int/float elements is accepted)',
            'total_bounds reaches the jit kernel with the caller\'s element types: a sequence mixing ints and floats, or integer bounds of zero width widened by `+= 1.0`, '
            'gives a heterogeneous tuple that numba cannot type (TypingError instead of a result)', construct='total_bounds elements converted to float')
    # ---------------------------------------------------------------- C08.a
    tree = [f for f in P.reachable([hd], follow_nested=False) if f.mod.name in ('spatialpandas.geometry.base', 'spatialpandas.spatialindex.rtree', 'spatialpandas.utils',
                                                                                   'spatialpandas.spatialindex.hilbert_curve')]
    tree = [f for f in tree if f is hd or P.is_jit(f)]
    n = common.who_mutates(P, R, 'C08.a', [hd, gs], note=' (total_bounds must be accepted as any sequence and left untouched)')
    E = effects(P)
    mut = E.mutated_params(hd) - {'self'}
    R.check(not mut, 'C08.a', hd, None, 'hilbert_distance stores into none of its arguments', f'hilbert_distance stores into its argument(s) {sorted(mut)}',
            construct='hilbert_distance(total_bounds, p) effects')
    # in-place curve kernel receives fresh copies only
    common.fresh_arguments(P, R, 'C08.a', callee_filter=lambda g: g.mod.name.endswith('hilbert_curve') or g.name == '_data2coord', floor=1)

    # C08.h: no answer without the grid computation: every return of hilbert_distance goes through _distances_from_bounds (a shortcut for a
    # "single location" extent forgets that explicit bounds need not contain the data: centres outside are clamped to border cells, not to cell 0)
    common.returns_pass_through(P, R, 'C08.h', hd, lambda c: astq.is_call_to(P, hd, c, dfb), '_distances_from_bounds',
                                'the distances are not computed from (bounds, total_bounds, p): an explicit degenerate extent with centres elsewhere gets 0 instead of the clamped border cell')
    E = effects(P)
    # C08.i: rows are independent inside the curve kernels too: in a loop over rows, row-indexed arrays are touched at the loop index only
    hc = [g_ for g_ in P.all_funcs() if g_.mod.name.endswith('hilbert_curve') or g_ is dfb]
    nrow = 0
    for g_ in hc:
        for loop in [l for l in walk_own(g_.node) if isinstance(l, ast.For) and isinstance(l.target, ast.Name) and isinstance(l.iter, ast.Call)
                     and norm(l.iter.func) in ('range', 'prange', 'numba.prange') and any('.shape[0]' in norm(a) or 'len(' in norm(a) for a in l.iter.args)]:
            iv = loop.target.id
            bound = ' '.join(norm(a) for a in loop.iter.args)
            rowarrays = {x for x in astq.names_in(loop.iter)}        # arrays whose length bounds the loop
            for sub in [x for x in ast.walk(loop) if isinstance(x, ast.Subscript) and isinstance(x.value, ast.Name)]:
                first = sub.slice.elts[0] if isinstance(sub.slice, ast.Tuple) else sub.slice
                if iv not in astq.names_in(first):
                    continue
                nrow += 1
                if norm(first) == iv:
                    R.ok('C08.i', g_, sub, f'{g_.name}: row-indexed access at the loop index')
                    continue
                # another row is touched: definitely wrong when that array's rows are rewritten in place by a callee of this loop
                arr = sub.value.id
                views = {arr} | {t.id for a_ in ast.walk(loop) if isinstance(a_, ast.Assign) and isinstance(a_.value, ast.Subscript) and isinstance(a_.value.value, ast.Name)
                                 and a_.value.value.id == arr for t in a_.targets if isinstance(t, ast.Name)}
                dirty = None
                for c_ in [x for x in ast.walk(loop) if isinstance(x, ast.Call)]:
                    r_ = P.resolve_call(g_, c_)
                    if not (r_ and r_[0] == 'func'):
                        continue
                    mp = E.mutated_params(r_[1])
                    for k_, a_ in enumerate(c_.args):
                        if isinstance(a_, ast.Name) and a_.id in views and k_ < len(r_[1].params) and r_[1].params[k_] in mp:
                            dirty = (c_, r_[1])
                if dirty is not None:
                    R.bad('C08.i', g_, sub, f'`{norm(sub)}` reads another row of `{arr}` than `{iv}`, but the rows of `{arr}` are rewritten in place by {dirty[1].name} as the loop proceeds: '
                          'the value read is the transformed row, so an element\'s distance depends on its neighbour / on the order of the array')
                else:
                    R.abstain('C08.i', g_, sub, f'`{norm(sub)}` touches another row than `{iv}`; whether that keeps rows independent is not decided')
    R.floor('C08.i', 'row-indexed accesses in the curve kernels', nrow, 2)
    # the default extent is the object's own total_bounds, computed from exactly its rows on every call (not a value remembered by / inherited from another object)
    common.forward(P, R, 'C13', ['C13.a', 'C13.b', 'C13.g', 'C13.i'], 'C08.j', 'the distance is the curve position of the centre of the element\'s own box: the boxes are the tight float64 extents of exactly this array\'s elements', floor=10)
    common.forward(P, R, 'C13', ['C13.d'], 'C08.j', 'the default total_bounds of hilbert_distance is the extent of exactly this object\'s rows', floor=2)
    # ---------------------------------------------------------------- C08.b
    for f, seeds in ((dfb, {dfb.params[0]}), (d2c, {d2c.params[0]})):
        tainted = set(seeds)
        changed = True
        while changed:
            changed = False
            for s in walk_own(f.node):
                if isinstance(s, ast.Assign):
                    if astq.names_in(s.value) & tainted:
                        for t in s.targets:
                            for nm in ast.walk(t):
                                if isinstance(nm, ast.Name) and nm.id not in tainted and not isinstance(getattr(nm, '_parent', None), ast.Subscript):
                                    tainted.add(nm.id)
                                    changed = True
                            b = base_name(t)
                            if b and b not in tainted:
                                tainted.add(b)
                                changed = True
        nred = 0
        for c in astq.own_calls(f):
            last = norm(c.func).split('.')[-1]
            if last in REDUCERS:
                operands = list(c.args) + ([c.func.value] if isinstance(c.func, ast.Attribute) else [])
                hit = [o for o in operands if astq.names_in(o) & tainted and not (isinstance(o, ast.Name) and o.id in ('np', 'numpy'))]
                if hit:
                    nred += 1
                    R.bad('C08.b', f, c, f'`{norm(c)}` combines values of different rows: an element\'s distance then depends on the other elements / on how the array was sliced')
        R.check(nred == 0, 'C08.b', f, None, f'{f.name}: no cross-row operation on row-derived values ({sorted(tainted)})', f'{f.name} has {nred} cross-row operation(s)',
                construct=f'{f.name} row independence')
    # hilbert_distance itself: the only frame-level quantity is the default total_bounds
    for c in astq.own_calls(hd):
        last = norm(c.func).split('.')[-1]
        if last in REDUCERS:
            R.bad('C08.b', hd, c, f'`{norm(c)}` in hilbert_distance combines rows')

    # ---------------------------------------------------------------- C08.c
    rng = mids = None
    for s in walk_own(dfb.node):
        if isinstance(s, ast.Assign) and isinstance(s.value, ast.ListComp) and len(s.value.generators) == 1 and isinstance(s.value.generators[0].target, ast.Name):
            d = s.value.generators[0].target.id
            elt = s.value.elt
            if isinstance(elt, ast.Tuple) and len(elt.elts) == 2 and all(isinstance(e, ast.Subscript) for e in elt.elts):
                rng = s
                a, b = elt.elts
                mB = re.fullmatch(rf'(?:{d} \+ (\w+)|(\w+) \+ {d})', norm(b.slice))
                half = (mB.group(1) or mB.group(2)) if mB else None
                ok = norm(a.value) == norm(b.value) == dfb.params[1] and norm(a.slice) == d and half is not None and _is_half(dfb, half)
                R.check(ok, 'C08.c', dfb, s, 'range of dimension d is (total[d], total[d+n])', f'range `{norm(elt)}` is not (total_bounds[d], total_bounds[d + n]) of the same d')
            elif isinstance(elt, ast.BinOp) and isinstance(elt.op, ast.Div):
                mids = s
                num = elt.left
                ok = isinstance(num, ast.BinOp) and isinstance(num.op, ast.Add) and all(isinstance(x, ast.Subscript) for x in (num.left, num.right))
                if ok:
                    cols = sorted([norm(num.left.slice), norm(num.right.slice)], key=len)
                    mC = re.fullmatch(rf'\(?:, (?:{d} \+ (\w+)|(\w+) \+ {d})\)?', cols[1])
                    half = (mC.group(1) or mC.group(2)) if mC else None
                    ok = cols[0] in (f'(:, {d})', f':, {d}') and half is not None and _is_half(dfb, half) and norm(num.left.value) == norm(num.right.value) == dfb.params[0] \
                        and norm(elt.right) in ('2.0', '2')
                R.check(ok, 'C08.c', dfb, s, 'centre of dimension d is (bounds[:, d] + bounds[:, d+n]) / 2', f'centre `{norm(elt)}` is not (lb_d + ub_d) / 2 of the same dimension')
    if rng is None or mids is None:
        R.abstain('C08.c', dfb, None, 'ranges / centres are not built by the recognised comprehensions; same-dimension rule not decided')
    else:
        rn, mn = rng.targets[0].id, mids.targets[0].id
        okc = False
        for s in walk_own(dfb.node):
            if isinstance(s, ast.Assign) and isinstance(s.targets[0], ast.Subscript) and isinstance(s.value, ast.Call) and astq.is_call_to(P, dfb, s.value, P.find_func('spatialpandas.utils', '_data2coord')):
                col = norm(s.targets[0].slice).strip('()').split(',')[-1].strip()
                a = [norm(x) for x in s.value.args]
                okc = len(a) >= 3 and a[0] == f'{mn}[{col}]' and a[1] == f'{rn}[{col}]'
                R.check(okc, 'C08.c', dfb, s, f'grid coordinate {col} = scale(centre[{col}], range[{col}])', f'`{norm(s)}` mixes dimensions: centre, range and output column must use the same index')
        R.floor('C08.c', 'scaling call sites', int(okc), 1)
    # widening: exact equality of the two ends of the same dimension, widening the upper end
    nw = 0
    for f in (dfb, hd):
        for s in astq.own_nodes(f, ast.If):
            t = s.test
            src = norm(t)
            involved = (f.params[1] if f is dfb else 'total_bounds')
            refs = (rng.targets[0].id,) if (f is dfb and rng is not None) else ('total_bounds',)
            if not any(r in astq.names_in(t) for r in refs):
                continue
            if 'is None' in src:
                continue
            nw += 1
            ok = isinstance(t, ast.Compare) and len(t.ops) == 1 and isinstance(t.ops[0], ast.Eq)
            R.check(ok, 'C08.c', f, t, 'degenerate-extent widening is triggered by exact equality of the two ends',
                    f'widening is triggered by `{src}`: extents that are small but not zero are widened too, so the grid no longer spans total_bounds')
            if ok and f is hd:
                l, r = t.left, t.comparators[0]
                il, ir = (astq.const_str(l.slice) if False else norm(l.slice)), norm(r.slice)
                pair_ok = (il, ir) in (('0', '2'), ('1', '3'))
                aug = [x for x in s.body if isinstance(x, ast.AugAssign) and isinstance(x.op, ast.Add) and isinstance(x.target, ast.Subscript)]
                pair_ok = pair_ok and len(aug) == 1 and norm(aug[0].target.slice) == ir
                R.check(pair_ok, 'C08.c', f, s, f'widening compares lb/ub of the same axis ({il},{ir}) and widens the upper end',
                        f'widening `{norm(s)}` does not compare (x0,x1)/(y0,y1) of the same axis and widen the upper end')
    in_dfb = sum(1 for o in R.obs if o.rule == 'C08.c' and 'widening is triggered' in o.detail and o.site.endswith(dfb.qualname))
    in_hd = sum(1 for o in R.obs if o.rule == 'C08.c' and 'widening' in o.detail and o.site.endswith(hd.qualname))
    R.check(nw >= 1 and (in_dfb >= 1 or in_hd >= 2), 'C08.c', hd, None, 'a zero-width / zero-height extent is widened before the scaling, for every axis',
            'no degenerate-extent widening remains between total_bounds and the scaling (n / (hi - lo)): a zero-width or zero-height extent divides by zero',
            construct='degenerate extent widened on the path to the scaling')

    # ---------------------------------------------------------------- C08.d
    d2c_decided = data2coord_small_scope(P, R, d2c)
    interleave_small_scope(P, R)
    centres_small_scope(P, R, dfb)
    C = cfgmod.build(d2c.node)
    rets = [s for s in walk_own(d2c.node) if isinstance(s, ast.Return)]
    resname = norm(rets[0].value) if rets else None
    lo = hi = None
    for s in walk_own(d2c.node):
        if isinstance(s, ast.Assign) and isinstance(s.targets[0], ast.Subscript) and isinstance(s.targets[0].slice, ast.Compare):
            cmpn = s.targets[0].slice
            if norm(s.targets[0].value) != resname:
                continue
            for l_, op, r_ in astq.cmp_forms(cmpn):
                if norm(l_) != resname:
                    continue
                if op is ast.Lt and norm(r_) == '0' and norm(s.value) == '0':
                    lo = s
                if op is ast.Gt and norm(r_) == norm(s.value) and '- 1' in norm(s.value):
                    hi = s
                if op is ast.GtE and '- 1' in norm(s.value) and norm(r_) in (norm(s.value), norm(s.value).replace(' - 1', '')):
                    hi = s
    # the idiom form of the clamp is only consulted when the evaluation above could not decide the helper as a whole
    for nm, st in (() if d2c_decided else (('lower clip (<0 -> 0)', lo), ('upper clip (>n-1 -> n-1)', hi))):
        ok = st is not None and all(C.dominates(C.node(st), C.node(r)) for r in rets)
        R.check(ok, 'C08.d', d2c, st, f'{nm} dominates the return', f'{nm} is missing or can be bypassed: centres on the upper edge / outside total_bounds leave the grid',
                construct=nm)
    for c in astq.own_calls(d2c):
        if isinstance(c.func, ast.Attribute) and c.func.attr == 'astype' and c.args:
            t = norm(c.args[0])
            ok = t in ('np.int64', "'int64'", 'int', 'np.intp', 'np.uint64', 'numpy.int64')
            R.check(ok, 'C08.d', d2c, c, 'scaled coordinates are truncated to a 64-bit integer before clipping',
                    f'scaled coordinates are truncated with `{norm(c)}`: values >= 2**31 (p = 31, or centres far outside total_bounds) wrap around before the clip')
    # ---------------------------------------------------------------- C08.e
    ok = False
    for c in astq.own_calls(gs):
        if isinstance(c.func, ast.Attribute) and c.func.attr == 'hilbert_distance' and norm(c.func.value) == 'self.array':
            tb, pp = astq.arg_of(c, pos=0, kw='total_bounds'), astq.arg_of(c, pos=1, kw='p')
            ok = tb is not None and norm(tb) == 'total_bounds' and pp is not None and norm(pp) == 'p'
    idx = any(isinstance(c.func, ast.Attribute) and norm(c.func).endswith('Series') and astq.arg_of(c, kw='index') is not None and norm(astq.arg_of(c, kw='index')) == 'self.index'
              for c in astq.own_calls(gs))
    R.check(ok and idx, 'C08.e', gs, None, 'GeoSeries.hilbert_distance passes total_bounds and p through and keeps the index',
            'GeoSeries.hilbert_distance does not pass (total_bounds, p) through / does not keep the index', construct='GeoSeries.hilbert_distance delegation')
    # explicit total_bounds is used as given (default only when None)
    dflt = [s for s in astq.own_nodes(hd, ast.If) if 'total_bounds is None' in norm(s.test)]
    ok = bool(dflt) and any(isinstance(x, ast.Assign) and 'self.total_bounds' in norm(x.value) for x in dflt[0].body)
    R.check(ok, 'C08.e', hd, dflt[0].test if dflt else None, 'the array\'s own total_bounds is used only when none is given', 'explicit total_bounds is not honoured')
    last = [c for c in astq.own_calls(hd) if astq.is_call_to(P, hd, c, dfb)]
    def _strip(e):
        t_ = norm(e)
        for w in ('tuple(', 'list('):
            if t_.startswith(w) and t_.endswith(')'):
                t_ = t_[len(w):-1]
        return t_
    ok = bool(last) and [_strip(a) for a in last[0].args] == ['self.bounds', 'total_bounds', 'p']
    R.check(ok, 'C08.e', hd, last[0] if last else None, 'distances are computed from (self.bounds, total_bounds, p)', 'distances are not computed from (self.bounds, total_bounds, p)')
