"""C12 — stored partition bounds are the true extents; pruning never loses a row.

 C12.a  writer/reader agreement of the metadata keys and columns; per-partition values are total_bounds of that
        partition's rows, collected in partition order, for every geometry column.
 C12.b  order normalisation: string partition labels become numbers before the sort that fixes row order.
 C12.c  dataset pieces are sorted by the natural key of their path.
 C12.d  bounds filter: the box is re-oriented and a partition is kept iff its recorded extent overlaps the closed box
        (exhaustive over all weak orderings per axis; a NaN extent may be kept or dropped).
 C12.e  one mask filters the delayed partitions, the divisions and the bounds tables of ALL geometry columns (each followed
        by an index reset); the result's _partition_bounds is the filtered table.
 C12.f  the filter uses the bounds of the active geometry (meta.geometry.name after set_geometry).
 C12.j  a dataset's bounds table is reported only when it has one row per file that is read (the metadata describes every
        file of the dataset it was written with; a list or glob of some part files must not get the whole table - D31).
 C12.g  cached partition bounds are propagated by DaskGeoDataFrame.__getitem__ only for column selections (never for row
        selections, whose partitions hold different rows).
"""
import ast

import astq
import ordeval
from ordeval import Sym, Row, OPQ
from model import walk_own, AnalysisError, full as norm

EXPLANATION = (
    'Static analysis of the partition-bounds metadata path: string/bytes key agreement between the two writers and the reader, def-use of the '
    'per-partition total_bounds, method-chain ordering of the int conversion before the sort, natural sort key of pieces, and an exhaustive '
    'order-type evaluation (all weak orderings of box corners and extent per axis, plus NaN extents) of the re-orientation + overlap filter, '
    'together with a pairing rule that one mask filters every table.  Decides structure, not the stored numbers.')

PQ = 'spatialpandas.io.parquet'
COLS = ['x0', 'y0', 'x1', 'y1']


def _consts(node, typ):
    return [n.value for n in ast.walk(node) if isinstance(n, ast.Constant) and isinstance(n.value, typ)]


def _chain(expr):
    """Method chain from innermost to outermost: [(name, call)]"""
    out = []
    e = expr
    while isinstance(e, ast.Call) and isinstance(e.func, ast.Attribute):
        out.append((e.func.attr, e))
        e = e.func.value
    out.reverse()
    return out, e


def run(P, R, tier):
    R.assume('S3: partition metadata columns x0,y0,x1,y1 hold (min x, min y, max x, max y); total_bounds returns that order')
    reader = P.func(PQ, '_load_partition_bounds')
    w1 = P.func(PQ, 'to_parquet_dask')
    w2 = P.func('spatialpandas.dask', 'DaskGeoDataFrame.pack_partitions_to_parquet')
    perform = P.func(PQ, '_perform_read_parquet_dask')
    pb = P.func('spatialpandas.dask', 'DaskGeoSeries.partition_bounds')

    _common0 = __import__('rules.common', fromlist=['x'])
    # the extents that are recorded are the partitions' own: total_bounds of an array is computed from exactly its window of the buffers (C13's E-UNITS part,
    # called directly: C13 depends on C06, which depends on C12)
    from rules import C13 as _C13x
    sub13 = type(R)('C13', 'quick')
    try:
        _C13x.array_extents(P, sub13)
    except AnalysisError:
        if not __import__('report').unlisted(sub13.obs):
            raise
    n13 = 0
    for o in sub13.obs:
        if o.rule in ('C13.a', 'C13.b', 'C13.c') and 'total_bounds' in (o.detail + (o.construct or '') + o.site):
            n13 += 1
            R._add('C12.a', (o.path, o.site.split('::')[-1]), None, o.status, f'[{o.rule}] the recorded extent of a partition is the extent of its own rows: ' + o.detail, construct=o.construct, nontrivial=o.nontrivial)
    R.floor('C12.a', 'array extent obligations (C13)', n13, 6)
    from rules import C16 as _C16x
    sub16 = type(R)('C16', 'quick')
    _C16x.bitmap_small_scope(P, sub16, P.func('spatialpandas.geometry.base', '_extract_isnull_bytemap'))
    for o in sub16.obs:
        R._add('C12.a', (o.path, o.site.split('::')[-1]), None, o.status, '[C16.a] the extent of a partition of points is masked by isna(): every row of a slice is read from its own validity bit: ' + o.detail, construct=o.construct, nontrivial=o.nontrivial)
    _common0.class_level_mutable_state(P, R, 'C12.b', [P.cls('spatialpandas.dask.DaskGeoSeries'), P.cls('spatialpandas.dask.DaskGeoDataFrame')],
                                       'partition bounds / indexes cached by one frame are served to every other frame with a geometry column of that name, and written to their datasets')
    _common0.shared_mutable_defaults(P, R, 'C12.b', [w1, w2] + list(w2.nested.values()), 'the bounds of every geometry column are appended to one list, so each column records the interleaved bounds of all columns (and twice as many rows as partitions)')
    # ---------------------------------------------------------------- C12.a keys
    def keyset(f):
        b = {c for c in _consts(f.node, bytes)}
        s = {c for c in _consts(f.node, str) if c in ('partition_bounds',)}
        return b, s
    rb, rs = keyset(reader)
    for w in (w1, w2):
        wb, ws = set(), set()
        for g in [w] + list(w.nested.values()):
            b_, s_ = keyset(g)
            wb |= b_
            ws |= s_
        R.check(bool(rb) and rb <= wb, 'C12.a', w, None, f'writer stores under the byte key(s) the reader looks up {sorted(rb)}',
                f'writer byte keys {sorted(wb)} do not include the reader\'s {sorted(rb)}: stored bounds are never found', construct='metadata byte key')
        R.check('partition_bounds' in ws and 'partition_bounds' in rs, 'C12.a', w, None, 'writer and reader agree on the "partition_bounds" key',
                'writer/reader disagree on the "partition_bounds" key', construct='partition_bounds key')
    for w in (w1, w2):
        for g in [w] + list(w.nested.values()):
            for c in astq.own_calls(g):
                if norm(c.func).endswith('json.dumps') or norm(c.func) == 'dumps':
                    strict = any(k.arg == 'allow_nan' and norm(k.value) == 'False' for k in c.keywords)
                    R.check(not strict, 'C12.a', g, c, 'the bounds metadata is serialised with NaN allowed (a partition without valid geometry has NaN bounds)',
                            f'`{norm(c)}` refuses NaN: a partition whose geometry column is entirely missing makes the writer raise after the parts were written (no _common_metadata)')
    # column lists: every list literal of 4 strings starting with 'x0' must be exactly COLS
    ncol = 0
    for f in list(dict.fromkeys([pb, w2] + list(w2.nested.values()) + list(pb.lambdas) + [g_ for g_ in P.mods['spatialpandas.dask'].funcs.values() if not isinstance(g_.node, ast.Lambda)])):
        for n in walk_own(f.node):
            if isinstance(n, ast.List) and len(n.elts) == 4 and all(isinstance(e, ast.Constant) and isinstance(e.value, str) for e in n.elts):
                vals = [e.value for e in n.elts]
                if set(vals) == set(COLS):
                    ncol += 1
                    R.check(vals == COLS, 'C12.a', f, n, 'bounds columns are labelled (x0, y0, x1, y1) in total_bounds order',
                            f'bounds columns labelled {vals}: values of total_bounds (x0, y0, x1, y1) land under the wrong names')
    R.floor('C12.a', 'column label lists', ncol, 1)
    # the labelled values are total_bounds of the partition
    per_part = list(pb.lambdas)
    for c_ in astq.own_calls(pb):
        if isinstance(c_.func, ast.Attribute) and c_.func.attr == 'map_partitions' and c_.args and isinstance(c_.args[0], ast.Name):
            r_ = P.resolve_expr_static(pb.mod, c_.args[0], local=pb)
            if r_ and r_[0] == 'func' and r_[1] not in per_part:
                per_part.append(r_[1])
    for lam in per_part:
        src = norm(lam.node)
        if 'columns' in src:
            ok = any(isinstance(n, ast.Attribute) and n.attr == 'total_bounds' and isinstance(n.value, ast.Name) and n.value.id in lam.params
                     for n in ast.walk(lam.node))
            if not isinstance(lam.node, ast.Lambda):
                p0 = lam.params[0] if lam.params else None
                for r_ in [x for x in walk_own(lam.node) if isinstance(x, ast.Return)]:
                    e_ = astq.expand(lam, r_.value) if r_.value is not None else None
                    one = e_ is not None and any(isinstance(n, ast.Attribute) and n.attr == 'total_bounds' for n in ast.walk(e_))
                    R.check(one, 'C12.a', lam, r_, 'every return of the per-partition function is the one row of that partition\'s total_bounds',
                            f'`{norm(r_)[:70]}` answers for a partition without its total_bounds row (an early exit for empty partitions): the partition contributes NO row, the rows of all '
                            'later partitions move up by one and are recorded for the wrong part files', construct=f'{lam.name}: one row per partition')
            R.check(ok, 'C12.a', lam, lam.node, 'per-partition row is the total_bounds of that partition\'s series',
                    'per-partition bounds row is not the partition\'s own total_bounds')
    # to_parquet_dask: for every geometry column, series.partition_bounds.to_dict()
    loops = [s for s in astq.own_nodes(w1, ast.For) if 'columns' in norm(s.iter)]
    ok = False
    for lp in loops:
        body = ' '.join(norm(x) for x in lp.body)
        if 'GeometryDtype' in body and '.partition_bounds.to_dict()' in body and isinstance(lp.target, ast.Name):
            # stored under the column's own name
            for n in ast.walk(lp):
                if isinstance(n, ast.Assign) and isinstance(n.targets[0], ast.Subscript) and isinstance(n.targets[0].slice, ast.Name) \
                        and n.targets[0].slice.id == lp.target.id and '.partition_bounds' in norm(n.value):
                    src_name = astq.trace(w1, n.value.func.value.value) if isinstance(n.value, ast.Call) else None
                    ok = True
    R.check(ok, 'C12.a', w1, loops[0] if loops else None, 'to_parquet stores series.partition_bounds for every geometry column under the column name',
            'to_parquet does not store the partition bounds of every geometry column under its own name', construct='for series_name in ddf.columns: partition_bounds[name] = series.partition_bounds.to_dict()')
    # pack: total_bounds per geometry column of part_df (the partition rows read back), collected in write_info order
    task = None
    for g in w2.nested.values():
        src = norm(g.node)
        if '.total_bounds' in src and 'GeometryDtype' in src:
            task = g
    if task is None:
        for g in w2.nested.values():
            if any(isinstance(x, ast.Attribute) and x.attr == 'total_bounds' for x in ast.walk(g.node)):
                task = g
    # extents are merged NaN-aware: a geometry column that is entirely missing in one sub-part (or partition) has NaN bounds there.  The builtin min / max keep
    # whichever operand comes first when the other is NaN, ndarray.min / max and np.minimum / np.maximum propagate NaN: the union of the valid extents needs
    # np.fmin / np.fmax / np.nanmin / np.nanmax
    producers = {g.name for g in w2.nested.values() if any(isinstance(x, ast.Attribute) and x.attr == 'total_bounds' for x in ast.walk(g.node))}
    for h in [w2] + list(w2.nested.values()):
        for c in astq.own_calls(h):
            fn = norm(c.func)
            unsafe = (isinstance(c.func, ast.Name) and c.func.id in ('min', 'max') and len(c.args) >= 2) or fn in ('np.minimum', 'np.maximum', 'np.min', 'np.max', 'np.amin', 'np.amax') \
                or (isinstance(c.func, ast.Attribute) and c.func.attr in ('min', 'max') and not c.args and not fn.startswith(('np.', 'numpy.')))
            if not unsafe:
                continue
            operands = list(c.args) + ([c.func.value] if isinstance(c.func, ast.Attribute) and not c.args else [])
            tainted = False
            for a_ in operands:
                if any(isinstance(x, ast.Attribute) and x.attr == 'total_bounds' for x in ast.walk(a_)):
                    tainted = True
                srcs = astq.sources(h, a_)
                if srcs & producers:
                    tainted = True
                for nm in srcs:
                    for d_ in astq.assignments(h, nm):
                        v_ = d_[1].iter if isinstance(d_[1], (ast.For, ast.comprehension)) else d_[1]
                        if isinstance(v_, ast.AST) and any(isinstance(x, ast.Attribute) and x.attr == 'total_bounds' for x in ast.walk(v_)):
                            tainted = True
            if tainted:
                R.bad('C12.a', h, c, f'`{norm(c)[:70]}` merges partition extents with a reduction that is not NaN-aware: where one operand is NaN (a column without valid geometries in that piece) the result '
                                     'is NaN or depends on the order of the pieces, so the recorded extent of a partition that holds valid rows can be NaN (never selected by bounds= / cx) ', construct=f'{h.name}: NaN-unaware merge of extents')
    if task is None:
        raise AnalysisError('C12.a: the consolidation task collecting total_bounds was not found')
    okt = False
    for lp in astq.own_nodes(task, ast.For):
        if 'columns' in norm(lp.iter) and isinstance(lp.target, ast.Name):
            frame = lp.iter.value.id if isinstance(lp.iter, ast.Attribute) and isinstance(lp.iter.value, ast.Name) else None
            for n in ast.walk(lp):
                if isinstance(n, ast.Assign) and isinstance(n.targets[0], ast.Subscript) and isinstance(n.value, ast.Attribute) and n.value.attr == 'total_bounds':
                    ser = astq.trace(task, n.value.value)
                    ser_s = norm(ser) if isinstance(ser, ast.AST) else ''
                    key_ok = isinstance(n.targets[0].slice, ast.Name) and n.targets[0].slice.id == lp.target.id
                    okt = key_ok and frame is not None and ser_s == f'{frame}[{lp.target.id}]'
                    # the frame is what is written out
                    written = any(isinstance(c, ast.Call) and any(isinstance(a, ast.Name) and a.id == frame for a in c.args) and 'write' in norm(c.func)
                                  for c in astq.own_calls(task))
                    okt = okt and written
    R.check(okt, 'C12.a', task, None, 'pack: recorded bounds are total_bounds of each geometry column of the very frame that is written',
            'pack: recorded bounds are not computed from the rows that are written for that partition', construct='total_bounds[col] = part_df[col].total_bounds')
    # collected in partition order
    order_ok = False
    nloops = 0
    for lp in astq.own_nodes(w2, ast.For):
        if any('total_bounds' in norm(x) for x in lp.body) and ('write_info' in norm(lp.iter) or isinstance(lp.iter, ast.Name)):
            nloops += 1
            order_ok = not any(k in norm(lp.iter) for k in ('sorted', 'reversed', 'set('))
            R.check(order_ok, 'C12.a', w2, lp, 'per-partition bounds are collected in partition order', 'per-partition bounds are collected in a different order than the partitions')
            # rows are numbered by POSITION among the parts that were written (the part files are renumbered contiguously behind empty partitions): appended to a list, or
            # keyed by an enumerate() counter of the written parts -- never by the output-partition number a part was computed for (that numbering has gaps)
            for st in ast.walk(lp):
                if isinstance(st, ast.Assign) and isinstance(st.targets[0], ast.Subscript) and not isinstance(st.targets[0].slice, ast.Slice):
                    key = st.targets[0].slice
                    ksrc = astq.sources(w2, key) if isinstance(key, ast.AST) else set()
                    tgt_names = {n_.id for n_ in ast.walk(lp.target) if isinstance(n_, ast.Name)}
                    from_loop = ksrc & tgt_names
                    if not from_loop or not isinstance(st.value, ast.Call):
                        continue
                    it_src = norm(lp.iter)
                    numbered = any(n_ in it_src for n_ in ('out_partitions', 'written_partitions')) or any('out_partition' in n_ for n_ in from_loop)
                    counter = it_src.startswith('enumerate(')
                    if 'total_bounds' in norm(st) or 'Series(' in norm(st.value):
                        R.check(counter and not numbered or not numbered and not from_loop - {'col', 'series_name', 'name'}, 'C12.a', w2, st,
                                'bounds rows are numbered by position among the written parts',
                                f'`{norm(st)[:90]}` keys the bounds of a part by the output-partition number it was computed for: empty output partitions leave gaps in that numbering while the '
                                'part files are renumbered contiguously, so bounds rows and partitions no longer correspond', construct='bounds rows numbered like the part files')
    R.floor('C12.a', 'bounds collection loops', nloops, 1)

    # ---------------------------------------------------------------- C12.b order normalisation
    found = False
    for n in walk_own(reader.node):
        if isinstance(n, ast.Assign) and isinstance(n.value, ast.Call):
            chain, base = _chain(n.value)
            names = [c[0] for c in chain]
            if 'sort_index' in names or 'sort_values' in names:
                found = True
                si = names.index('sort_index') if 'sort_index' in names else names.index('sort_values')
                conv = False
                for nm, call in chain[:si]:
                    if nm in ('set_index', 'rename', 'reindex', 'set_axis'):
                        txt = norm(call)
                        if ("astype('int')" in txt or 'astype(int)' in txt or "astype('int64')" in txt or 'to_numeric' in txt or 'map(int)' in txt
                                or "astype(np.int64)" in txt):
                            conv = True
                # conversion done in an earlier statement on the same frame?
                if not conv:
                    for m in walk_own(reader.node):
                        if isinstance(m, ast.Assign) and m.lineno < n.lineno and isinstance(m.targets[0], ast.Attribute) and m.targets[0].attr == 'index' \
                                and ('astype' in norm(m.value) and 'int' in norm(m.value)):
                            conv = True
                after = names[si + 1:]
                R.check(conv, 'C12.b', reader, n, 'partition labels are converted to numbers before the sort',
                        'partition labels are sorted as strings ("10" < "2"): with more than ten partitions bounds are attributed to the wrong partitions')
                R.check('reset_index' in after, 'C12.b', reader, n, 'the sorted labels are dropped (positional index) after the sort',
                        'index is not reset after sorting', nontrivial=False)
    if not found:
        R.bad('C12.b', reader, None, 'stored partition bounds are not sorted by partition number after loading', construct='sort by partition number')

    # ---------------------------------------------------------------- C12.c natural sort of pieces
    nsort = 0
    for c in astq.own_calls(perform):
        is_sorted = isinstance(c.func, ast.Name) and c.func.id == 'sorted' and c.args and ('fragments' in norm(c.args[0]) or 'pieces' in norm(c.args[0]))
        is_sort = isinstance(c.func, ast.Attribute) and c.func.attr == 'sort' and ('fragments' in norm(c.func.value) or 'pieces' in norm(c.func.value))
        if is_sorted or is_sort:
            nsort += 1
            key = astq.arg_of(c, kw='key')
            ok = False
            if isinstance(key, ast.Lambda):
                for cc in ast.walk(key.body):
                    if isinstance(cc, ast.Call):
                        r = P.resolve_expr_static(perform.mod, cc.func)
                        if r and r[0] == 'ext' and r[1].endswith('natural_sort_key') and 'path' in norm(cc):
                            ok = True
            elif key is not None:
                r = P.resolve_expr_static(perform.mod, key)
                ok = bool(r and r[0] == 'ext' and r[1].endswith('natural_sort_key'))
            R.check(ok, 'C12.c', perform, c, 'pieces are ordered by the natural sort key of their path',
                    'pieces are not ordered by the natural key of their path: part.10 loads before part.2, so partitions and recorded bounds are misaligned')
    if nsort == 0:
        R.bad('C12.c', perform, None, 'dataset pieces are not sorted at all: their order is whatever the filesystem listing returns', construct='natural sort of pieces')
    # the sorted list is what is read, in that order
    ok = any(isinstance(n, ast.ListComp) and 'delayed' in norm(n.elt) and isinstance(n.generators[0].iter, ast.Name) for n in walk_own(perform.node))
    R.check(ok, 'C12.c', perform, None, 'one delayed read per piece in sorted order', 'delayed partitions are not built from the sorted pieces in order',
            construct='[delayed(read_parquet)(piece.path, ...) for piece in pieces]', nontrivial=False)

    from rules import common as _common
    _common.forward(P, R, 'C11', ['C11.d'], 'C12.c', 'bounds rows are matched with partitions by position: pieces of several datasets must stay grouped per dataset, in the order the bounds are concatenated', floor=1)
    # C12.i: "this dataset has no recorded bounds" is signalled by None and the caller drops ALL bounds when any dataset says so (bounds of only some of
    # the datasets would be taken for the extent of the whole frame).  Caller and callee must agree on the sentinel: the caller tests `is None`, so the
    # loader must be able to return None -- a loader that answers {} instead makes the caller keep partial bounds
    none_tests = [c for c in ast.walk(perform.node) if isinstance(c, ast.Compare) and isinstance(c.ops[0], (ast.Is, ast.IsNot)) and norm(c.comparators[0]) == 'None'
                  and any(reader.name in norm(astq.expand(perform, x)) or True for x in [c.left])]
    uses_loader = any(astq.is_call_to(P, perform, c, reader) for c in ast.walk(perform.node) if isinstance(c, ast.Call))
    rets = [r_ for r_ in walk_own(reader.node) if isinstance(r_, ast.Return) and r_.value is not None]
    may_none = False
    for r_ in rets:
        if norm(r_.value) == 'None':
            may_none = True
        elif isinstance(r_.value, ast.Name):
            # the answer for a dataset WITHOUT metadata is the value the name has when no conditional block ran: its assignments at the top level of the body
            # (a `= None` inside a guard for some other situation - e.g. the row-count guard of D31 - says nothing about that path)
            top = [st for st in reader.node.body if isinstance(st, ast.Assign) and any(isinstance(t_, ast.Name) and t_.id == r_.value.id for t_ in st.targets)]
            if top:
                may_none = may_none or norm(top[-1].value) == 'None'
            else:
                may_none = may_none or any(d[0] == 'expr' and norm(d[1]) == 'None' for d in astq.assignments(reader, r_.value.id))
    if uses_loader and none_tests:
        R.check(may_none, 'C12.i', reader, rets[0] if rets else None, 'the loader can answer None ("no recorded bounds"), the sentinel the reader tests for',
                f'{reader.name} never returns None, but {perform.name} recognises a dataset without recorded bounds by `is None`: with one such dataset in a list the reader keeps the '
                'bounds of the other datasets only, and everything reduced from them (total_bounds, cx pruning, Hilbert grid) covers part of the frame', construct='no-bounds sentinel agreement')
    bounds_rows_match_files(P, R, reader, perform)
    # ---------------------------------------------------------------- C12.d filter (E-ORD) + C12.e + C12.f
    blk = None
    for s in astq.own_nodes(perform, ast.If):
        t = norm(s.test)
        if 'bounds' in astq.names_in(s.test) and 'partition_bounds' in t:
            blk = s
    if blk is None:
        # the block that filters on the stored bounds, not guarded by the bounds= argument: without bounds= nothing may be dropped, and a positive overlap mask
        # drops the partitions whose recorded extent is NaN (only missing / empty geometries) - rows vanish from a plain read of the dataset
        for s in astq.own_nodes(perform, ast.If):
            if isinstance(s.test, ast.Compare) and isinstance(s.test.ops[0], ast.In) and 'partition_bounds' in norm(s.test) and any('.x0' in norm(x) or "'x0'" in norm(x) or 'intersect' in norm(x) for x in s.body):
                blk = s
                R.bad('C12.d', perform, s.test, f'the partition filter runs under `{norm(s.test)}`, whether or not bounds= was given: an unfiltered read passes through the overlap mask, and partitions whose recorded '
                      'extent is NaN (all geometries missing or empty) overlap nothing - their rows are missing from the frame although the files hold them', construct='filter only with bounds=')
    if blk is None:
        raise AnalysisError('C12.d: bounds filter block not found in _perform_read_parquet_dask')
    # C12.f: which table is filtered on
    tf = blk.test
    gname = None
    for n in ast.walk(tf):
        if isinstance(n, ast.Compare) and isinstance(n.ops[0], ast.In) and isinstance(n.left, ast.Name):
            gname = n.left.id
    okf = False
    if gname:
        defs = [d for d in astq.assignments(perform, gname) if d[0] == 'expr']
        last = defs[-1][1] if defs else None
        hops = 0
        while isinstance(last, ast.Name) and hops < 4:          # `geometry = active` where `active = meta.geometry.name`
            d2 = [d for d in astq.assignments(perform, last.id) if d[0] == 'expr']
            if len(d2) != 1:
                break
            last = d2[0][1]
            hops += 1
        okf = last is not None and norm(last).endswith('.geometry.name')
        # and set_geometry(geometry) was applied to the same meta when geometry was given
        sg_calls = [c for c in astq.own_calls(perform) if isinstance(c.func, ast.Attribute) and c.func.attr == 'set_geometry']
        okf = okf and bool(sg_calls)
        if okf:
            # ordering: the name is read from the meta frame AFTER the requested geometry was applied to it
            import cfg as cfgmod
            Cp = cfgmod.build(perform.node)
            dstmt = next((a for a in walk_own(perform.node) if isinstance(a, ast.Assign) and a.value is last), None)
            for c in sg_calls:
                sstmt = next((a for a in walk_own(perform.node) if isinstance(a, (ast.Assign, ast.Expr)) and any(x is c for x in ast.walk(a))), None)
                if dstmt is not None and sstmt is not None:
                    R.check(not Cp.can_reach(Cp.node(dstmt), Cp.node(sstmt)), 'C12.f', perform, dstmt,
                            'the active geometry name is read from the meta frame after set_geometry(geometry) was applied',
                            f'`{norm(dstmt)}` is evaluated before `{norm(sstmt)}`: with geometry= given, the bounds filter (and the bounds reported) use the first geometry column instead of the requested one',
                            construct='geometry name read after set_geometry')
    R.check(okf, 'C12.f', perform, tf, 'the filter uses the bounds of the active geometry (meta.geometry.name after set_geometry)',
            'the bounds filter is not keyed by the active geometry of the result')
    def _inline(stmts):
        # a mask computed by a single-return helper (`inds = _intersects_box(df, x0, ...)`) is evaluated as the helper's expression
        for k_, st in enumerate(stmts):
            if isinstance(st, ast.Assign) and isinstance(st.value, ast.Call):
                e_ = astq.inline_call(perform, st.value)
                if e_ is not None and all(k in norm(e_) for k in ('.x0', '.x1', '.y0', '.y1')):
                    new_ = ast.Assign(targets=st.targets, value=e_, lineno=st.lineno)
                    ast.copy_location(new_, st)
                    ast.fix_missing_locations(new_)
                    stmts[k_] = new_
            for sub_ in ([st.body, st.orelse] if isinstance(st, ast.If) else []):
                _inline(sub_)
    _inline(blk.body)

    def _is_mask(s):
        return (isinstance(s, ast.Assign) and isinstance(s.value, ast.UnaryOp) and isinstance(s.value.op, ast.Invert)) or \
            (isinstance(s, ast.Assign) and isinstance(s.value, (ast.BinOp, ast.BoolOp)) and all(k in norm(s.value) for k in ('.x0', '.x1', '.y0', '.y1')))

    def _container(stmts, prefix):
        # the statement list that holds the mask (the block itself, or a branch nested in it) and the statements executed before that list on the way to it
        for k_, s in enumerate(stmts):
            if _is_mask(s):
                return stmts, prefix
        for k_, s in enumerate(stmts):
            for sub_ in ([s.body, s.orelse] if isinstance(s, ast.If) else [s.body] if isinstance(s, (ast.With, ast.For)) else []):
                r_ = _container(sub_, prefix + stmts[:k_])
                if r_ is not None:
                    return r_
        return None
    cont = _container(blk.body, [])
    outer_prefix = []

    if cont is not None and cont[0] is not blk.body:
        # the pieces are also re-selected outside the branch that filters: every such selection must filter the bounds tables as well
        inner_body, outer_prefix = cont
        fd = [c for c in astq.own_calls(perform) if norm(c.func).split('.')[-1] == 'from_delayed' and c.args and isinstance(c.args[0], ast.Name)]
        pieces = fd[0].args[0].id if fd else None
        for st in [x for b in blk.body for x in ast.walk(b)]:
            if isinstance(st, ast.Assign) and any(isinstance(t_, ast.Name) and t_.id == pieces for t_ in st.targets) and not any(st is y for b2 in inner_body for y in ast.walk(b2)):
                R.bad('C12.e', perform, st, f'`{norm(st)[:80]}` re-selects the pieces that are read without filtering the stored bounds of the geometry columns with the same selection: the frame '
                      'reports bounds rows for partitions it does not have (every extent of the dataset for an empty result)', construct='pieces re-selected without filtering the bounds')
        blk2 = ast.If(test=blk.test, body=inner_body, orelse=[])
        ast.copy_location(blk2, blk)
        blk = blk2
    mask_stmt = None
    for s in blk.body:
        if _is_mask(s):
            mask_stmt = s
    inline_use = None
    if mask_stmt is None:
        # the mask is used once and written in place (`partitions_df[~(...)]`): give it a name for the evaluation below
        for s in blk.body:
            for n in ast.walk(s):
                if isinstance(n, ast.Subscript) and isinstance(n.slice, (ast.UnaryOp, ast.BinOp, ast.BoolOp)) and all(k in norm(n.slice) for k in ('.x0', '.x1', '.y0', '.y1')):
                    inline_use = (s, n)
        if inline_use is None:
            raise AnalysisError('C12.d: mask assignment not found in the bounds filter block')
        mask_stmt = ast.Assign(targets=[ast.Name(id='__mask', ctx=ast.Store())], value=inline_use[1].slice, lineno=inline_use[0].lineno)
        ast.fix_missing_locations(mask_stmt)
        mask_name = '__mask'
        k0 = blk.body.index(inline_use[0])
        pre = outer_prefix + blk.body[:k0] + [mask_stmt]
        rest = blk.body[k0:]
    else:
        mask_name = mask_stmt.targets[0].id
        pre = outer_prefix + blk.body[:blk.body.index(mask_stmt) + 1]
        rest = blk.body[blk.body.index(mask_stmt) + 1:]
    global _PROG
    _PROG = P
    ntr = _common.coordinate_truthiness(P, R, 'C12.d', ['spatialpandas.io.parquet'], 'partitions that do not meet the box are read, or - with reversed corners - partitions that meet it are pruned')
    R.floor('C12.d', 'functions that unpack the bounds= box', ntr, 1)
    _eval_filter(R, perform, pre, mask_name, tier)

    # C12.e: same mask everywhere
    uses = [inline_use] if inline_use is not None else []
    for s in rest:
        for n in ast.walk(s):
            if isinstance(n, ast.Subscript) and isinstance(n.slice, ast.Name) and n.slice.id == mask_name:
                uses.append((s, n))
    R.floor('C12.e', 'uses of the partition mask', len(uses), 1)
    frame_filtered = None
    all_cols = False
    for s, n in uses:
        if isinstance(s, ast.Assign) and isinstance(s.targets[0], ast.Name):
            frame_filtered = s.targets[0].id
        if isinstance(s, ast.For):
            it = norm(s.iter)
            tbl = norm(n.value)
            # loop over every key of the bounds dict, filtering tbl[col]
            dict_name = n.value.value.id if isinstance(n.value, ast.Subscript) and isinstance(n.value.value, ast.Name) else None
            over_all = dict_name is not None and it in (f'list({dict_name})', dict_name, f'{dict_name}.keys()', f'list({dict_name}.keys())')
            keyed = isinstance(n.value, ast.Subscript) and isinstance(n.value.slice, ast.Name) and isinstance(s.target, ast.Name) and n.value.slice.id == s.target.id
            reset = any(isinstance(c, ast.Call) and isinstance(c.func, ast.Attribute) and c.func.attr == 'reset_index' for c in ast.walk(s))
            all_cols = over_all and keyed
            R.check(all_cols, 'C12.e', perform, s, 'the bounds tables of ALL geometry columns are filtered by the partition mask',
                    'only some bounds tables are filtered: bounds of the other geometry columns still describe the unpruned partitions')
            R.check(reset, 'C12.e', perform, s, 'filtered bounds tables are re-indexed 0..k-1', 'filtered bounds tables keep their old partition numbers', nontrivial=False)
            # the dict that is filtered is the one stored on the result
            stored = any(isinstance(a, ast.Assign) and isinstance(a.targets[0], ast.Attribute) and a.targets[0].attr == '_partition_bounds'
                         and isinstance(a.value, ast.Name) and a.value.id == dict_name for a in walk_own(perform.node))
            R.check(stored, 'C12.e', perform, None, 'the result exposes the filtered bounds tables', 'the result does not expose the filtered bounds tables',
                    construct='result._partition_bounds = partition_bounds')
    if not any(isinstance(s, ast.For) for s, _ in uses):
        R.bad('C12.e', perform, blk, 'no loop filters the bounds tables of all geometry columns with the partition mask', construct='for col in partition_bounds: filter')
    if frame_filtered:
        # delayed partitions and divisions come from the filtered frame
        okd = any(isinstance(a, ast.Assign) and isinstance(a.targets[0], ast.Name) and frame_filtered in astq.names_in(a.value)
                  and any(isinstance(x, ast.Attribute) and x.attr == 'delayed_partition' for x in ast.walk(a.value)) for a in ast.walk(blk))
        R.check(okd, 'C12.e', perform, None, 'delayed partitions are taken from the frame filtered by the same mask',
                'delayed partitions are not taken from the filtered frame', construct='delayed_partitions = partitions_df.delayed_partition.tolist()')
        divs = [a for a in ast.walk(blk) if isinstance(a, ast.Assign) and isinstance(a.targets[0], ast.Name) and any(isinstance(x, ast.Attribute) and x.attr.startswith('div_') for x in ast.walk(a.value))]
        for a in divs:
            R.check(frame_filtered in astq.names_in(a.value), 'C12.e', perform, a, 'divisions are taken from the frame filtered by the same mask',
                    'divisions are not filtered with the partitions')
    else:
        R.bad('C12.e', perform, blk, 'the partition table is not filtered by the mask', construct='partitions_df = partitions_df[mask]')

    # ---------------------------------------------------------------- C12.g cache propagation only for column selections
    gi = P.func('spatialpandas.dask', 'DaskGeoDataFrame.__getitem__')
    keyp = gi.params[1] if len(gi.params) > 1 else None
    nprop = 0
    for c in astq.own_calls(gi):
        r = P.resolve_call(gi, c)
        if r and r[0] == 'func' and r[1].name.startswith('_propagate_props'):
            nprop += 1
            guard = _enclosing_if_test(c)
            gt = norm(guard) if guard is not None else ''
            names = astq.names_in(guard) if guard is not None else set()
            ok = guard is not None and keyp in names and 'result' not in names and all(t not in gt for t in ('Series', 'DataFrame'))
            # the test must admit column keys only: isinstance(key, <label containers>) / np.isscalar(key); a duck-typed
            # "is it list-like" test also admits a boolean mask Series
            duck = [norm(x.func) for x in ast.walk(guard) if isinstance(x, ast.Call) and (norm(x.func).split('.')[-1] in ('is_list_like', 'is_iterator', 'is_sequence', 'is_array_like', 'iterable', 'hasattr', 'is_bool_dtype'))] if guard is not None else []
            types = set()
            for x in (ast.walk(guard) if guard is not None else []):
                if isinstance(x, ast.Call) and norm(x.func) == 'isinstance' and len(x.args) == 2 and keyp in astq.names_in(x.args[0]):
                    ts = x.args[1].elts if isinstance(x.args[1], ast.Tuple) else [x.args[1]]
                    types |= {norm(t) for t in ts}
            label_types = {'np.ndarray', 'numpy.ndarray', 'list', 'tuple', 'str', 'pd.Index', 'pandas.Index', 'int', 'bytes', 'slice'}
            if ok and duck:
                ok = False
                gt += ' (duck-typed: a boolean-mask Series passes it)'
            elif ok and types - label_types:
                R.abstain('C12.g', gi, c, f'selection key admitted by types {sorted(types - label_types)} not known to be label containers')
                continue
            R.check(ok, 'C12.g', gi, c, 'cached partition bounds/sindex are propagated only under a test on the type of the selection key (column selections)',
                    f'cached partition bounds are propagated under `{gt}`: row selections (boolean masks) inherit bounds of partitions whose rows changed')
    R.floor('C12.g', 'cache propagation sites in __getitem__', nprop, 2)

    # ---------------------------------------------------------------- C12.h nothing on the read path is memoised
    from rules import common as _cmh
    _cmh.read_path_not_memoised(P, R, 'C12.h')



FILE_TOKENS = ('.files', '.fragments', '.pieces', 'num_fragments')


def _flow_names(f, is_seed):
    """Forward closure: the local names of f whose value derives from an expression accepted by `is_seed` (through assignments, unpacking, loop and
    comprehension targets, subscript / attribute stores into a container, and the filling methods of containers)."""
    T = set()

    def base(t):
        while isinstance(t, (ast.Subscript, ast.Attribute, ast.Starred)):
            t = t.value
        return t

    def targets(t):
        if isinstance(t, (ast.Tuple, ast.List)):
            out = set()
            for e in t.elts:
                out |= targets(e)
            return out
        b = base(t)
        return {b.id} if isinstance(b, ast.Name) else set()
    changed = True
    while changed:
        changed = False
        for n in walk_own(f.node):
            pairs = []
            if isinstance(n, ast.Assign):
                for t in n.targets:
                    pairs.append((targets(t), n.value))
            elif isinstance(n, (ast.AnnAssign, ast.AugAssign)) and n.value is not None:
                pairs.append((targets(n.target), n.value))
            elif isinstance(n, (ast.For, ast.comprehension)):
                pairs.append((targets(n.target), n.iter))
            elif isinstance(n, ast.NamedExpr):
                pairs.append(({n.target.id}, n.value))
            elif isinstance(n, ast.Call) and isinstance(n.func, ast.Attribute) and n.func.attr in ('append', 'extend', 'update', 'setdefault', 'insert', 'add'):
                b = base(n.func.value)
                if isinstance(b, ast.Name):
                    for a in list(n.args) + [k.value for k in n.keywords]:
                        pairs.append(({b.id}, a))
            for names, v in pairs:
                if not names or names <= T:
                    continue
                if is_seed(v) or (astq.names_in(v) & T):
                    T |= names
                    changed = True
    return T


def bounds_rows_match_files(P, R, reader, perform):
    """C12.j (D31).  _common_metadata holds one bounds row per file of the dataset AS WRITTEN.  The loader is handed whatever set of files is being read - the
    whole directory, or one part file out of a glob / list - and finds the metadata through the parent directory of the first file, so the table it reads can
    describe other files than the ones read.  Rows are matched with partitions by position: the table may only be reported when a comparison of its row count
    with the number of files read stands between the metadata and the caller (or the rows are selected by file)."""
    rm = P.func(PQ, '_read_metadata')

    def calls(f, target):
        # a call of `target`, or of a repository helper that (transitively) calls it: the metadata read may live in a helper of the loader
        def hit(c):
            if astq.is_call_to(P, f, c, target):
                return True
            r = P.resolve_call(f, c)
            return bool(r and r[0] == 'func' and r[1] is not f and astq.performs(P, r[1], lambda c2, g: astq.is_call_to(P, g, c2, target), depth=3))
        return lambda v: any(isinstance(c, ast.Call) and hit(c) for c in ast.walk(v))
    found, selected, seen = [], [], 0
    for f, seed in ((reader, calls(reader, rm)), (perform, calls(perform, reader))):
        T = _flow_names(f, seed)
        if not T:
            continue
        seen += 1

        def env(node):
            """comprehension / loop targets in scope of `node` -> their iterables, so that `len(b) for b in tables.values()` is read as a length of `tables`"""
            out, p_ = {}, getattr(node, '_parent', None)
            while p_ is not None and p_ is not f.node:
                gens = p_.generators if isinstance(p_, (ast.GeneratorExp, ast.ListComp, ast.SetComp, ast.DictComp)) else ([p_] if isinstance(p_, ast.For) else [])
                for g_ in gens:
                    for x in ast.walk(g_.target):
                        if isinstance(x, ast.Name):
                            out.setdefault(x.id, g_.iter)
                p_ = getattr(p_, '_parent', None)
            return out

        def side(f, e, en):
            ex = astq.expand(f, e)
            names = set(astq.names_in(ex))
            txt = norm(ex)
            for nm in list(names):
                if nm in en:
                    names |= astq.names_in(en[nm])
                    txt += ' ' + norm(astq.expand(f, en[nm]))
            return names, txt
        for c in ast.walk(f.node):
            if isinstance(c, ast.Compare) and len(c.ops) == 1 and isinstance(c.ops[0], (ast.Eq, ast.NotEq, ast.Lt, ast.Gt, ast.LtE, ast.GtE)):
                en = env(c)
                a, b = side(f, c.left, en), side(f, c.comparators[0], en)
                for x, y in ((a, b), (b, a)):
                    counts = any(k in x[1] for k in ('len(', '.shape', '.size', 'count'))
                    if (x[0] & T) and counts and any(k in y[1] for k in FILE_TOKENS) and not any(k in x[1] for k in FILE_TOKENS):
                        found.append((f, c))
            # rows picked per file: the table subscripted / re-indexed with something computed from the files
            if isinstance(c, ast.Subscript) or (isinstance(c, ast.Call) and isinstance(c.func, ast.Attribute) and c.func.attr in ('take', 'reindex', 'loc', 'iloc')):
                holder = c.value if isinstance(c, ast.Subscript) else c.func.value
                idx = c.slice if isinstance(c, ast.Subscript) else (c.args[0] if c.args else None)
                if idx is not None and (astq.names_in(holder) & T):
                    en = env(c)
                    if any(k in side(f, idx, en)[1] for k in FILE_TOKENS):
                        selected.append((f, c))
    if not seen:
        raise AnalysisError('C12.j: the metadata read feeding the bounds tables was not found')
    if found:
        f, c = found[0]
        R.ok('C12.j', f, c, 'the bounds table of a dataset is reported only when it has one row per file read', construct='rows of the metadata table vs files read')
    elif selected:
        f, c = selected[0]
        R.ok('C12.j', f, c, 'the rows of the bounds table are selected by the files read', construct='rows of the metadata table vs files read')
    else:
        rets_ = [r_ for r_ in walk_own(reader.node) if isinstance(r_, ast.Return)]
        R.bad('C12.j', reader, rets_[-1] if rets_ else None, f'{reader.name} reads the bounds table from the _common_metadata next to the FIRST file it is given and reports it whatever files are being read: '
              'for a glob or list of part files every file read gets the whole table of the dataset (16 rows for 4 partitions), row i no longer describes partition i, and cx / bounds= '
              'prune on the extents of other files or fail', construct='rows of the metadata table vs files read')


def _enclosing_if_test(node):
    n = getattr(node, '_parent', None)
    child = node
    while n is not None and not isinstance(n, (ast.FunctionDef, ast.Lambda)):
        if isinstance(n, ast.If) and any(child is s or _contains(s, child) for s in n.body):
            return n.test
        child = n
        n = getattr(n, '_parent', None)
    return None


def _contains(root, node):
    return any(x is node for x in ast.walk(root))


_PROG = None


def _eval_filter_concrete(R, f, stmts, mask_name, src, why):
    """The mask is not a pure comparison (arithmetic on the extents, clip, ...): evaluate it concretely (E-VEC) for one partition at a time, every extent
    lo <= hi and every box (both corner orders) over {0, 1, 2} on both axes - ties and degenerate extents included - against closed overlap."""
    import itertools as _it
    import veceval
    P = _PROG
    # backward slice: only the statements the mask depends on (the table of extents itself is an input)
    def _assigned(st):
        out = set()
        for x in ast.walk(st):
            if isinstance(x, ast.Name) and isinstance(x.ctx, ast.Store):
                out.add(x.id)
        return out
    needed, keep = {mask_name}, []
    for st in reversed(stmts):
        asg = _assigned(st)
        if asg & needed and 'partitions_df' not in asg:
            keep.append(st)
            needed |= astq.names_in(st)
    stmts = list(reversed(keep))
    vals = (0, 1, 2)
    bad, total = [], 0
    for ex0, ex1, ey0, ey1 in _it.product(vals, repeat=4):
        if ex0 > ex1 or ey0 > ey1:
            continue
        for qx0, qx1, qy0, qy1 in _it.product(vals, repeat=4):
            total += 1
            df = veceval.Stub()
            df.x0, df.x1, df.y0, df.y1 = float(ex0), float(ex1), float(ey0), float(ey1)
            env = {src: (float(qx0), float(qy0), float(qx1), float(qy1)), 'partitions_df': df, 'load_divisions': False}
            ev = veceval.VecEval(P, f, env, 1)
            try:
                ev.block(stmts)
            except veceval.Unsupported as e_:
                raise AnalysisError(f'C12.d: mask could not be evaluated ({why}; concrete evaluation: {e_})')
            except veceval.Returned:
                raise AnalysisError('C12.d: return inside the filter fragment')
            got = ev.env.get(mask_name)
            if isinstance(got, list) or got is None:
                raise AnalysisError(f'C12.d: mask could not be evaluated ({why})')
            lx, hx, ly, hy = min(qx0, qx1), max(qx0, qx1), min(qy0, qy1), max(qy0, qy1)
            want = not (ex1 < lx or ex0 > hx or ey1 < ly or ey0 > hy)
            if bool(got) != want:
                bad.append({'extent (x0, y0, x1, y1)': (ex0, ey0, ex1, ey1), 'box': (qx0, qy0, qx1, qy1), 'kept': bool(got), 'overlaps': want})
    R.count('orderings', total)
    R.exhaustive_sites['C12.d bounds filter (concrete, extents and boxes over {0,1,2})'] = True
    if bad:
        lost = [b for b in bad if b['overlaps'] and not b['kept']]
        R.bad('C12.d', f, stmts[-1], f'partition filter differs from closed overlap on {len(bad)} of {total} extent/box pairs ({len(lost)} lose an overlapping partition: a box that only touches an '
              f'extent, or an extent without width), e.g. {bad[0]}', construct=norm(stmts[-1]), counterexamples=bad[:5])
    else:
        R.ok('C12.d', f, stmts[-1], f'kept <=> recorded extent overlaps the closed, re-oriented box on all {total} extent/box pairs (concrete evaluation)', construct=norm(stmts[-1]))


def _eval_filter(R, f, stmts, mask_name, tier):
    """Exhaustive order-type evaluation of the re-orientation + overlap mask: per axis symbols (qa, qb, e.lo, e.hi)."""
    # find the unpack statement `a, b, c, d = bounds`
    unpack = None
    for s in stmts:
        if isinstance(s, ast.Assign) and isinstance(s.targets[0], ast.Tuple) and len(s.targets[0].elts) == 4 and isinstance(s.value, ast.Name):
            unpack = s
    if unpack is None:
        raise AnalysisError('C12.d: `x0, y0, x1, y1 = bounds` unpacking not found')
    src = unpack.value.id
    per_axis = []
    for o in ordeval.orderings(4):
        qa, qb, lo, hi = o
        if lo > hi:
            continue
        per_axis.append((qa, qb, lo, hi, False))
    for o in ordeval.orderings(2):
        per_axis.append((o[0], o[1], None, None, True))
    bad = []
    n_eval = 0
    post_bad = []
    for ax in per_axis:
        for ay in per_axis:
            n_eval += 1
            X = dict(qa=Sym(ax[0], 'x_a', 'X'), qb=Sym(ax[1], 'x_b', 'X'), lo=Sym(ax[2], 'e.x0', 'X'), hi=Sym(ax[3], 'e.x1', 'X'))
            Y = dict(qa=Sym(ay[0], 'y_a', 'Y'), qb=Sym(ay[1], 'y_b', 'Y'), lo=Sym(ay[2], 'e.y0', 'Y'), hi=Sym(ay[3], 'e.y1', 'Y'))
            env = {src: Row([X['qa'], Y['qa'], X['qb'], Y['qb']])}
            cols = {'x0': X['lo'], 'y0': Y['lo'], 'x1': X['hi'], 'y1': Y['hi']}

            def attr(I, e, cols=cols):
                if e.attr in cols:
                    return cols[e.attr]
                return None

            def sub(I, e, base, cols=cols):
                k = e.slice
                if isinstance(k, ast.Constant) and k.value in cols:
                    return cols[k.value]
                return None
            try:
                I, ctl = ordeval.run_fragment(stmts, env, {'attr': attr, 'subscript': sub, 'opaque_test': lambda I, n: False})
            except ordeval.AxisMismatch as e:
                R.bad('C12.d', f, e.node, f'comparison mixes axes: {e.a.name} with {e.b.name}')
                return
            except ordeval.NotComparisonOnly as e:
                return _eval_filter_concrete(R, f, stmts, mask_name, src, f'not comparison-only: {e}')
            got = I.env.get(mask_name)
            if got is OPQ or got is None:
                return _eval_filter_concrete(R, f, stmts, mask_name, src, 'the mask is computed, not compared')

            def overlap(a):
                if a[4]:
                    return None
                l, h = min(a[0], a[1]), max(a[0], a[1])
                return not (a[3] < l or a[2] > h)
            ox, oy = overlap(ax), overlap(ay)
            if ox is None or oy is None:
                # NaN extent: if the other axis is definitely disjoint the partition must be dropped? A NaN extent holds no
                # rows with coordinates: keeping or dropping it loses nothing.
                continue
            want = ox and oy
            if bool(got) != want:
                bad.append({'x(qa,qb,lo,hi)': ax[:4], 'y(qa,qb,lo,hi)': ay[:4], 'kept': bool(got), 'overlaps': want})
    R.count('orderings', n_eval)
    R.exhaustive_sites['C12.d bounds filter'] = True
    R.sample({'site': 'C12.d', 'orderings_evaluated': n_eval, 'per_axis_cases': len(per_axis), 'spec': 'kept <=> extent overlaps closed re-oriented box on both axes'})
    if bad:
        lost = [b for b in bad if b['overlaps'] and not b['kept']]
        R.bad('C12.d', f, stmts[-1], f'partition filter differs from closed overlap on {len(bad)} of {n_eval} orderings '
              f'({len(lost)} lose an overlapping partition), e.g. {bad[0]}', construct=norm(stmts[-1]), counterexamples=bad[:5])
    else:
        R.ok('C12.d', f, stmts[-1], f'kept <=> recorded extent overlaps the closed, re-oriented box on all {n_eval} orderings (both corner orders)',
             construct=norm(stmts[-1]))
