"""C14 — length, area and boundary are the exact measures of each element.

 C14.a  dimensions: length accumulates sqrt(dX^2 + dY^2) of consecutive vertices of one part, guarded by isfinite of all four
        coordinates; area accumulates X * dY terms and is halved; reads stay inside the ring; the sum over parts is never left early.
 C14.b  nesting: _geometry_map_nested{1,2,3} is used by the class whose _nesting_levels is 1,2,3; the offsets handed to the measure
        function are the innermost level restricted to element i (composed level by level, +1 on the element index); stores are
        guarded by `not missing[i]` and the result is pre-filled with NaN.
 C14.c  table and public dimensions: point/multipoint length 0 and area 0, line/ring/multiline area 0; otherwise the inferred unit of
        the public result is Len for length and X*Y for area; scalar and array forms use the same kernel with the element's innermost
        (per-ring) offsets.
 C14.i  sibling agreement: every kind measures a part with the same length kernel and the same area kernel (resolved through the public methods).
 C14.d  boundary re-wraps the same value buffer with ring-level offsets composed correctly; the outermost re-wrap carries the validity mask.
Does not decide: that the shoelace/wrap-around formula is right, degenerate-ring threshold, floating-point accuracy.
"""
import ast

import astq
from units import Interp, Vals, Tup, Q, Rows, Const, Arr, Off, OffC, ArrowArr, Obj
from model import walk_own, AnalysisError, full as norm
from rules import geom, common

EXPLANATION = (
    'Units/dimension abstract interpretation of length / area / boundary for all kinds, scalar and array forms: the public results are inferred to be '
    'Len (sqrt of dX^2+dY^2) and X*Y; offsets handed to the measure kernels are typed by level (innermost, restricted to the element, fenceposts), '
    'ListArray.from_arrays re-wraps are typed level by level with their validity mask; syntactic rules cover the isfinite guard, the missing guard, the NaN '
    'prefill, halving, and "no return inside the per-part loop".')

MEAS = 'spatialpandas.geometry._algorithms.measures'
ZERO = {('multipoint', 'length'), ('multipoint', 'area'), ('line', 'area'), ('ring', 'area'), ('multiline', 'area'), ('point', 'length'), ('point', 'area')}
DIM = {'length': {'L': 1}, 'area': {'X': 1, 'Y': 1}}


def measure_kernels(P):
    """The per-element measure functions of the resolved program: {'length': {FuncInfo: [sites]}, 'area': {...}} — every repository function of
    the measures module that a public `length` / `area` (array or scalar form) calls directly or hands to a map kernel."""
    out = {'length': {}, 'area': {}}
    for ci in P.classes.values():
        if not ci.mod.name.startswith(geom.G):
            continue
        for attr in ('length', 'area'):
            for key, g in ci.mod.funcs.items():
                if g.cls is not ci or g.name != attr:
                    continue
                work, seen = [g], set()
                while work:
                    h = work.pop()
                    if h.key in seen:
                        continue
                    seen.add(h.key)
                    for c in astq.own_calls(h):
                        r = P.resolve_call(h, c)
                        cands = []
                        if r and r[0] == 'func':
                            if r[1].mod.name == MEAS:
                                cands.append(r[1])
                            elif r[1].cls is not None and r[1].mod.name.startswith(geom.G) and r[1].name not in ('__init__',) and not r[1].name.startswith('buffer_'):
                                work.append(r[1])        # helper methods of the geometry classes (`self._map_measure(kernel)`)
                        for a_ in list(c.args) + [k.value for k in c.keywords]:
                            if isinstance(a_, ast.Name):
                                ra = P.resolve_expr_static(h.mod, a_, local=h)
                                if ra and ra[0] == 'func' and ra[1].mod.name == MEAS:
                                    cands.append(ra[1])
                        for k_ in cands:
                            out[attr].setdefault(k_, []).append((g, c))
    return out


def _unwrap(P, k):
    """A kernel whose whole body is `return other(<its own parameters>)` is that other kernel."""
    seen = set()
    while k.key not in seen:
        seen.add(k.key)
        body = astq.real([s_ for s_ in k.node.body if not (isinstance(s_, ast.Expr) and isinstance(s_.value, ast.Constant))])
        if len(body) == 1 and isinstance(body[0], ast.Return) and isinstance(body[0].value, ast.Call):
            r = P.resolve_call(k, body[0].value)
            if r and r[0] == 'func' and [norm(a_) for a_ in body[0].value.args] == list(k.params) and not body[0].value.keywords:
                k = r[1]
                continue
        break
    return k


def _const(P, f, e):
    """Integer value of an expression that is a literal or a module-level constant name."""
    if isinstance(e, ast.Name):
        t_ = astq.trace(f, e)
        e = t_ if isinstance(t_, ast.AST) else e
    if isinstance(e, ast.Constant) and isinstance(e.value, (int, float)) and not isinstance(e.value, bool):
        return e.value
    if isinstance(e, ast.Name):
        r = P.resolve_global(f.mod, e.id)
        v_ = r[2] if r and r[0] == 'assign' else None
        v_ = getattr(v_, 'value', v_) if isinstance(v_, ast.Assign) else v_
        if isinstance(v_, ast.Constant) and isinstance(v_.value, (int, float)) and not isinstance(v_.value, bool):
            return v_.value
    return None


def _size_guards(P, f):
    """`if <count of values> < c: continue/return` guards of f: [(if-node, limit)] — parts with fewer than `limit` interleaved values are skipped."""
    out = []
    for s in ast.walk(f.node):
        if isinstance(s, ast.If) and isinstance(s.test, ast.Compare) and any(isinstance(x, (ast.Continue, ast.Return)) for x in s.body):
            for l_, op, r_ in astq.cmp_forms(s.test):
                c = _const(P, f, r_)
                if op in (ast.Lt, ast.LtE) and c is not None:
                    lhs = astq.trace(f, l_)
                    if isinstance(lhs, ast.BinOp) and isinstance(lhs.op, ast.Sub):
                        out.append((s, c if op is ast.Lt else c + 1))
    return out


def kernel_rules(P, R):
    mk = measure_kernels(P)
    R.floor('C14.a', 'length kernels found through the public length methods', len(mk['length']), 1)
    R.floor('C14.a', 'area kernels found through the public area methods', len(mk['area']), 1)
    R.floor('C14.a', 'public length/area sites that use a measure kernel', sum(len(v) for d in mk.values() for v in d.values()), 4)
    # C14.i sibling agreement: the boundary of a polygon is the multi-line of its rings, and its length is the polygon's length; all kinds
    # therefore measure a part with ONE length kernel (and one area kernel): two kernels that differ skip or count different parts
    for attr in ('length', 'area'):
        ks = {}
        for k_, sites in mk[attr].items():
            ks.setdefault(_unwrap(P, k_), []).extend(sites)
        major = max(ks, key=lambda k_: len(ks[k_]))
        for k_, sites in ks.items():
            for g, c in sites:
                R.check(k_ is major, 'C14.i', g, c, f'{g.qualname} measures its parts with the same {attr} kernel as every other kind ({major.name})',
                        f'{g.qualname} measures its parts with {k_.name} while the other kinds use {major.name}: the {attr} of a polygon and of its boundary / the '
                        f'same parts stored as another kind no longer agree', construct=f'{g.qualname} {attr} kernel')
    for attr in ('length', 'area'):
        for f in mk[attr]:
            loops = [s for s in f.node.body if isinstance(s, ast.For)]
            R.floor('C14.a', f'per-part loop in {f.name}', len(loops), 1)
            early = [s for l in loops for s in ast.walk(l) if isinstance(s, ast.Return)]
            R.check(not early, 'C14.a', f, early[0] if early else None, f'{f.name} sums over all parts (no return inside the per-part loop)',
                    f'{f.name} returns from inside the loop over parts: one degenerate/early part discards the contribution of all the others')
    for ll in mk['length']:
        # isfinite guard of the segment accumulation (helpers of the measures module are followed)
        fam = [g for g in P.reachable([ll], follow_nested=False) if g.mod.name == MEAS]
        acc = [(g, s) for g in fam for s in ast.walk(g.node) if isinstance(s, ast.AugAssign) and isinstance(s.op, ast.Add) and any(t in norm(s.value) for t in ('sqrt', 'hypot'))]
        R.floor('C14.a', f'segment accumulation in {ll.name}', len(acc), 1, defer=True)
        for g, s in acc:
            used = astq.names_in(s.value) - {'sqrt', 'np', 'math', 'hypot'}
            q = s
            guard = None
            while getattr(q, '_parent', None) is not None:
                q = q._parent
                if isinstance(q, ast.If) and 'isfinite' in norm(q.test):
                    guard = q
                    break
            ok = guard is not None and all(f'isfinite({n})' in norm(guard.test) for n in used)
            R.check(ok, 'C14.a', g, s, 'each segment is counted only when all four coordinates are finite', f'segment accumulation is not guarded by isfinite of {sorted(used)}: a NaN vertex poisons the length')
        # a part with two vertices (4 interleaved values) has a length: a size guard of a length kernel may only skip parts with fewer
        for g in fam:
            for gd, limit in _size_guards(P, g):
                R.check(limit <= 4, 'C14.a', g, gd.test, 'a length kernel skips only parts with fewer than 2 vertices',
                        f'the guard `{norm(gd.test)}` of the length kernel {g.name} skips parts with fewer than {limit} interleaved values: a 2-vertex part (4 values: a segment, or a '
                        'ring that goes out and back) has a length, and the same part measured through the boundary / as a line still counts it')
    for ar in mk['area']:
        # degenerate rings (< 3 vertices) contribute 0: the guard compares a count of interleaved VALUES, so the threshold is 2 * 3
        guards = _size_guards(P, ar)
        for gd, limit in guards:
            R.check(limit >= 6, 'C14.a', ar, gd.test, 'rings with fewer than 3 vertices (6 interleaved values) are skipped before the wrap-around term',
                    f'the degenerate-ring guard `{norm(gd.test)}` skips rings with fewer than {limit} interleaved coordinate values: a 2-vertex ring (4 values) reaches the wrap-around term '
                    f'and gets a spurious area x0*(y1-y0)/2')
        R.check(bool(guards), 'C14.a', ar, None, f'{ar.name} has a degenerate-ring guard', f'{ar.name} has no degenerate-ring guard: the wrap-around term reads values[start+3] / values[stop-3] of rings with fewer than 3 vertices',
                construct='degenerate ring guard', nontrivial=False)
        rets = [s for s in walk_own(ar.node) if isinstance(s, ast.Return)]
        ok = bool(rets) and all(isinstance(s.value, ast.BinOp) and isinstance(s.value.op, ast.Div) and norm(s.value.right) in ('2.0', '2') for s in rets)
        R.check(ok, 'C14.a', ar, rets[-1] if rets else None, 'the shoelace sum is halved', 'the shoelace sum is not halved')


def _guard_kinds(f, store):
    """Conjuncts under which `result[i] = ...` executes, classified: 'present' (not missing[i]), 'nonempty' (stop > start of
    element i), 'unknown'.  Recognises enclosing ifs (and-conjunctions) and a leading `if missing[i]: continue`."""
    idx = norm(store.targets[0].slice)
    cands = [p_ for p_ in f.params if any(k in p_.lower() for k in ('miss', 'isna', 'null', 'invalid'))]
    miss = cands[0] if cands else (f.params[4] if len(f.params) > 4 else 'missing')
    kinds = set()

    def classify(t, negate=False):
        if isinstance(t, ast.BoolOp) and isinstance(t.op, ast.And) and not negate:
            for v in t.values:
                classify(v)
            return
        if isinstance(t, ast.BoolOp) and isinstance(t.op, ast.Or) and negate:      # not (a or b) == not a and not b
            for v in t.values:
                classify(v, True)
            return
        if isinstance(t, ast.UnaryOp) and isinstance(t.op, ast.Not):
            return classify(t.operand, not negate)
        if norm(t) == f'{miss}[{idx}]':
            kinds.add('present' if negate else 'unknown')
            return
        if isinstance(t, ast.Compare) and len(t.ops) == 1:
            names = astq.names_in(t)
            defs = {n_: astq.unique_def(f, n_)[1] for n_ in names}
            if len(names) == 2 and all(isinstance(d, ast.Subscript) for d in defs.values()):
                # both sides are offsets of element i / i + 1
                subs = sorted(norm(d.slice) if not isinstance(d.slice, ast.Subscript) else norm(d.slice.slice) for d in defs.values())
                if subs == sorted([idx, f'{idx} + 1']):
                    op = type(t.ops[0])
                    lo = [n_ for n_, d in defs.items() if (norm(d.slice) if not isinstance(d.slice, ast.Subscript) else norm(d.slice.slice)) == idx][0]
                    left_is_lo = norm(t.left) == lo
                    strict = (op is ast.Lt and left_is_lo) or (op is ast.Gt and not left_is_lo) or op is ast.NotEq
                    empty = op is ast.Eq or (op is ast.GtE and left_is_lo) or (op is ast.LtE and not left_is_lo)
                    if (strict and not negate) or (empty and negate):
                        kinds.add('nonempty')
                        return
        kinds.add('unknown')

    g = store
    top = store
    while getattr(g, '_parent', None) is not None and not isinstance(g._parent, ast.FunctionDef):
        par = g._parent
        if isinstance(par, ast.If):
            if g in par.body:
                classify(par.test)
            else:
                classify(par.test, True)
        if isinstance(par, (ast.For, ast.While)):
            top = g
            # leading `if <cond>: continue` statements before the store's statement
            for st in par.body:
                if st is top:
                    break
                if isinstance(st, ast.If) and astq.real(st.body) and isinstance(astq.real(st.body)[0], ast.Continue) and not st.orelse:
                    classify(st.test, True)
            break
        g = par
    return kinds


MAP_GUARDS = {}


def map_kernels(P, R):
    BL = 'spatialpandas.geometry.baselist'
    kernels = [(int(g.name[-1]) if g.name[-1].isdigit() else None, g) for g in P.mods[BL].funcs.values()
               if g.name.startswith('_geometry_map') and P.is_jit(g) and len(g.params) >= 5]
    # ... and whatever the public length / area methods actually call with (fn, result, values, offsets, missing), jitted or not
    seen_k = {g for _, g in kernels}
    for ci in P.classes.values():
        if not ci.mod.name.startswith(geom.G):
            continue
        for g in ci.mod.funcs.values():
            if g.cls is not ci or g.name not in ('length', 'area'):
                continue
            work, seen = [g], set()
            while work:
                h = work.pop()
                if h.key in seen:
                    continue
                seen.add(h.key)
                for c in astq.own_calls(h):
                    r = P.resolve_call(h, c)
                    if r and r[0] == 'func':
                        if r[1].mod.name == BL and r[1].cls is None and len(r[1].params) >= 5 and r[1] not in seen_k and len(c.args) >= 5:
                            seen_k.add(r[1])
                            kernels.append((int(r[1].name[-1]) if r[1].name[-1].isdigit() else None, r[1]))
                        elif r[1].cls is not None and r[1].mod.name.startswith(geom.G) and not r[1].name.startswith('buffer_') and r[1].name != '__init__':
                            work.append(r[1])
    if not kernels:
        raise AnalysisError(f'function {BL}:_geometry_map_nested* not found (anchor vanished)')
    map_kernel_coverage(P, R, kernels)
    for n, f in kernels:
        for x in ast.walk(f.node):
            for ch in ast.iter_child_nodes(x):
                ch._parent = x
        stores = [s for s in ast.walk(f.node) if isinstance(s, ast.Assign) and isinstance(s.targets[0], ast.Subscript) and norm(s.targets[0].value) == f.params[1]]
        R.floor('C14.b', f'result stores in {f.name}', len(stores), 1)
        kinds_all = None
        for s in stores:
            kinds = _guard_kinds(f, s)
            kinds_all = kinds if kinds_all is None else (kinds_all | kinds)
            R.check('present' in kinds, 'C14.b', f, s, 'the measure of element i is stored only when element i is not missing (result keeps its prefill otherwise)',
                    f'`{norm(s)}` is not guarded by `not missing[i]`: a missing element gets a number instead of NaN')
        MAP_GUARDS[f.name] = kinds_all or set()
        asserts = [s for s in f.node.body if isinstance(s, ast.Assert)]
        depth = None
        for a in asserts:
            t = a.test
            if isinstance(t, ast.Compare) and 'len(' in norm(t.left) and isinstance(t.comparators[0], ast.Constant):
                depth = t.comparators[0].value
        if n is not None:
            R.check(depth == n, 'C14.b', f, asserts[0] if asserts else None, f'{f.name} handles exactly {n} offset level(s)', f'{f.name} asserts depth {depth}', nontrivial=False)


def map_kernel_coverage(P, R, kernels):
    """C14.b (bounded): every row is visited: a map kernel run by E-VEC with a stand-in measure function stores a value for EVERY non-missing row and for no
    missing row, for row counts 0..3 and around every integer constant used by the kernel and its helpers (block sizes: K-1, K, K+1, 2K-1, 2K+1, 3K-5)."""
    import veceval
    nan = float('nan')
    for n_lv, f in kernels:
        consts = set()
        seen = set()
        stack = [f]
        while stack:
            g = stack.pop()
            if g.key in seen:
                continue
            seen.add(g.key)
            for x in ast.walk(g.node):
                if isinstance(x, ast.Constant) and isinstance(x.value, int) and not isinstance(x.value, bool) and 8 <= x.value <= 4096:
                    consts.add(x.value)
                if isinstance(x, ast.Name):
                    for a in g.mod.tree.body:
                        if isinstance(a, ast.Assign) and isinstance(a.targets[0], ast.Name) and a.targets[0].id == x.id and isinstance(a.value, ast.Constant) \
                                and isinstance(a.value.value, int) and 8 <= a.value.value <= 4096:
                            consts.add(a.value.value)
            stack.extend(h for _, h in P.callees(g))
        sizes = {0, 1, 2, 3, 5}
        for k in consts:
            sizes |= {k - 1, k, k + 1, 2 * k - 1, 2 * k + 1, 3 * k - 5}
        sizes = sorted(x for x in sizes if 0 <= x <= 13000)
        levels = n_lv if n_lv is not None else 2
        bad, undec = [], None
        for n in sizes:
            for miss_every in (0, 3):
                missing = [(miss_every and i % miss_every == 1) for i in range(n)]
                offs = tuple(list(range(0, n + 1)) for _ in range(levels))
                result = [nan] * n
                env = dict(zip(f.params, [lambda v, o: 1.0, result, [0.0] * 4, offs, missing]))
                if len(f.params) != 5:
                    undec = 'kernel signature'
                    break
                ev = veceval.VecEval(P, f, env, n)
                try:
                    ev.block(f.node.body)
                except veceval.Returned:
                    pass
                except veceval.Unsupported as e_:
                    undec = str(e_)
                    break
                except (IndexError, TypeError, ValueError) as e_:
                    bad.append({'rows': n, 'error': type(e_).__name__})
                    continue
                wrong = [i for i in range(n) if (result[i] == 1.0) == bool(missing[i])]
                if wrong:
                    bad.append({'rows': n, 'missing_every': miss_every, 'rows_without_value_or_wrongly_stored': wrong[:4] + (['...'] if len(wrong) > 4 else []), 'count': len(wrong)})
            if undec:
                break
        if undec:
            R.abstain('C14.b', f, None, f'{f.name}: row coverage not evaluated ({undec})', construct=f'{f.name}: every row visited')
            continue
        R.exhaustive_sites[f'C14.b {f.name} row coverage for row counts {sizes[:6]}...{sizes[-3:]}'] = True
        R.check(not bad, 'C14.b', f, None, f'{f.name} stores a value for every non-missing row and for no missing row (row counts {sizes[0]}..{sizes[-1]}, {len(sizes)} sizes)',
                f'{f.name} leaves rows without a value (they keep the NaN prefill) or stores missing rows: {bad[:3]}', construct=f'{f.name}: every row visited', counterexamples=bad[:4])


def _prefill_kind(P, caller, d):
    """'nan' | 'zero_measure' (0 where present, NaN where missing) | 'zeros' | None"""
    if not isinstance(d, ast.Call):
        return None
    t = norm(d)
    if norm(d.func) in ('np.full', 'numpy.full') and len(d.args) >= 2 and norm(d.args[1]) in ('np.nan', 'numpy.nan') and 'len(self)' in norm(d.args[0]):
        return 'nan'
    if norm(d.func) in ('np.zeros', 'numpy.zeros') and d.args and 'len(self)' in norm(d.args[0]):
        return 'zeros'
    if isinstance(d.func, ast.Attribute) and norm(d.func.value) == 'self' and caller.cls is not None:
        c2, m2 = P.lookup(caller.cls, d.func.attr)
        if m2 is not None and m2[0] == 'func':
            h = m2[1]
            z = any(isinstance(x, ast.Assign) and norm(x.value).startswith('np.zeros(len(self)') for x in walk_own(h.node))
            nn = any(isinstance(x, ast.Assign) and isinstance(x.targets[0], ast.Subscript) and 'isna()' in norm(x.targets[0].slice) and 'nan' in norm(x.value) for x in walk_own(h.node))
            if z and nn:
                return 'zero_measure'
            if z:
                return 'zeros'
            hr = [x for x in walk_own(h.node) if isinstance(x, ast.Return) and x.value is not None]
            if len(hr) == 1:
                return _prefill_kind(P, h, astq.expand(h, hr[0].value))
    return None


def _check_prefill(P, R, caller, node, kernel_name):
    g, d = astq.unique_def(caller, node.args[1].id) if isinstance(node.args[1], ast.Name) else (None, None)
    kind = _prefill_kind(P, caller, d)
    guards = MAP_GUARDS.get(kernel_name, set())
    where = d if isinstance(d, ast.AST) else node
    if kind is None:
        R.bad('C14.b', caller, where, 'the result is not pre-filled with NaN per element', construct=f'{caller.qualname} prefill')
        return
    # final value of element i = fn(...) when stored, else the prefill; wanted: NaN if missing, fn (0 for an element without parts) otherwise
    if kind == 'zeros':
        R.bad('C14.b', caller, where, 'the result is pre-filled with 0 for every element: a missing element (never stored) reports 0 instead of NaN', construct=f'{caller.qualname} prefill')
    elif 'nonempty' in guards and kind == 'nan':
        R.bad('C14.b', caller, where, f'{kernel_name} skips elements without parts, and the result is pre-filled with NaN: an empty (not missing) element reports NaN instead of 0',
              construct=f'{caller.qualname} prefill')
    elif 'unknown' in guards and kind == 'nan':
        R.abstain('C14.b', caller, where, f'{kernel_name} stores under a condition the analysis does not classify; whether skipped present elements keep a correct prefill is not decided', construct=f'{caller.qualname} prefill')
    else:
        R.ok('C14.b', caller, where, 'the prefill gives NaN to missing elements and every present element is stored (or keeps a 0 prefill when it has no parts)' if kind != 'nan'
             else 'the result is pre-filled with NaN, one slot per element, and every present element is stored', construct=f'{caller.qualname} prefill')


def run(P, R, tier):
    R.assume('S1/S2: Arrow buffer layout, x/y interleaving')
    kernel_rules(P, R)
    map_kernels(P, R)
    common.no_fastmath(P, R, 'C14.h', ['spatialpandas.geometry._algorithms.measures', 'spatialpandas.geometry.baselist'])
    common.nan_buffers(P, R, 'C14.g', ['spatialpandas.geometry.' + m for m in ('base', 'baselist', 'basefixed', 'point', 'multipoint', 'line', 'multiline', 'ring', 'polygon', 'multipolygon', '_algorithms.measures')], floor=1)
    I = Interp(P)
    seen = set()
    n_entries = 0
    # arrays
    for mod, cls, L in geom.ARRAYS:
        a = geom.array(P, mod, cls, L)
        site = (f'spatialpandas/geometry/{mod}.py', cls)
        ci = a.cls
        for attr in ('length', 'area'):
            ev0 = len(I.events)
            v = geom.get(I, a, attr, f'{cls}.{attr}')
            n_entries += 1
            geom.flush(R, 'C14.b', I, seen, f'{cls}.{attr}')
            _check_measure(P, R, site, cls, mod, attr, v, array=True)
            # which map kernel, with which depth
            for kind, caller, node, payload in I.events[ev0:]:
                if kind == 'call' and payload[0].name.startswith('_geometry_map_nested') and caller is not None and caller.name == attr:
                    depth = int(payload[0].name[-1])
                    R.check(depth == L, 'C14.b', caller, node, f'{cls}.{attr} uses the depth-{depth} map kernel for its {L} offset level(s)',
                            f'{cls}.{attr} uses {payload[0].name} although the array has {L} offset level(s)')
                    args = payload[1]
                    okp = len(args) >= 5 and isinstance(args[1], Arr) and isinstance(args[2], Vals) and args[2].base == 'abs' and isinstance(args[3], Tup) and len(args[3].items) == L
                    R.check(okp, 'C14.b', caller, node, 'the map kernel receives (result, whole value buffer, all offset levels, missing mask)',
                            f'the map kernel does not receive the whole value buffer with all {L} offset levels', nontrivial=False)
                    _check_prefill(P, R, caller, node, payload[0].name)
        if cls in ('PolygonArray', 'MultiPolygonArray'):
            ev0 = len(I.events)
            v = geom.get(I, a, 'boundary', f'{cls}.boundary')
            n_entries += 1
            geom.flush(R, 'C14.d', I, seen, f'{cls}.boundary')
            _check_boundary(P, R, site, cls, L, a, v, I.events[ev0:])
    # the public measure methods run their decorators' wrappers too (memoisation on the object hands one mutable result to all callers)
    meas = []
    for mod, cls, L in geom.ARRAYS:
        ci_ = P.cls(f'{geom.G}{mod}.{cls}')
        for attr in ('length', 'area', 'boundary'):
            c2, m2 = P.lookup(ci_, attr)
            if m2 is not None and m2[0] == 'func' and m2[1] not in meas:
                meas.append(m2[1])
    common.decorated_methods(P, R, 'C14.c', meas)
    common.forward(P, R, 'C13', ['C13.i'], 'C14.b', 'per-element reductions over offset segments (reduceat) repair the rows of elements without vertices', floor=0)
    # (S16) `pa.array(..., from_pandas=True)` turns NaN into null at EVERY nesting level: a NaN vertex inside a line becomes a null slot whose value is 0.0 in the
    # coordinate buffer, and the measure kernels (which read the raw buffer) route the line through the origin instead of breaking it at the NaN vertex
    R.assume('S16: pyarrow from_pandas=True converts NaN to null at every nesting level of the input')
    for f_ in P.all_funcs():
        if not f_.mod.name.startswith(geom.G) or isinstance(f_.node, ast.Lambda):
            continue
        for c_ in astq.own_calls(f_):
            fp = astq.arg_of(c_, kw='from_pandas')
            if fp is not None and norm(c_.func).split('.')[-1] in ('array', 'chunked_array', 'Array'):
                R.check(isinstance(fp, ast.Constant) and fp.value is False, 'C14.a', f_, c_, 'coordinates reach arrow as they are (NaN stays a NaN coordinate)',
                        f'`{norm(c_)[:70]}` builds the arrow data with from_pandas=True: NaN coordinates inside an element become nulls holding 0.0, so a line with a NaN vertex passes through '
                        'the origin for length / area instead of being broken there', construct=f'{f_.qualname}: from_pandas')
    common.forward(P, R, 'C16', ['C16.d'], 'C14.b', 'the missing mask of a derived array is read from its own validity bitmap (no cached mask of the source is carried over)', floor=5)
    common.forward(P, R, 'C16', ['C16.a'], 'C14.b', 'the missing mask the map kernels receive is the validity bitmap read for exactly the window of the array', floor=2)
    common.forward(P, R, 'C16', ['C16.g'], 'C14.c', 'the scalar an array hands out (indexing or iterating) measures like the array row: it is built from the element\'s own values and dtype', floor=1)
    # no measure without the kernel: every return of a length/area that has a kernel passes through it
    for f_ in meas:
        if f_.name in ('length', 'area') and any((lambda r: r and r[0] == 'func' and (r[1].name.startswith('_geometry_map_nested') or r[1].name.startswith('compute_')))(P.resolve_call(f_, c_))
                                                 for c_ in astq.own_calls(f_)):
            common.kernel_on_every_path(P, R, 'C14.c', f_, lambda g: g.name.startswith('_geometry_map_nested') or g.name.startswith('compute_'), 'the measure kernel',
                                        'the measure is answered by a shortcut (cached or assumed value) instead of being computed from the element\'s coordinates')
    # scalars
    for mod, cls, L in geom.SCALARS:
        s = geom.scalar(P, mod, cls, L)
        site = (f'spatialpandas/geometry/{mod}.py', cls)
        for attr in ('length', 'area'):
            ev0 = len(I.events)
            v = geom.get(I, s, attr, f'{cls}.{attr}')
            n_entries += 1
            geom.flush(R, 'C14.c', I, seen, f'{cls}.{attr}')
            _check_measure(P, R, site, cls, mod, attr, v, array=False)
            for kind, caller, node, payload in I.events[ev0:]:
                if kind == 'call' and payload[0].name in ('compute_line_length', 'compute_area') and caller is not None and caller.name == attr:
                    args = payload[1]
                    offs = args[1] if len(args) > 1 else None
                    want = 'compute_line_length' if attr == 'length' else 'compute_area'
                    R.check(payload[0].name == want, 'C14.c', caller, node, f'{cls}.{attr} uses {want}', f'{cls}.{attr} is wired to {payload[0].name}')
                    ok = isinstance(offs, Off) and offs.level == L - 1 and not getattr(offs, 'modified', False) and isinstance(args[0], Vals) and args[0].base == 'abs'
                    R.check(ok, 'C14.c', caller, node, f'{cls}.{attr}: the kernel receives the whole value buffer and the element\'s per-ring (innermost) offsets',
                            f'{cls}.{attr}: the kernel receives {offs!r:.90} — not the innermost (per ring/line) offsets of the element: rings are merged or dropped')
    geom.stats(R, I)
    R.floor('C14', 'entry points typed', n_entries, 26)
    # point kinds (no list buffers)
    for cn in ('Point', 'PointArray'):
        ci = P.cls(geom.G + 'point.' + cn)
        for attr in ('length', 'area'):
            f = ci.members[attr][1]
            rets = [s for s in walk_own(f.node) if isinstance(s, ast.Return)]
            def zero(v_):
                t_ = norm(v_)
                if t_ in ('0.0', '0') or t_.startswith('np.zeros(len(self)'):
                    return True, False
                if isinstance(v_, ast.Call) and isinstance(v_.func, ast.Attribute) and norm(v_.func.value) == 'self':
                    c2, m2 = P.lookup(ci, v_.func.attr)
                    if m2 is not None and m2[0] == 'func':
                        h = m2[1]
                        z = any(isinstance(x, ast.Assign) and norm(x.value).startswith('np.zeros(len(self)') for x in walk_own(h.node))
                        nn = any(isinstance(x, ast.Assign) and isinstance(x.targets[0], ast.Subscript) and 'isna()' in norm(x.targets[0].slice) and 'nan' in norm(x.value) for x in walk_own(h.node))
                        return z, nn
                return False, False
            zs = [zero(s.value) for s in rets]
            ok = bool(rets) and all(z for z, _ in zs)
            R.check(ok, 'C14.c', f, rets[0] if rets else None, f'{cn}.{attr} is 0', f'{cn}.{attr} is `{norm(rets[0].value) if rets else None}`, expected 0')
            if cn == 'PointArray':
                R.check(bool(zs) and all(nn for _, nn in zs), 'C14.c', f, rets[0] if rets else None, f'{cn}.{attr}: missing elements report NaN (like the kinds that have this measure)',
                        f'{cn}.{attr} reports 0.0 for missing elements: a missing element gives NaN for every other kind', construct=f'{cn}.{attr} missing -> NaN')


def _check_measure(P, R, site, cls, mod, attr, v, array):
    if (mod, attr) in ZERO:
        el = geom.unslot(v.el) if isinstance(v, Arr) else None
        ok = (isinstance(v, Const) and v.v == 0.0) or (isinstance(v, Arr) and (el is None or isinstance(el, Const)))
        R.check(ok, 'C14.c', site, None, f'{cls}.{attr} is identically 0 (NaN where missing)', f'{cls}.{attr} is {v!r:.80}, expected 0 for this kind', construct=f'{cls}.{attr} table')
        if array:
            ci_, mem_ = P.lookup(P.cls(f'{geom.G}{mod}.{cls}'), attr)
            f_ = mem_[1]
            rets = [s_ for s_ in walk_own(f_.node) if isinstance(s_, ast.Return)]
            okn = False
            for s_ in rets:
                if isinstance(s_.value, ast.Call) and isinstance(s_.value.func, ast.Attribute) and norm(s_.value.func.value) == 'self':
                    c2, m2 = P.lookup(P.cls(f'{geom.G}{mod}.{cls}'), s_.value.func.attr)
                    if m2 is not None and m2[0] == 'func':
                        h = m2[1]
                        okn = any(isinstance(x, ast.Assign) and isinstance(x.targets[0], ast.Subscript) and 'isna()' in norm(x.targets[0].slice) and 'nan' in norm(x.value)
                                  for x in walk_own(h.node))
                elif 'isna()' in norm(s_.value) and 'nan' in norm(s_.value):
                    okn = True
            R.check(okn, 'C14.c', f_, rets[0] if rets else None, f'{cls}.{attr}: missing elements report NaN (like the kinds that have this measure)',
                    f'{cls}.{attr} reports 0.0 for missing elements: a missing element gives NaN for every other kind', construct=f'{cls}.{attr} missing -> NaN')
        return
    q = geom.unslot(v.el) if isinstance(v, Arr) else v
    if not isinstance(q, Q):
        R.abstain('C14.c', site, None, f'{cls}.{attr}: unit of the public result could not be inferred ({v!r:.60})', construct=f'{cls}.{attr} unit')
        return
    R.check(q.dim == DIM[attr], 'C14.c', site, None, f'{cls}.{attr} has unit {"Len" if attr == "length" else "X*Y"} (inferred)',
            f'{cls}.{attr} has inferred unit {q.dim}, expected {DIM[attr]}: wired to the wrong kernel or dimensionally wrong formula', construct=f'{cls}.{attr} unit')
    if array:
        R.check(isinstance(v, Arr) and v.level == 0, 'C14.c', site, None, f'{cls}.{attr} has one value per element', f'{cls}.{attr} is indexed at level {getattr(v, "level", None)}',
                construct=f'{cls}.{attr} level', nontrivial=False)


def _check_boundary(P, R, site, cls, L, a, v, events):
    if not isinstance(v, Obj) or v.cls.name != 'MultiLineArray':
        R.bad('C14.d', site, None, f'{cls}.boundary is not a MultiLineArray ({v!r:.60})', construct=f'{cls}.boundary type')
        return
    data = v.fields.get('data')
    if cls == 'PolygonArray':
        R.check(data is a.fields['data'], 'C14.d', site, None, 'PolygonArray.boundary re-wraps the very same arrow array (rings = lines, missing stays missing)',
                'PolygonArray.boundary does not wrap self.data', construct='PolygonArray.boundary data')
        return
    fa = [e for e in events if e[0] == 'from_arrays']
    R.check(len(fa) == 2, 'C14.d', site, None, 'MultiPolygonArray.boundary re-wraps in two list levels (lines of rings)', f'MultiPolygonArray.boundary re-wraps in {len(fa)} level(s)', construct='boundary levels')
    if len(fa) == 2:
        (_, f1, n1, (o1, v1, m1)), (_, f2, n2, (o2, v2, m2)) = fa
        ok1 = isinstance(o1, Off) and o1.level == L - 1 and isinstance(v1, Vals) and v1.base == 'abs'
        R.check(ok1, 'C14.d', f1, n1, 'inner level: ring offsets over the whole value buffer', f'inner re-wrap uses {o1!r:.60} over {v1!r:.40}')
        ok2 = isinstance(o2, OffC) and o2.level == 0 and o2.to == L - 1 and o2.win
        R.check(ok2, 'C14.d', f2, n2, 'outer level: element offsets composed through the polygon level down to rings (windowed to the array)',
                f'outer re-wrap uses {o2!r:.80}: elements are not mapped to exactly their rings')
        R.check(m2 is not None, 'C14.d', f2, n2, 'the outermost re-wrap carries the validity mask (missing stays missing)',
                'the outermost re-wrap has no validity mask: a missing multipolygon becomes an empty multiline (length 0 instead of NaN)')
