"""C03 — R-tree queries return exactly the intersecting / covered boxes.

 C03.a  node pruning is sound: "outside" => node box disjoint from the closed query; "inside" => node box covered by it
        (exhaustive over weak orderings per dimension, n = 1..2 quick, 1..3 thorough; NaN nodes included).
 C03.b  leaf classification is exact: intersects emits a row <=> its box overlaps the closed query; covers_overlaps puts it in
        position 0 <=> covered, in position 1 <=> overlapping but not covered.
 C03.c  NaN rows: never emitted (neither from covered ranges nor from leaf pages); NaN never poisons the page / total
        reductions of the builder.
 C03.d  page rows, parent rows and total bounds are (min over lower bounds..., max over upper bounds...) per dimension.
 C03.e  builder and reader agree on leaf_start and on the key slice of every node (all tree depths <= 6 evaluated).
 C03.f  cursor discipline of the result buffers: every slice store out[c:c+len(s)] = s is followed on all paths by
        c += len(s) with the same s before the next store; the returned value is out[:c].
 C03.g  key slices, bounds slices and validity masks of one iteration use the same start:stop; stored rows are the input rows
        permuted by the stored keys.
Does not decide: disjointness of traversal ranges (inductive invariant), independence from p, exactly-once as a whole.
"""
import ast
import itertools

import astq
import cfg as cfgmod
import ordeval
from ordeval import Sym, Row, OPQ
from model import walk_own, AnalysisError, full as norm

EXPLANATION = (
    'Static analysis of spatialindex/rtree.py.  The node decision, the leaf masks, the covered-range emitters, the validity mask and the '
    'builder reductions are comparison/min/max-only fragments: each is interpreted (by the analyser, not by Python running the repository) '
    'once per weak ordering of (query lb, query ub, box lb, box ub) per dimension, with NaN as a distinguished value, and the resulting '
    'classification of the row (emitted to which output / pruned) is compared with the closed-box specification. Integer tree arithmetic '
    '(leaf_start, node -> key slice) is evaluated for every tree depth <= 6; cursor discipline is a CFG pairing rule.')

MOD = 'spatialpandas.spatialindex.rtree'


class Keys:
    """Abstract key slice holding the single row under consideration (sel = is the row still in it?)."""

    def __init__(self, sel=True):
        self.sel = sel

    def __repr__(self):
        return f'Keys({self.sel})'


def per_dim_cases(with_nan=True):
    cases = []
    for o in ordeval.orderings(4):
        qlb, qub, blb, bub = o
        if qlb > qub or blb > bub:
            continue
        cases.append((qlb, qub, blb, bub, False))
    if with_nan:
        cases.append((0, 1, None, None, True))
        cases.append((0, 0, None, None, True))
    return cases


def spec(case_dims):
    nan = any(c[4] for c in case_dims)
    disjoint = nan or any((c[3] < c[0] or c[2] > c[1]) for c in case_dims if not c[4])
    covered = (not nan) and all((c[2] >= c[0] and c[3] <= c[1]) for c in case_dims)
    return nan, disjoint, covered


def rows_for(case_dims):
    n = len(case_dims)
    q = [Sym(c[0], f'q.lb{d}', d) for d, c in enumerate(case_dims)] + [Sym(c[1], f'q.ub{d}', d) for d, c in enumerate(case_dims)]
    b = [Sym(c[2], f'b.lb{d}', d) for d, c in enumerate(case_dims)] + [Sym(c[3], f'b.ub{d}', d) for d, c in enumerate(case_dims)]
    return Row(q), Row(b)


def make_hooks(P, f, brow, interp_calls=True):
    """Hooks scalarising one row: self._bounds[...]/self._bounds_tree[...] -> the row; self._keys[...] -> Keys; masks index Keys."""
    emitted = {}

    def subscript(I, e, base):
        src = norm(e.value)
        if src.endswith('._bounds') or src.endswith('._bounds_tree') or src.endswith('._sorted_bounds'):
            return brow
        if src.endswith('._keys'):
            return Keys(True)
        if isinstance(base, Keys):
            m = I.expr(e.slice) if not isinstance(e.slice, ast.Slice) else True
            if m is OPQ:
                return OPQ
            if isinstance(m, bool):
                return Keys(base.sel and m)
            return OPQ
        if isinstance(base, Row) and isinstance(e.slice, ast.Tuple) and len(e.slice.elts) == 2 and isinstance(e.slice.elts[1], ast.Slice):
            return base
        return None

    def store(I, t, base, v):
        if isinstance(v, Keys):
            name = astq.names_in(t.value)
            key = norm(t.value)
            emitted[key] = emitted.get(key, False) or v.sel

    def call(I, e):
        fn = norm(e.func)
        if fn == 'len':
            v = I.expr(e.args[0])
            if isinstance(v, Keys):
                return OPQ
            return None
        if interp_calls and isinstance(e.func, ast.Attribute) and isinstance(e.func.value, ast.Name) and e.func.value.id == 'self' and f.cls is not None:
            ci, mem = P.lookup(f.cls, e.func.attr)
            if mem is not None and mem[0] == 'func' and not any(isinstance(x, ast.While) for x in ast.walk(mem[1].node)):
                g = mem[1]
                env = {'self': OPQ}
                for p_, a in zip(g.params if g.kind == 'staticmethod' else g.params[1:], e.args):
                    env[p_] = I.expr(a)
                sub = ordeval.Interp(env, I.hooks, I.check_axes)
                try:
                    sub.block(g.body)
                except ordeval.Ctl as c:
                    if c.kind == 'return':
                        return c.val if c.val is not None else OPQ
                return OPQ
        if fn in ('np.zeros', 'np.ones', 'np.full', 'np.empty') and e.args:
            # boolean masks scalarise to a bool; index/result buffers stay opaque
            dt = norm(e)
            if 'bool' in dt:
                return fn == 'np.ones'
            return OPQ
        return None

    def opaque_test(I, node):
        return False

    def attr(I, e):
        if e.attr == 'shape':
            base = I.expr(e.value)
            if isinstance(base, Row):
                return [OPQ, len(base.vals)]
        return None

    return {'subscript': subscript, 'store': store, 'call': call, 'opaque_test': opaque_test, 'attr': attr}, emitted


def run(P, R, tier):
    R.assume('S3: HilbertRtree rows and queries are (lb_0..lb_{n-1}, ub_0..ub_{n-1}); queries have lb <= ub')
    R.assume('S4: IEEE comparisons with NaN are false (numba nopython)')
    from rules import common as _common
    _common.no_fastmath(P, R, 'C03.h', ['spatialpandas.spatialindex'])
    # C03.j: the public wrappers answer with what the tree traversal returns (or with nothing): a shortcut that builds the answer itself
    # (np.arange(n) for a covering query, a cached array) bypasses the NaN-row filter and the exactly-once bookkeeping of the traversal
    for wname in ('intersects', 'covers_overlaps'):
        c_, mem_ = P.lookup(HR_, wname) if (HR_ := P.cls(f'{MOD}.HilbertRtree')) else (None, None)
        if mem_ is None or mem_[0] != 'func':
            raise AnalysisError(f'C03.j: HilbertRtree.{wname} not found')
        w = mem_[1]
        rets = [s_ for s_ in walk_own(w.node) if isinstance(s_, ast.Return) and s_.value is not None]
        R.floor('C03.j', f'returns of HilbertRtree.{wname}', len(rets), 1)
        for s_ in rets:
            e_ = astq.expand(w, s_.value)
            deleg = any(isinstance(x, ast.Call) and isinstance(x.func, ast.Attribute) and x.func.attr == wname and 'numba_rtree' in norm(x.func.value) for x in ast.walk(e_))
            parts = e_.elts if isinstance(e_, ast.Tuple) else [e_]
            empty = all(isinstance(x, ast.Call) and norm(x.func).split('.')[-1] in ('zeros', 'empty', 'array') and x.args and norm(x.args[0]) in ('0', '[]', '(0,)') for x in parts)
            R.check(deleg or empty, 'C03.j', w, s_, f'HilbertRtree.{wname} returns the traversal\'s answer (or an empty answer)',
                    f'`{norm(s_)}` answers without the tree traversal: rows with NaN boxes (missing / empty geometries) are not filtered out and are reported as intersecting / covered',
                    construct=f'HilbertRtree.{wname} delegates')
        # ... and the traversal is asked the caller's question: the query it receives is the wrapper's argument, converted element by element
        # (float / tuple / array), not clipped, widened or combined with anything the index knows (its extent, its page size)
        qp = w.params[1] if len(w.params) > 1 else None
        ALLOWED = {'float', 'tuple', 'list', 'np.asarray', 'np.array', 'np.ascontiguousarray', 'np.float64', 'int'}
        for x in [c for c in astq.own_calls(w) if isinstance(c.func, ast.Attribute) and c.func.attr == wname and 'numba_rtree' in norm(c.func.value) and c.args]:
            a_ = astq.expand(w, x.args[0])
            srcs = astq.sources(w, x.args[0]) - {'np', 'float', 'tuple', 'list', 'int'}
            calls = [norm(c.func) for c in ast.walk(a_) if isinstance(c, ast.Call) and not (isinstance(c.func, ast.Attribute) and c.func.attr in ('astype', 'tolist', 'ravel'))]
            loopvars = {g_.target.id for c in ast.walk(a_) if isinstance(c, (ast.GeneratorExp, ast.ListComp)) for g_ in c.generators if isinstance(g_.target, ast.Name)}
            ok = qp is not None and srcs - loopvars <= {qp} and all(c in ALLOWED for c in calls) and not any(isinstance(n_, ast.Attribute) and isinstance(n_.value, ast.Name) and n_.value.id == 'self'
                                                                                                               for n_ in ast.walk(a_))
            R.check(ok, 'C03.j', w, x, f'HilbertRtree.{wname} hands the caller\'s query to the traversal (element-wise conversion only)',
                    f'`{norm(x)[:90]}`: the query handed to the traversal is computed from {sorted(srcs - loopvars)} with {sorted(set(calls) - ALLOWED)}: a modified query box (clipped to the extent, '
                    'widened, reordered) classifies rows on the rim differently - a box disjoint from the data collapses onto its edge and "covers" the zero-extent rows there',
                    construct=f'HilbertRtree.{wname} query passed through')
    # C03.k: a query does not write the index object (its answer is allocated per call): otherwise an answer handed out earlier changes
    # when the next query runs
    qm = [m_[1] for cn_ in ('_NumbaRtree', 'HilbertRtree') for nm_, m_ in P.cls(f'{MOD}.{cn_}').members.items()
          if m_[0] == 'func' and nm_ in ('intersects', 'covers_overlaps', '_valid_mask', 'total_bounds', '_traverse', '_leaf_start', '_perform_traversal')]
    qm += [v_[1] for k_, v_ in P.cls(f'{MOD}._NumbaRtree').members.items() if v_[0] == 'func' and not k_.startswith('__') and v_[1] not in qm]
    _common.who_mutates(P, R, 'C03.k', qm, note=' (an answer handed out by an earlier query changes when the next query runs)')
    # GeometryArray.sindex (an observation point of this property): built on every row's bounds, in array order, never copied to derived arrays
    from rules import C04 as _C04
    _C04.sindex_writers(P, R, rule='C03.i')
    NR = P.cls(f'{MOD}._NumbaRtree')
    HR = P.cls(f'{MOD}.HilbertRtree')
    meth = {k: v[1] for k, v in NR.members.items() if v[0] == 'func'}
    for need in ('intersects', 'covers_overlaps'):
        if need not in meth:
            raise AnalysisError(f'C03: _NumbaRtree.{need} not found')
    # the query methods as a whole, by evaluation; the structural rules below (order-type evaluation of the node / leaf classification in up to 3 dimensions,
    # cursor discipline, pairing) add dimensions and diagnostics, but when the evaluation decided, a form they do not recognise is not an analysis error
    queries_decided = query_small_scope(P, R, NR, tier)

    def structural(fn, *a, **k):
        try:
            fn(*a, **k)
        except (AnalysisError, TypeError, KeyError, IndexError, AttributeError, ValueError) as e_:
            if not queries_decided:
                raise
            R.notes.append(f'structural query rule not applicable to the present form ({e_}); the query methods are decided by evaluation')
    # traversal function = the self.<m>(query) call whose result is unpacked into two names in both query methods
    trav = None
    for c in astq.own_calls(meth['intersects']):
        r = P.resolve_call(meth['intersects'], c)
        if r and r[0] == 'func' and r[1].cls is NR and isinstance(getattr(c, '_parent', None), ast.Assign) \
                and isinstance(c._parent.targets[0], ast.Tuple) and len(c._parent.targets[0].elts) == 2:
            trav = r[1]
    if trav is None and not queries_decided:
        raise AnalysisError('C03: traversal helper (covered ranges, candidate ranges) not found')
    dims = (1, 2, 3) if tier == 'thorough' else (1, 2)
    if trav is not None:
        structural(node_level, P, R, trav, dims)
        structural(leaf_level, P, R, meth['intersects'], trav, dims, kind='intersects')
        structural(leaf_level, P, R, meth['covers_overlaps'], trav, dims, kind='covers_overlaps')
    builder(P, R, HR)
    parent_union(P, R, HR.members['_build_hilbert_rtree'][1])
    tree_arith(P, R, HR, NR, meth)
    leaf_coverage(P, R, HR)
    build_totality(P, R, HR)
    # GeometryArray.sindex indexes `self.bounds`: an element without finite coordinates must arrive as a NaN box (the only thing the tree treats as "no box");
    # (inf, inf, -inf, -inf) passes the NaN tests and is reported as covered.  The bounds kernels are decided by C13's small-scope evaluation (called directly:
    # C13 forwards C03, a forward here would be a cycle)
    from rules import C13 as _C13
    sub13 = type(R)(R.prop, R.tier)
    try:
        _C13.kernel_rules(P, sub13, tier)
    except AnalysisError as e_:
        if not __import__('report').unlisted(sub13.obs):
            raise
    n13 = 0
    for o in sub13.obs:
        if o.rule == 'C13.a':
            n13 += 1
            R._add('C03.c', (o.path, o.site.split('::')[-1]), None, o.status, '[C13.a] boxes handed to the index are NaN exactly for elements without finite coordinates: ' + o.detail, construct=o.construct, nontrivial=o.nontrivial)
    R.floor('C03.c', 'bounds-kernel obligations (C13.a)', n13, 4)
    # cursor discipline and range pairing are idiom rules over the emit loops: they are consulted only when the evaluation of the query methods abstained
    # (a helper that copies the keys itself is a form they do not know; judged by evaluation it is either right or reported with a counterexample)
    if not queries_decided:
        for m in (meth['intersects'], meth['covers_overlaps']):
            cursor_discipline(P, R, m)
            pairing(P, R, m)
    # total_bounds = root row
    tb = HR.members.get('total_bounds')
    if tb:
        f = tb[1]
        ok = any(isinstance(n, ast.Subscript) and norm(n.value).endswith('_bounds_tree') and norm(n.slice) in ('(0, slice(None, None, None))', '0, :', '(0, :)')
                 or (isinstance(n, ast.Subscript) and norm(n).endswith('_bounds_tree[0, :]')) for n in walk_own(f.node))
        R.check(ok, 'C03.d', f, None, 'total_bounds is the root row of the tree', 'total_bounds is not the root row of the tree', construct='tuple(_bounds_tree[0, :])')


# ------------------------------------------------------------------------------------------------------------------
def node_level(P, R, trav, dims):
    loops = [s for s in trav.node.body if isinstance(s, ast.While)]
    if not loops:
        raise AnalysisError('C03.a: traversal loop not found')
    loop = loops[0]
    ret = [s for s in walk_own(trav.node) if isinstance(s, ast.Return) and isinstance(s.value, ast.Tuple) and len(s.value.elts) == 2]
    if not ret:
        raise AnalysisError('C03.a: traversal does not return (covered ranges, candidate ranges)')
    covered_name, maybe_name = [norm(e) for e in ret[0].value.elts]
    cases = per_dim_cases()
    total = 0
    bad_out, bad_in, nan_in = [], [], []
    for n in dims:
        for combo in itertools.product(cases, repeat=n):
            if n == 3 and sum(1 for c in combo if c[4]) > 1:
                continue
            total += 1
            q, b = rows_for(combo)
            hooks, _ = make_hooks(P, trav, b)
            env = {'self': OPQ}
            qp = [p for p in trav.params if p != 'self']
            if qp:
                env[qp[0]] = q
            prelude = []
            for st in trav.node.body:
                if st is loop:
                    break
                prelude.append(st)
            try:
                I0, c0 = ordeval.run_fragment(prelude, env, hooks, check_axes=True)
                if c0 is not None:
                    raise AnalysisError('C03.a: the traversal leaves before its loop for a well-formed query')
                I, ctl = ordeval.run_fragment(loop.body, env, hooks, check_axes=True)
            except ordeval.AxisMismatch as e:
                R.bad('C03.a', trav, e.node, f'comparison mixes dimensions: {e.a.name} with {e.b.name}')
                return
            except ordeval.NotComparisonOnly as e:
                raise AnalysisError(f'C03.a: node decision is not comparison-only: {e}')
            appended = [ev[0] for ev in I.events]
            if ctl is not None and ctl.kind == 'continue':
                outcome = 'outside'
            elif any(a.startswith(covered_name + '.') for a in appended):
                outcome = 'inside'
            else:
                outcome = 'descend'
            nan, disjoint, covered = spec(combo)
            if outcome == 'outside' and not disjoint:
                bad_out.append(_fmt(combo))
            if outcome == 'inside' and not covered:
                (nan_in if nan else bad_in).append(_fmt(combo))
    R.count('orderings', total)
    R.exhaustive_sites[f'C03.a node decision n in {dims}'] = True
    R.sample({'site': 'C03.a', 'cases': total, 'dims': list(dims), 'spec': 'outside => disjoint (closed); inside => covered; NaN node never inside'})
    R.check(not bad_out, 'C03.a', trav, loop, f'node "outside" implies the node box is disjoint from the closed query on all {total} cases',
            f'node pruned although it touches/overlaps the query on {len(bad_out)} cases, e.g. {bad_out[:2]}: rows are lost', construct='node outside test', counterexamples=bad_out[:5])
    R.check(not bad_in, 'C03.a', trav, loop, f'node "inside" implies the node box is covered by the closed query on all {total} cases',
            f'node accepted wholesale although not covered on {len(bad_in)} cases, e.g. {bad_in[:2]}: rows outside the query are returned', construct='node inside test', counterexamples=bad_in[:5])
    R.check(not nan_in, 'C03.c', trav, loop, 'a node whose box is NaN is never classified inside',
            f'a NaN node (only missing/empty rows) is classified as fully inside the query on {len(nan_in)} cases, e.g. {nan_in[:2]}', construct='NaN node never inside', counterexamples=nan_in[:5])


def _fmt(combo):
    return ['(q.lb,q.ub,b.lb,b.ub)=' + str(tuple('nan' if c[4] and i >= 2 else c[i] for i in range(4))) for c in combo]


def leaf_level(P, R, m, trav, dims, kind):
    # loops over the two range lists
    asg = None
    for s in walk_own(m.node):
        if isinstance(s, ast.Assign) and isinstance(s.targets[0], ast.Tuple) and isinstance(s.value, ast.Call):
            r = P.resolve_call(m, s.value)
            if r and r[0] == 'func' and r[1] is trav:
                asg = s
    if asg is None:
        raise AnalysisError(f'C03.b: call of the traversal helper not found in {m.qualname}')
    cov_name, may_name = [e.id for e in asg.targets[0].elts]
    qparam = [p for p in m.params if p != 'self'][0]
    # output arrays by return position
    ret = [s for s in walk_own(m.node) if isinstance(s, ast.Return) and s.value is not None and norm(s.value) != 'None']
    ret = [s for s in ret if not ('np.zeros' in norm(s.value))]
    if not ret:
        raise AnalysisError(f'C03.b: result return not found in {m.qualname}')
    rv = ret[-1].value
    outs = [norm(e.value) if isinstance(e, ast.Subscript) else norm(e) for e in (rv.elts if isinstance(rv, ast.Tuple) else [rv])]
    emit_loops = []
    for s in m.node.body:
        if isinstance(s, ast.For) and isinstance(s.iter, ast.Name) and s.iter.id in (cov_name, may_name):
            stores = any(isinstance(x, ast.Assign) and isinstance(x.targets[0], ast.Subscript) for x in ast.walk(s))
            if stores:
                emit_loops.append((s, 'covered' if s.iter.id == cov_name else 'maybe'))
    R.floor('C03.b', f'emitting loops in {m.name}', len(emit_loops), 2)
    cases = per_dim_cases()
    total = 0
    problems = {}
    for n in dims:
        for combo in itertools.product(cases, repeat=n):
            if n == 3 and sum(1 for c in combo if c[4]) > 1:
                continue
            nan, disjoint, covered = spec(combo)
            q, b = rows_for(combo)
            for loop, which in emit_loops:
                if which == 'covered' and not (covered or nan):
                    continue        # rows of a covered node are covered or NaN (C03.a + C03.d)
                total += 1
                hooks, emitted = make_hooks(P, m, b)
                env = {'self': OPQ, qparam: q}
                prelude = []
                for st in m.node.body:
                    if any(st is l_ for l_, _ in emit_loops):
                        break
                    prelude.append(st)
                try:
                    I0, c0 = ordeval.run_fragment(prelude, env, hooks)
                    if c0 is not None:
                        raise AnalysisError(f'C03.b: {m.qualname} leaves before its emitting loops for a non-empty index')
                    base_env = dict(env)
                    worlds = []

                    def run_world(ch, base_env=base_env, hooks=hooks, emitted=emitted, loop=loop):
                        emitted.clear()
                        e2 = dict(base_env)
                        for t in (loop.target.elts if isinstance(loop.target, ast.Tuple) else [loop.target]):
                            e2[t.id] = OPQ
                        h2 = dict(hooks)
                        h2['opaque_test'] = ch
                        ordeval.run_fragment(loop.body, e2, h2)
                        return tuple(bool(emitted.get(o, False)) for o in outs)
                    worlds = ordeval.explore(run_world, max_worlds=16)
                except ordeval.AxisMismatch as e:
                    R.bad('C03.b', m, e.node, f'comparison mixes dimensions: {e.a.name} with {e.b.name}')
                    return
                except ordeval.NotComparisonOnly as e:
                    raise AnalysisError(f'C03.b: leaf classification in {m.qualname} is not comparison-only: {e}')
                if kind == 'intersects':
                    want = ((not disjoint),)
                else:
                    want = (covered, (not disjoint) and not covered)
                if nan:
                    want = tuple(False for _ in outs)
                if which == 'covered' and not nan:
                    want = (True,) if kind == 'intersects' else (True, False)
                for script, got in worlds:
                    if got != want:
                        key = ('C03.c' if nan else 'C03.b', which)
                        problems.setdefault(key, []).append({'case': _fmt(combo), 'emitted_to': dict(zip(outs, got)), 'expected': dict(zip(outs, want)),
                                                             'branch_outcomes_on_unknown_values': list(script)})
                        break
    R.count('orderings', total)
    R.exhaustive_sites[f'C03.b {m.name} n in {dims}'] = True
    R.sample({'site': f'C03.b/{m.name}', 'cases': total, 'outputs': outs, 'loops': [w for _, w in emit_loops]})
    for which in ('covered', 'maybe'):
        loop = [l for l, w in emit_loops if w == which]
        node = loop[0] if loop else None
        pb = problems.get(('C03.b', which), [])
        pc = problems.get(('C03.c', which), [])
        label = 'covered-range emitter' if which == 'covered' else 'leaf-page classification'
        R.check(not pb, 'C03.b', m, node, f'{m.name}: {label} equals the closed-box specification on every ordering',
                f'{m.name}: {label} differs from the closed-box specification on {len(pb)} orderings, e.g. {pb[:1]}',
                construct=f'{m.name} {label}', counterexamples=pb[:5])
        R.check(not pc, 'C03.c', m, node, f'{m.name}: a row with NaN bounds is never emitted by the {label}',
                f'{m.name}: a row with NaN bounds is emitted by the {label}, e.g. {pc[:1]}', construct=f'{m.name} {label} NaN rows', counterexamples=pc[:5])


# ------------------------------------------------------------------------------------------------------------------
class Col(list):
    pass


def builder(P, R, HR):
    b = HR.members.get('_build_hilbert_rtree')
    if not b:
        raise AnalysisError('C03.d: builder not found')
    f = b[1]
    n_checked = 0
    whole_decided = builder_small_scope(P, R, HR, R.tier)
    page_decided = leaf_page_small_scope(P, R, HR) or whole_decided
    # reductions: list comprehensions `[RED(X[:, d]) for d in range(n)]` and `[RED(X[:, d + n]) ...]`
    for node in walk_own(f.node):
        if isinstance(node, ast.ListComp) and len(node.generators) == 1 and isinstance(node.elt, ast.Call):
            call = node.elt
            fn = norm(call.func)
            colexpr = None
            red = None
            if isinstance(call.func, ast.Attribute) and call.func.attr in ('min', 'max') and not call.args:
                colexpr, red = call.func.value, ('min' if call.func.attr == 'min' else 'max')
                nanaware = False
            elif fn in ('np.min', 'np.max', 'np.nanmin', 'np.nanmax', 'np.amin', 'np.amax') and call.args:
                colexpr, red = call.args[0], ('min' if 'min' in fn else 'max')
                nanaware = 'nan' in fn
            elif fn in ('min', 'max') and len(call.args) == 2:
                # parent union: min(left[d], right[d])
                n_checked += 1
                idx = [norm(a.slice) for a in call.args if isinstance(a, ast.Subscript)]
                role_ub = all('+' in i for i in idx)
                role_lb = all('+' not in i for i in idx)
                same = len(set(idx)) == 1
                ok = same and ((fn == 'min' and role_lb) or (fn == 'max' and role_ub))
                R.check(ok, 'C03.d', f, node, f'parent row takes {fn} over the children\'s {"lower" if role_lb else "upper"} bounds of the same dimension',
                        f'parent row takes {fn} over {idx}: ' + ('different columns are combined' if not same else 'a lower bound must be a min and an upper bound a max'))
                continue
            if colexpr is None or not isinstance(colexpr, ast.Subscript):
                continue
            n_checked += 1
            sl = norm(colexpr.slice)
            col = sl.split(',')[-1].strip().rstrip(')')
            role_ub = '+' in col
            ok_role = (red == 'min' and not role_ub) or (red == 'max' and role_ub)
            R.check(ok_role, 'C03.d', f, node, f'{red} over the {"upper" if role_ub else "lower"}-bound columns',
                    f'{red} taken over the {"upper" if role_ub else "lower"}-bound columns `{norm(colexpr)}`: boxes are not the union of their rows')
            R.check(nanaware, 'C03.c', f, node, f'reduction `{fn}` ignores NaN rows',
                    f'reduction `{norm(call)}` propagates NaN: one missing/empty geometry turns the page/total box into NaN and changes the answer for other rows')
    # the page reduction is decided by evaluation when the evaluator models it; the idiom rules above then only have to cover the total bounds and the parent union
    R.floor('C03.d', 'reductions in the builder', n_checked, 0 if whole_decided else 4 if page_decided else 6)
    # the row layout: mins + maxes
    ncat = 0
    for node in walk_own(f.node):
        if isinstance(node, ast.Assign) and isinstance(node.value, ast.BinOp) and isinstance(node.value.op, ast.Add):
            l, r = node.value.left, node.value.right
            ln, rn = astq.trace(f, l), astq.trace(f, r)
            lt, rt = (norm(ln) if isinstance(ln, ast.AST) else ''), (norm(rn) if isinstance(rn, ast.AST) else '')
            if ('min' in lt or 'max' in lt) and ('min' in rt or 'max' in rt):
                ncat += 1
                ok = 'min' in lt and 'max' in rt and 'max' not in lt and 'min' not in rt
                R.check(ok, 'C03.d', f, node, 'row layout is (lower bounds..., upper bounds...)', f'row built as `{norm(node.value)}`: not (mins + maxes)')
    R.floor('C03.d', 'row constructions', ncat, 0 if whole_decided else 1 if page_decided else 2)
    # parent validity: children with NaN boxes are skipped
    inner = [s for s in walk_own(f.node) if isinstance(s, ast.While)]
    ok = False
    for w in inner:
        txt = norm(w)
        if 'isnan' in txt and '_left_child' in txt and '_right_child' in txt:
            ok = True
    R.check(ok, 'C03.c', f, inner[0] if inner else None, 'the bottom-up union skips children whose box is NaN',
            'the bottom-up union does not test children for NaN boxes', construct='left_valid/right_valid')
    # stored rows are the input rows permuted by the stored keys
    ret = [s for s in walk_own(f.node) if isinstance(s, ast.Return) and isinstance(s.value, ast.Tuple) and len(s.value.elts) == 3]
    okp = False
    for rt in ret:
        a, k, t = rt.value.elts
        if isinstance(a, ast.Name) and isinstance(k, ast.Name):
            g, d = astq.unique_def(f, a.id)
            if isinstance(d, ast.Subscript):
                idx = d.slice.elts[0] if isinstance(d.slice, ast.Tuple) else d.slice
                okp = isinstance(idx, ast.Name) and idx.id == k.id
                g2, kd = astq.unique_def(f, k.id)
                okp = okp and isinstance(kd, ast.Call) and 'argsort' in norm(kd.func)
                if okp:
                    # pages are cut from the permuted array
                    okp = any(isinstance(x, ast.Subscript) and isinstance(x.value, ast.Name) and x.value.id == a.id and 'start' in norm(x.slice)
                              for x in walk_own(f.node))
    R.check(okp, 'C03.g', f, ret[-1] if ret else None, 'stored rows = input rows permuted by the stored keys; pages are cut from the permuted rows',
            'stored rows and stored keys are not the same permutation of the input (rows would be attributed to the wrong keys)')


def parent_union(P, R, f):
    """E-NAN/E-ORD evaluation of the bottom-up union: parent = union of its valid children; NaN marks 'no box'."""
    inner = None
    for w in [s for s in walk_own(f.node) if isinstance(s, ast.While)]:
        for s in w.body:
            if isinstance(s, ast.For) and isinstance(s.target, ast.Name) and any('_left_child' in norm(x) for x in s.body):
                inner = s
    if inner is None:
        R.abstain('C03.d', f, None, 'bottom-up union loop not in the recognised form')
        return
    tree_name = None
    for x in ast.walk(inner):
        if isinstance(x, ast.Assign) and isinstance(x.targets[0], ast.Subscript) and isinstance(x.targets[0].value, ast.Name):
            tree_name = x.targets[0].value.id
    # the "no box" marker: initial fill of the tree array must be NaN because validity is tested with isnan
    g, d = astq.unique_def(f, tree_name) if tree_name else (None, None)
    init_txt = norm(d) if isinstance(d, ast.AST) else ''
    uses_isnan = 'isnan' in norm(inner)
    ok_init = ('np.full(' in init_txt and 'nan' in init_txt) or not uses_isnan
    R.check(ok_init, 'C03.c', f, d if isinstance(d, ast.AST) else None, 'unused tree nodes are initialised with the NaN "no box" marker that the union tests for',
            f'the tree array is initialised by `{init_txt}` but invalid nodes are recognised by isnan: unused leaves count as real boxes and stretch the parents and total_bounds')
    var = inner.target.id
    cases1 = []
    for o in ordeval.orderings(4):
        if o[0] <= o[1] and o[2] <= o[3]:
            cases1.append(o)
    bad = []
    total = 0
    for n in (1, 2):
        combos = list(itertools.product(cases1, repeat=n))
        if n == 2:
            combos = combos[::7]
        for combo in combos:
            for lnan, rnan in ((False, False), (True, False), (False, True), (True, True)):
                total += 1
                L = Row([Sym(None if lnan else c[0], f'L.lb{k}', k) for k, c in enumerate(combo)] + [Sym(None if lnan else c[1], f'L.ub{k}', k) for k, c in enumerate(combo)])
                Rr = Row([Sym(None if rnan else c[2], f'R.lb{k}', k) for k, c in enumerate(combo)] + [Sym(None if rnan else c[3], f'R.ub{k}', k) for k, c in enumerate(combo)])
                result = {}

                def subscript(I, e, base, L=L, Rr=Rr):
                    if isinstance(e.value, ast.Name) and e.value.id == tree_name and isinstance(e.slice, ast.Tuple):
                        idx = I.expr(e.slice.elts[0])
                        return {1: L, 2: Rr}.get(idx, OPQ)
                    return None

                def store(I, t, base, v, result=result):
                    if isinstance(t.value, ast.Name) and t.value.id == tree_name:
                        result['row'] = v

                def call(I, e):
                    fn = norm(e.func)
                    if fn in ('_left_child', '_right_child', '_parent'):
                        gfn = P.func(MOD, fn)
                        sub = ordeval.Interp({gfn.params[0]: I.expr(e.args[0])}, {})
                        try:
                            sub.block(gfn.body)
                        except ordeval.Ctl as c:
                            return c.val
                        return OPQ
                    return None
                env = {var: 0, 'n': n, tree_name: OPQ}
                try:
                    I, ctl = ordeval.run_fragment(inner.body, env, {'subscript': subscript, 'store': store, 'call': call})
                except ordeval.AxisMismatch as e:
                    R.bad('C03.d', f, e.node, f'the union combines different dimensions: {e.a.name} with {e.b.name}')
                    return
                except ordeval.NotComparisonOnly as e:
                    R.abstain('C03.d', f, inner, f'bottom-up union is not comparison/min/max-only: {e}')
                    return
                row = result.get('row')
                vals = row.vals if isinstance(row, Row) else row
                if vals is OPQ or (vals is not None and not isinstance(vals, list)):
                    R.abstain('C03.d', f, inner, 'the row stored for the parent could not be evaluated')
                    return
                if lnan and rnan:
                    ok = row is None or all(isinstance(v, Sym) and v.nan for v in vals)
                    want = 'no box (NaN)'
                elif lnan or rnan:
                    src = Rr if lnan else L
                    ok = vals is not None and len(vals) == 2 * n and all(v is w for v, w in zip(vals, src.vals))
                    want = 'the box of the only valid child (' + ('right' if lnan else 'left') + ')'
                else:
                    ok = vals is not None and len(vals) == 2 * n
                    if ok:
                        for k in range(n):
                            ok = ok and isinstance(vals[k], Sym) and vals[k].rank == min(L.vals[k].rank, Rr.vals[k].rank)
                            ok = ok and isinstance(vals[k + n], Sym) and vals[k + n].rank == max(L.vals[k + n].rank, Rr.vals[k + n].rank)
                    want = '(min of lower bounds, max of upper bounds)'
                if not ok:
                    bad.append({'left': 'NaN' if lnan else [v.rank for v in L.vals], 'right': 'NaN' if rnan else [v.rank for v in Rr.vals],
                                'parent': None if vals is None else [getattr(v, 'rank', v) if not getattr(v, 'nan', False) else 'nan' for v in vals], 'expected': want})
    R.count('orderings', total)
    R.exhaustive_sites['C03.d parent union (valid/NaN children), n in (1,2)'] = True
    R.check(not bad, 'C03.d', f, inner, f'every parent box is the union of its valid children on all {total} evaluated cases (including NaN children)',
            f'parent box is not the union of its valid children on {len(bad)} of {total} cases, e.g. {bad[:2]}: a subtree disappears from queries or total_bounds is wrong',
            construct='bottom-up union of children', counterexamples=bad[:5])


def tree_arith(P, R, HR, NR, meth):
    f = HR.members['_build_hilbert_rtree'][1]
    need = {}
    for s in walk_own(f.node):
        if isinstance(s, ast.Assign) and isinstance(s.targets[0], ast.Name) and s.targets[0].id in ('next_pow2', 'tree_length', 'leaf_start'):
            need[s.targets[0].id] = s
    ls = meth.get('_leaf_start')
    si, so = meth.get('_start_index'), meth.get('_stop_index')
    if len(need) < 3 or not ls or not si or not so:
        R.abstain('C03.e', f, None, 'builder/reader tree arithmetic not in the recognised form (next_pow2, tree_length, leaf_start; _leaf_start/_start_index/_stop_index)')
        return
    # page loop of the builder: start = page * page_size ; stop = start + page_size ; node = leaf_start + page
    page_loop = None
    for s in walk_own(f.node):
        if isinstance(s, ast.For) and isinstance(s.target, ast.Name) and 'num_pages' in norm(s.iter):
            page_loop = s
    bad = []
    evals = 0
    for depth in range(0, 7):
        env = {'tree_depth': depth}
        I = ordeval.Interp(env, {})
        for k in ('next_pow2', 'tree_length', 'leaf_start'):
            I.stmt(need[k])
        tl, b_ls, np2 = env['tree_length'], env['leaf_start'], env['next_pow2']
        if not all(isinstance(x, int) for x in (tl, b_ls, np2)):
            R.abstain('C03.e', f, need['leaf_start'], 'builder tree arithmetic could not be evaluated on concrete depths')
            return

        def hooks_for(tl=tl):
            def attr(I2, e):
                if norm(e).endswith('_bounds_tree.shape'):
                    return [tl, 4]
                if norm(e).endswith('._page_size'):
                    return 7
                return None

            def call(I2, e):
                fn = norm(e.func)
                if fn in ('_left_child', '_right_child', '_parent'):
                    g = P.func(MOD, fn)
                    sub = ordeval.Interp({g.params[0]: I2.expr(e.args[0])}, {})
                    try:
                        sub.block(g.body)
                    except ordeval.Ctl as c:
                        return c.val
                    return OPQ
                if isinstance(e.func, ast.Attribute) and isinstance(e.func.value, ast.Name) and e.func.value.id == 'self':
                    mm = NR.members.get(e.func.attr)
                    if mm:
                        g = mm[1]
                        envs = {'self': OPQ}
                        for p_, a in zip(g.params[1:], e.args):
                            envs[p_] = I2.expr(a)
                        sub = ordeval.Interp(envs, I2.hooks)
                        try:
                            sub.block(g.body)
                        except ordeval.Ctl as c:
                            return c.val
                        return OPQ
                return None
            return {'attr': attr, 'call': call}
        H = hooks_for()
        # reader leaf start
        sub = ordeval.Interp({'self': OPQ}, H)
        try:
            sub.block(ls.body)
            r_ls = None
        except ordeval.Ctl as c:
            r_ls = c.val
        evals += 1
        if r_ls != b_ls:
            bad.append(f'depth {depth}: builder leaf_start={b_ls}, reader _leaf_start()={r_ls}')
            continue
        # every node: key slice = [leftmost leaf page * ps, (rightmost leaf page + 1) * ps)
        for node in range(tl):
            lo = hi = node
            while 2 * lo + 1 < tl:
                lo = 2 * lo + 1
            while 2 * hi + 2 < tl:
                hi = 2 * hi + 2
            want = ((lo - b_ls) * 7, (hi - b_ls + 1) * 7)
            got = []
            for g in (si, so):
                sub = ordeval.Interp({'self': OPQ, g.params[1]: node}, H)
                try:
                    sub.block(g.body)
                    got.append(None)
                except ordeval.Ctl as c:
                    got.append(c.val)
                except ordeval.NotComparisonOnly:
                    got.append('?')
            evals += 1
            if tuple(got) != want:
                bad.append(f'depth {depth} node {node}: reader slice {tuple(got)}, leaves cover {want}')
        # builder page loop writes node leaf_start + page for keys [page*ps, page*ps+ps)
        if page_loop is not None:
            for page in range(np2):
                envp = {'page': page, 'page_size': 7, 'leaf_start': b_ls, 'sorted_bounds': OPQ, 'n': 1, 'bounds_tree': OPQ}
                stores = []

                def store(I2, t, base, v, stores=stores):
                    if norm(t.value).endswith('bounds_tree'):
                        idx = t.slice.elts[0] if isinstance(t.slice, ast.Tuple) else t.slice
                        stores.append(I2.expr(idx))
                Ip = ordeval.Interp(envp, {'store': store, 'opaque_test': lambda I2, n_: False})
                try:
                    Ip.block(page_loop.body)
                except (ordeval.NotComparisonOnly, ordeval.Ctl):
                    pass
                evals += 1
                st, sp = envp.get('start'), envp.get('stop')
                if stores and isinstance(st, int) and isinstance(sp, int):
                    if (st, sp) != (page * 7, page * 7 + 7) or stores[0] != b_ls + page:
                        bad.append(f'depth {depth} page {page}: builder writes node {stores[0]} for keys [{st},{sp})')
    R.count('typed_ops', evals)
    R.exhaustive_sites['C03.e tree arithmetic, depths 0..6'] = True
    R.check(not bad, 'C03.e', ls, None, f'builder and reader agree on leaf_start and on the key slice of every node (depths 0..6, {evals} evaluations)',
            f'builder and reader disagree on the node <-> key-slice mapping: {bad[:3]}', construct='leaf_start / _start_index / _stop_index', counterexamples=bad[:6])


def builder_small_scope(P, R, HR, tier):
    """C03.d/e (exhaustive within the scope): the whole builder `_build_hilbert_rtree` is interpreted by E-VEC - the Hilbert distances replaced by a recorder that
    returns a fixed permutation - on every set of up to 4 (thorough: 5) one-dimensional boxes over {0, 1, 2} and NaN rows, page sizes 1..3, with size thresholds of
    fast paths scaled into the scope: the stored rows are the input rows permuted by the returned keys, and the tree is the array representation of those rows
    (one leaf per page, every page boxed, parents = union of valid children)."""
    import itertools as _it
    import veceval
    nan = float('nan')
    f = HR.members['_build_hilbert_rtree'][1]
    dfb = P.find_func(MOD, '_distances_from_bounds')
    names = {}
    for c in astq.own_calls(f):
        r = P.resolve_call(f, c)
        if r and r[0] == 'func' and r[1] is dfb and isinstance(c.func, ast.Name):
            names[c.func.id] = None
    if not names:
        return False
    vals = (0, 1, 2)
    kinds = [[0, 0], [1, 2], [0, 2], [2, 2], [nan, nan]]
    maxn = 5 if tier == 'thorough' else 4
    bad, total, undec = [], 0, None

    def same(a, b):
        return len(a) == len(b) and all(len(x) == len(y) and all((u != u and v != v) or u == v for u, v in zip(x, y)) for x, y in zip(a, b))
    for N in range(1, maxn + 1):
        for rows in _it.product(kinds if N <= 3 else kinds[1:], repeat=N):
            if all(r[0] != r[0] for r in rows):
                continue            # no valid row at all: nanmin of an all-NaN column only warns; not part of this scope
            for ps in (1, 2, 3):
                total += 1
                dist = [(7 * k + 3) % N for k in range(N)] if N > 1 else [0]       # some fixed order of the rows
                env = dict(zip(f.params, ([list(r) for r in rows], 10, ps)))
                for nm in names:
                    env[nm] = (lambda b, tb, p, dist=dist: list(dist))
                ev = veceval.VecEval(P, f, env, N)
                ev.ncols = 2
                ev.scale_thresholds = True
                try:
                    ev.block(f.node.body)
                    got = None
                except veceval.Returned as r_:
                    got = r_.value
                except veceval.Unsupported as e_:
                    undec = str(e_)
                    break
                except (IndexError, TypeError, ValueError, ZeroDivisionError, KeyError) as e_:
                    got = f'error {type(e_).__name__}: {e_}'
                ok = isinstance(got, tuple) and len(got) == 3 and all(isinstance(x, list) for x in got)
                if ok:
                    sb, keys, tree = got
                    ok = sorted(keys) == list(range(N)) and same(sb, [rows[k] for k in keys]) and same(tree, _spec_tree([list(r) for r in sb], keys, ps, 1))
                if not ok and len(bad) < 20:
                    bad.append({'rows': [[None if x != x else x for x in r] for r in rows], 'page_size': ps, 'built': (str(got)[:160])})
                elif not ok:
                    bad.append(None)
            if undec:
                break
        if undec:
            break
    if undec:
        R.abstain('C03.d', f, None, f'the builder uses a construct the small-scope evaluator does not model ({undec})', construct='builder small-scope')
        return False
    R.count('typed_ops', total)
    R.exhaustive_sites[f'C03.d/e builder: all sets of <= {maxn} 1-d boxes over 5 kinds incl. NaN rows, page sizes 1..3, fast-path thresholds scaled'] = True
    real = [b for b in bad if b]
    R.check(not bad, 'C03.d', f, None, f'the builder stores the rows permuted by its keys and builds the array representation of exactly those rows ({total} inputs)',
            f'the builder\'s tree differs from the array representation of its rows on {len(bad)} of {total} inputs, e.g. {real[:1]}', construct='builder small-scope', counterexamples=real[:4])
    return True


def leaf_page_small_scope(P, R, HR):
    """C03.d (exhaustive within the scope): the body of the builder's page loop is interpreted by E-VEC for one page of up to 3 rows (1-d boxes over
    {-1, 0, 1}, and 2 rows of 2-d boxes), every row either a valid box or a NaN row: the leaf row written must be (min of the valid lower bounds ...,
    max of the valid upper bounds ...) and all-NaN when the page has no valid row - however the reduction is written (numpy reductions, a helper, a loop).
    Returns True when the evaluation decided the question."""
    import itertools as _it
    import veceval
    f = HR.members['_build_hilbert_rtree'][1]
    page_loop = None
    for s in walk_own(f.node):
        if isinstance(s, ast.For) and isinstance(s.target, ast.Name) and isinstance(s.iter, ast.Call) and norm(s.iter.func) in ('range', 'prange') and len(s.iter.args) == 1 \
                and any(isinstance(x, ast.Assign) and isinstance(x.targets[0], ast.Subscript) and 'bounds_tree' in norm(x.targets[0].value) for x in ast.walk(s)):
            if page_loop is None or not any(x is s for x in ast.walk(page_loop)):
                page_loop = s            # the outermost loop that stores tree rows (a per-dimension loop inside it belongs to its body)
    if page_loop is None:
        return False
    tree_name = next(norm(x.targets[0].value) for x in ast.walk(page_loop) if isinstance(x, ast.Assign) and isinstance(x.targets[0], ast.Subscript) and 'bounds_tree' in norm(x.targets[0].value))
    nan = float('nan')
    cases = []
    vals = (-1, 0, 1)
    boxes1 = [[lo, hi] for lo in vals for hi in vals if lo <= hi] + [[nan, nan]]
    for k in (1, 2, 3):
        for rows in _it.product(boxes1, repeat=k):
            cases.append((1, [list(r) for r in rows]))
    boxes2 = [[x0, y0, x1, y1] for x0 in vals for x1 in vals if x0 <= x1 for y0 in vals for y1 in vals if y0 <= y1] + [[nan] * 4]
    for k in (1, 2):
        for rows in _it.product(boxes2, repeat=k):
            cases.append((2, [list(r) for r in rows]))
    bad, total, undec = [], 0, None
    for n, rows in cases:
        total += 1
        k = len(rows)
        env = {'page': 0, 'page_size': k, 'n': n, 'leaf_start': 0, 'input_size': k, 'num_pages': 1, 'sorted_bounds': [list(r) for r in rows], tree_name: [[nan] * (2 * n)], page_loop.target.id: 0}
        ev = veceval.VecEval(P, f, env, k)
        try:
            ev.block(page_loop.body)
        except veceval.Unsupported as e_:
            undec = str(e_)
            break
        except veceval.Returned:
            undec = 'return inside the page loop'
            break
        except (IndexError, TypeError, ValueError, ZeroDivisionError) as e_:
            undec = f'{type(e_).__name__}: {e_}'
            break
        got = ev.env[tree_name][0]
        valid = [r for r in rows if not any(x != x for x in r)]
        want = ([min(r[d] for r in valid) for d in range(n)] + [max(r[d + n] for r in valid) for d in range(n)]) if valid else [nan] * (2 * n)
        same = isinstance(got, (list, tuple)) and len(got) == len(want) and all((a != a and b != b) or a == b for a, b in zip(got, want))
        if not same:
            bad.append({'rows of the page': rows, 'leaf box written': [None if (isinstance(x, float) and x != x) else x for x in got] if isinstance(got, (list, tuple)) else str(got),
                        'wanted': [None if x != x else x for x in want]})
    if undec:
        R.abstain('C03.d', f, page_loop, f'the page loop uses a construct the small-scope evaluator does not model ({undec})', construct='leaf page box small-scope')
        return False
    R.count('typed_ops', total)
    R.exhaustive_sites['C03.d leaf page box: pages of <= 3 rows (1-d) / <= 2 rows (2-d), boxes over {-1, 0, 1} and NaN rows'] = True
    R.check(not bad, 'C03.d', f, page_loop, f'every leaf box is the union of the valid rows of its page, NaN when the page has none ({total} pages)',
            f'the leaf box differs from the union of the valid rows of its page on {len(bad)} of {total} pages, e.g. {bad[:2]}: queries and total_bounds are answered from wrong boxes',
            construct='leaf page box small-scope', counterexamples=bad[:5])
    return True


def _spec_tree(rows, keys, ps, n):
    """The array representation the builder must produce for the stored rows (already permuted by `keys`): one leaf per page, parents = union of valid children."""
    import math
    nan = float('nan')
    N = len(rows)
    num_pages = max(1, math.ceil(N / ps))
    depth = math.ceil(math.log2(num_pages)) if num_pages > 1 else 0
    np2 = 2 ** depth
    tl = 2 * np2 - 1
    ls = tl - np2
    tree = [[nan] * (2 * n) for _ in range(tl)]

    def union(bs):
        v = [b for b in bs if not any(x != x for x in b)]
        if not v:
            return [nan] * (2 * n)
        return [min(b[d] for b in v) for d in range(n)] + [max(b[d + n] for b in v) for d in range(n)]
    for pg in range(num_pages):
        tree[ls + pg] = union(rows[pg * ps:(pg + 1) * ps])
    for node in range(ls - 1, -1, -1):
        tree[node] = union([tree[2 * node + 1], tree[2 * node + 2]])
    return tree


def query_small_scope(P, R, NR, tier):
    """C03.a/b (exhaustive within the scope): `_NumbaRtree.intersects` and `.covers_overlaps` are interpreted by E-VEC on every tree of up to 3 rows (4 in the
    thorough tier) of one-dimensional boxes over {0, 1, 2} and NaN rows, page sizes 1..3, stored in reversed key order, for every query box lo <= hi over
    {0, 1, 2}, plus a sample of two-dimensional trees.  intersects must report each valid row whose box overlaps the closed query exactly once and nothing else;
    covers_overlaps must split exactly that set into the rows inside the query and the rest.  Returns True when decided."""
    import itertools as _it
    import veceval
    nan = float('nan')
    mi, mc = NR.members.get('intersects'), NR.members.get('covers_overlaps')
    if not mi or not mc:
        return False
    fi, fc = mi[1], mc[1]
    vals = (0, 1, 2)
    boxes1 = [[lo, hi] for lo in vals for hi in vals if lo <= hi] + [[nan, nan]]
    inf = float('inf')
    queries1 = [(lo, hi) for lo in vals for hi in vals if lo <= hi] + [(-inf, 1), (1, inf), (-inf, inf)]       # half-open and unbounded queries are legal boxes
    thorough = tier == 'thorough'
    maxn = 3 if thorough else 2
    few = [[0, 0], [1, 2], [0, 2], [nan, nan]]
    cases = []
    for N in range(1, maxn + 1):
        for rows in _it.product(boxes1, repeat=N):
            for ps in ((1, 2, 3) if thorough else (1, 2)):
                if ps > N + 1:
                    continue
                cases.append((1, [list(r) for r in rows], ps, queries1))
    # larger trees (3..5 rows on 2..5 pages: two and three levels) with fewer kinds of rows
    qsub = queries1 if thorough else [(0, 0), (1, 2), (0, 2), (-inf, 1)]
    for N, kinds in (((4, few), (5, few[1:])) if thorough else ((3, few), (5, [few[1], few[3]]))):
        for rows in _it.product(kinds, repeat=N):
            for ps in ((1, 2) if thorough or N == 3 else (2,)):
                cases.append((1, [list(r) for r in rows], ps, qsub))
    b2 = [[0, 0, 1, 1], [1, 1, 2, 2], [0, 2, 0, 2], [2, 0, 2, 1], [nan] * 4, [1, 0, 1, 2]]
    q2 = [(0, 0, 1, 1), (1, 1, 2, 2), (0, 0, 2, 2), (2, 2, 2, 2), (0, 1, 0, 1)]
    for rows in (_it.permutations(b2, 4) if thorough else _it.combinations(b2, 4)):
        for ps in ((1, 2, 3) if thorough else (1, 2)):
            cases.append((2, [list(r) for r in rows], ps, q2 if thorough else q2[:3]))
    bad, total, undec = [], 0, None
    for n, rows, ps, queries in cases:
        N = len(rows)
        keys = list(range(N - 1, -1, -1))
        stored = [list(rows[k]) for k in keys]
        me = veceval.Stub()
        me._bounds, me._keys, me._page_size, me._bounds_tree = stored, list(keys), ps, _spec_tree(stored, keys, ps, n)
        for q in queries:
            qb = tuple(float(x) for x in q)
            want_i, want_c, want_o = [], [], []
            for k, b in enumerate(rows):
                if any(x != x for x in b):
                    continue
                if all(b[d + n] >= qb[d] and b[d] <= qb[d + n] for d in range(n)):
                    want_i.append(k)
                    if all(b[d] >= qb[d] and b[d + n] <= qb[d + n] for d in range(n)):
                        want_c.append(k)
                    else:
                        want_o.append(k)
            for f_, kind in ((fi, 'intersects'), (fc, 'covers_overlaps')):
                total += 1
                ev = veceval.VecEval(P, f_, {f_.params[1]: qb, 'self': me}, N)
                ev.ncols = 2 * n
                try:
                    ev.block(f_.node.body)
                    got = None
                except veceval.Returned as r_:
                    got = r_.value
                except veceval.Unsupported as e_:
                    undec = f'{kind}: {e_}'
                    break
                except (IndexError, TypeError, ValueError, ZeroDivisionError, KeyError, AttributeError) as e_:
                    got = f'error {type(e_).__name__}: {e_}'
                if kind == 'intersects':
                    ok = isinstance(got, list) and sorted(got) == want_i
                    want = want_i
                else:
                    ok = isinstance(got, tuple) and len(got) == 2 and all(isinstance(x, list) for x in got) and sorted(got[0]) == want_c and sorted(got[1]) == want_o
                    want = (want_c, want_o)
                if not ok and len(bad) < 40:
                    bad.append({'call': kind, 'rows (lo.., hi..)': [[None if x != x else x for x in r] for r in rows], 'page_size': ps, 'query': q,
                                'returned': got if not isinstance(got, str) else got[:80], 'wanted': want})
                elif not ok:
                    bad.append(None)
            if undec:
                break
        if undec:
            break
    if undec:
        R.abstain('C03.a', fi, None, f'the query methods use a construct the small-scope evaluator does not model ({undec})', construct='R-tree queries small-scope')
        return False
    R.count('typed_ops', total)
    R.exhaustive_sites[f'C03.a/b R-tree queries: all 1-d trees of <= {maxn} rows over {{0,1,2}} + NaN rows (up to {maxn + 3} rows over 3-4 kinds), page sizes 1..3, all queries lo <= hi; 2-d sample'] = True
    real = [b for b in bad if b]
    R.check(not bad, 'C03.a', fi, None, f'intersects / covers_overlaps return exactly the overlapping valid rows, each once, split into covered and partial ({total} queries)',
            f'the query methods differ from the exact answer on {len(bad)} of {total} queries, e.g. {real[:2]}', construct='R-tree queries small-scope', counterexamples=real[:5])
    return True


class _Unk(Exception):
    pass


def _ceval(e, env):
    """Concrete evaluation of the integer arithmetic that sizes the tree.  env maps names to numbers; '__N' is the number of input rows, '__K' a
    data-dependent count (any `.sum()` / `count_nonzero` over the data: between 0 and N), '__rows' the names of row-array parameters."""
    import math
    if isinstance(e, ast.Constant) and isinstance(e.value, (int, float)) and not isinstance(e.value, bool):
        return e.value
    if isinstance(e, ast.Name):
        if e.id in env:
            return env[e.id]
        raise _Unk(e.id)
    if isinstance(e, ast.Subscript) and isinstance(e.value, ast.Attribute) and e.value.attr == 'shape' and norm(e.value.value) in env['__rows'] and norm(e.slice) == '0':
        return env['__N']
    if isinstance(e, ast.UnaryOp) and isinstance(e.op, ast.USub):
        return -_ceval(e.operand, env)
    if isinstance(e, ast.BinOp):
        a, b = _ceval(e.left, env), _ceval(e.right, env)
        t = type(e.op)
        try:
            if t is ast.Add:
                return a + b
            if t is ast.Sub:
                return a - b
            if t is ast.Mult:
                return a * b
            if t is ast.Div:
                return a / b
            if t is ast.FloorDiv:
                return a // b
            if t is ast.Mod:
                return a % b
            if t is ast.Pow:
                return a ** b
            if t is ast.LShift:
                return a << b
        except (ZeroDivisionError, ValueError, OverflowError):
            raise _Unk('arithmetic error')
        raise _Unk(norm(e))
    if isinstance(e, ast.Call):
        fn = norm(e.func)
        if fn == 'len' and len(e.args) == 1 and norm(e.args[0]) in env['__rows']:
            return env['__N']
        if (isinstance(e.func, ast.Attribute) and e.func.attr in ('sum', 'count_nonzero')) or fn in ('np.count_nonzero', 'np.sum', 'sum'):
            return env['__K']            # a count taken from the data
        args = [_ceval(a, env) for a in e.args]
        try:
            if fn in ('int', 'np.int64', 'np.intp'):
                return int(args[0])
            if fn in ('float',):
                return float(args[0])
            if fn in ('np.ceil', 'math.ceil', 'ceil'):
                return math.ceil(args[0])
            if fn in ('np.floor', 'math.floor', 'floor'):
                return math.floor(args[0])
            if fn in ('np.log2', 'math.log2', 'log2'):
                return math.log2(args[0]) if args[0] > 0 else float('-inf')
            if fn in ('max', 'np.maximum'):
                return max(args)
            if fn in ('min', 'np.minimum'):
                return min(args)
            if fn in ('abs',):
                return abs(args[0])
        except (ValueError, OverflowError, TypeError):
            raise _Unk('arithmetic error')
    raise _Unk(norm(e))


class _Rows:
    """The (N, 2 * d) array of input boxes, as far as sizing arithmetic is concerned."""
    def __init__(self, N, d):
        self.N, self.d = N, d


def _geval(f, e, env, depth=0):
    """Concrete evaluation of guard / argument expressions over the build parameters (p, page_size, the shape of the boxes).  Raises _Unk."""
    if depth > 12:
        raise _Unk('depth')
    if isinstance(e, ast.Name):
        if e.id in env:
            return env[e.id]
        g_, d_ = astq.unique_def(f, e.id)
        if d_ is None or isinstance(d_, tuple) or g_ is not f:
            raise _Unk(e.id)
        return _geval(f, d_, env, depth + 1)
    if isinstance(e, ast.Constant):
        if isinstance(e.value, (int, float, str)) or e.value is None:
            return e.value
        raise _Unk('constant')
    if isinstance(e, ast.Attribute):
        if e.attr == 'shape':
            v = _geval(f, e.value, env, depth + 1)
            if isinstance(v, _Rows):
                return (v.N, 2 * v.d)
        if e.attr == 'size':
            v = _geval(f, e.value, env, depth + 1)
            if isinstance(v, _Rows):
                return v.N * 2 * v.d
        if e.attr == 'ndim':
            v = _geval(f, e.value, env, depth + 1)
            if isinstance(v, _Rows):
                return 2
        raise _Unk(norm(e))
    if isinstance(e, ast.Subscript):
        v = _geval(f, e.value, env, depth + 1)
        i = _geval(f, e.slice, env, depth + 1)
        if isinstance(v, tuple) and isinstance(i, int) and -len(v) <= i < len(v):
            return v[i]
        raise _Unk(norm(e))
    if isinstance(e, ast.UnaryOp):
        v = _geval(f, e.operand, env, depth + 1)
        if isinstance(e.op, ast.Not):
            return not v
        if isinstance(e.op, ast.USub) and isinstance(v, (int, float)):
            return -v
        raise _Unk(norm(e))
    if isinstance(e, ast.BoolOp):
        vals = []
        for x in e.values:
            v = _geval(f, x, env, depth + 1)
            if isinstance(e.op, ast.And) and not v:
                return v
            if isinstance(e.op, ast.Or) and v:
                return v
            vals.append(v)
        return vals[-1]
    if isinstance(e, ast.Compare):
        left = _geval(f, e.left, env, depth + 1)
        for op, c in zip(e.ops, e.comparators):
            right = _geval(f, c, env, depth + 1)
            if isinstance(left, _Rows) or isinstance(right, _Rows):
                raise _Unk('comparison of arrays')
            t = type(op)
            try:
                ok = {ast.Lt: lambda: left < right, ast.LtE: lambda: left <= right, ast.Gt: lambda: left > right, ast.GtE: lambda: left >= right,
                      ast.Eq: lambda: left == right, ast.NotEq: lambda: left != right, ast.Is: lambda: left is right, ast.IsNot: lambda: left is not right}[t]()
            except (KeyError, TypeError):
                raise _Unk(norm(e))
            if not ok:
                return False
            left = right
        return True
    if isinstance(e, ast.BinOp):
        a, b = _geval(f, e.left, env, depth + 1), _geval(f, e.right, env, depth + 1)
        if not isinstance(a, (int, float)) or not isinstance(b, (int, float)):
            raise _Unk(norm(e))
        return _ceval(ast.BinOp(left=ast.Constant(a), op=e.op, right=ast.Constant(b)), {'__rows': set()})
    if isinstance(e, ast.Call):
        fn = norm(e.func)
        if isinstance(e.func, ast.Attribute) and e.func.attr in ('astype', 'copy', 'view') :
            v = _geval(f, e.func.value, env, depth + 1)
            if isinstance(v, _Rows):
                return v
        if fn in ('np.asarray', 'np.ascontiguousarray', 'np.array', 'np.atleast_2d') and e.args:
            v = _geval(f, e.args[0], env, depth + 1)
            if isinstance(v, _Rows):
                return v
        args = [_geval(f, a, env, depth + 1) for a in e.args]
        if fn == 'len' and len(args) == 1:
            if isinstance(args[0], _Rows):
                return args[0].N
            if isinstance(args[0], tuple):
                return len(args[0])
        if all(isinstance(a, (int, float)) for a in args) and args:
            return _ceval(ast.Call(func=e.func, args=[ast.Constant(a) for a in args], keywords=[]), {'__rows': set()})
    raise _Unk(norm(e))


def build_totality(P, R, HR):
    """C03.l: building the index succeeds for every input of the property's domain (d in {1,2,3}, p in 1..31, page_size >= 1, any number of rows): no
    `raise` reachable from HilbertRtree.__init__ has a guard that holds for such an input.  The guards are evaluated concretely along the call
    chain (arguments bound at every call site); a guard that depends on anything but p, page_size and the shape of the boxes is left undecided."""
    init = HR.members.get('__init__')
    if not init:
        return
    root = init[1]
    raises = {}          # (func key, raise node) -> [configs that trigger]
    examined = set()
    undecided = {}

    def guards_of(g, r):
        out = []
        q = r
        while getattr(q, '_parent', None) is not None and q._parent is not g.node:
            par = q._parent
            if isinstance(par, ast.If):
                out.append((par.test, q in par.body))
            elif isinstance(par, (ast.For, ast.While, ast.Try, ast.With)):
                return None       # inside a loop / handler: not evaluated
            q = par
        # early exits before the raise on the same level are not modelled: only statements directly in the function body or nested ifs
        return out

    def visit(g, env, cfg, depth, seen):
        if depth > 4 or g.key in seen:
            return
        seen = seen | {g.key}
        for r in [x for x in walk_own(g.node) if isinstance(x, ast.Raise)]:
            gs = guards_of(g, r)
            k = (g.key, r)
            examined.add(k)
            if gs is None:
                undecided[k] = 'inside a loop or handler'
                continue
            try:
                hit = all(bool(_geval(g, t, env)) == pol for t, pol in gs) if gs else True
            except _Unk as e:
                undecided[k] = str(e)
                continue
            if hit:
                raises.setdefault(k, (g, r, []))[2].append(cfg)
        for c, h in P.callees(g):
            if isinstance(h.node, ast.Lambda):
                continue
            env2 = {}
            params = list(h.params)
            if h.cls is not None and h.kind == 'method' and params and params[0] in ('self', 'cls') and isinstance(c.func, ast.Attribute):
                params = params[1:]
            for p_, a_ in zip(params, c.args):
                try:
                    env2[p_] = _geval(g, a_, env)
                except _Unk:
                    pass
            for kw in c.keywords:
                if kw.arg in h.params:
                    try:
                        env2[kw.arg] = _geval(g, kw.value, env)
                    except _Unk:
                        pass
            visit(h, env2, cfg, depth + 1, seen)

    params = root.params[1:]
    if len(params) < 3:
        R.abstain('C03.l', root, None, 'constructor signature not in the recognised form (bounds, p, page_size)')
        return
    for d in (1, 2, 3):
        for p_ in range(1, 32):
            for N in (1, 3):
                for ps in (1, 4):
                    env = {params[0]: _Rows(N, d), params[1]: p_, params[2]: ps}
                    visit(root, env, f'd={d}, p={p_}, rows={N}, page_size={ps}', 0, frozenset())
    R.floor('C03.l', 'raise statements reachable from the index constructor', len(examined), 2)
    for k in examined:
        g = next(x for x in P.all_funcs() if x.key == k[0])
        r = k[1]
        if k in raises:
            cfgs = raises[k][2]
            R.bad('C03.l', g, r, f'`{norm(r)[:70]}` in {g.qualname} is reached for inputs of the property\'s domain, e.g. {cfgs[:3]} ({len(cfgs)} of the evaluated configurations): '
                                 'building the index fails although the answer must not depend on p, the page size or the dimension', construct=f'{g.qualname}: raise in domain')
        elif k in undecided:
            R.abstain('C03.l', g, r, f'guard of `{norm(r)[:60]}` not evaluated ({undecided[k]})', construct=f'{g.qualname}: raise in domain')
        else:
            R.ok('C03.l', g, r, f'the guard of `{norm(r)[:60]}` holds for no (d, p, rows, page_size) of the domain', construct=f'{g.qualname}: raise in domain')
    R.exhaustive_sites['C03.l raise guards: d in 1..3 x p in 1..31 x rows in {1,3} x page_size in {1,4}'] = True


def leaf_coverage(P, R, HR):
    """C03.e (coverage): the leaf pages [page * page_size, (page + 1) * page_size), page < num_pages, cover EVERY stored row, and the tree has a leaf
    for every page.  All input rows are stored (C03.g) - rows without a box included - so a page count taken from anything but the number of input
    rows leaves the rows at the end of the Hilbert order in no page: they are never returned.  Evaluated on N in 1..40 x page_size in 1..7 x every value
    of a data-dependent count."""
    f = HR.members['_build_hilbert_rtree'][1]
    defs = {}
    for s in walk_own(f.node):
        if isinstance(s, ast.Assign) and len(s.targets) == 1 and isinstance(s.targets[0], ast.Name):
            defs.setdefault(s.targets[0].id, []).append(s)
    page_loop = None
    for s in walk_own(f.node):
        if isinstance(s, ast.For) and isinstance(s.target, ast.Name) and isinstance(s.iter, ast.Call) and norm(s.iter.func) in ('range', 'prange') and len(s.iter.args) == 1 \
                and any(isinstance(x, ast.Assign) and isinstance(x.targets[0], ast.Subscript) and 'bounds_tree' in norm(x.targets[0].value) for x in ast.walk(s)):
            if page_loop is None or not any(x is s for x in ast.walk(page_loop)):
                page_loop = s
    if page_loop is None or 'tree_depth' not in defs:
        R.abstain('C03.e', f, None, 'page loop / tree_depth of the builder not in the recognised form')
        return
    rows = {f.params[0]}
    ps = next((p_ for p_ in f.params if 'page' in p_), None)
    if ps is None:
        R.abstain('C03.e', f, None, 'page size parameter of the builder not recognised')
        return
    npages_e = astq.expand(f, page_loop.iter.args[0])
    depth_e = astq.expand(f, defs['tree_depth'][-1].value)
    bad, unk, evals = [], None, 0
    uses = _uses_count(npages_e) or _uses_count(depth_e)
    for N in range(1, 41):
        for page_size in range(1, 8):
            for K in (range(0, N + 1) if uses else (0,)):
                env = {'__N': N, '__K': K, '__rows': rows, ps: page_size}
                try:
                    npg = _ceval(npages_e, env)
                    dep = _ceval(depth_e, env)
                except _Unk as e:
                    unk = str(e)
                    break
                evals += 1
                if not (isinstance(npg, int) and npg * page_size >= N):
                    bad.append(f'N={N} rows, page_size={page_size}' + (f', data-dependent count={K}' if uses else '') + f': {npg} pages hold {npg * page_size if isinstance(npg, int) else "?"} rows')
                elif not (isinstance(dep, int) and 2 ** dep >= npg):
                    bad.append(f'N={N} rows, page_size={page_size}: {npg} pages but only {2 ** dep if isinstance(dep, int) and dep >= 0 else "?"} leaves')
            if unk:
                break
        if unk:
            break
    if unk is not None:
        R.abstain('C03.e', f, page_loop.iter, f'the number of pages `{norm(npages_e)}` could not be evaluated ({unk})')
        return
    R.count('typed_ops', evals)
    R.exhaustive_sites['C03.e leaf coverage, N in 1..40 x page_size in 1..7'] = True
    R.check(not bad, 'C03.e', f, page_loop.iter, f'the leaf pages cover every stored row and every page has a leaf ({evals} evaluations)',
            f'the leaf pages do not cover every stored row: the number of pages is `{norm(npages_e)}`; {bad[:3]} - rows beyond the last page are in no leaf and are never returned by a query',
            construct='leaf pages cover all rows', counterexamples=bad[:6])


def _uses_count(e):
    return any(isinstance(c, ast.Call) and ((isinstance(c.func, ast.Attribute) and c.func.attr in ('sum', 'count_nonzero')) or norm(c.func) in ('np.count_nonzero', 'np.sum', 'sum')) for c in ast.walk(e))


def cursor_discipline(P, R, m):
    C = cfgmod.build(m.node)
    stores = []
    for s in walk_own(m.node):
        if isinstance(s, ast.Assign) and isinstance(s.targets[0], ast.Subscript) and isinstance(s.targets[0].slice, ast.Slice):
            t = s.targets[0]
            lo, hi = t.slice.lower, t.slice.upper
            if isinstance(lo, ast.Name) and isinstance(t.value, ast.Name) and isinstance(s.value, ast.Name):
                stores.append((s, t.value.id, lo.id, hi, s.value.id))
    R.floor('C03.f', f'cursor slice stores in {m.name}', len(stores), 2)
    for s, out, cur, hi, val in stores:
        # upper bound is cursor + len(val) (possibly via a name)
        hi_e = astq.trace(m, hi) if isinstance(hi, ast.Name) else hi
        hi_s = norm(hi_e) if isinstance(hi_e, ast.AST) else ''
        ok_hi = hi_s in (f'{cur} + len({val})', f'len({val}) + {cur}')
        R.check(ok_hi, 'C03.f', m, s, f'slice store writes exactly len({val}) slots starting at the cursor',
                f'slice store `{norm(s)}` does not write [cursor, cursor + len({val}))')
        adv = [C.node(a) for a in walk_own(m.node) if isinstance(a, ast.AugAssign) and isinstance(a.op, ast.Add) and isinstance(a.target, ast.Name)
               and a.target.id == cur and norm(a.value) == f'len({val})']
        adv = [a for a in adv if a is not None]
        sn = C.node(s)
        others = [C.node(o[0]) for o in stores if o[1] == out and o[0] is not s] + [sn]
        # from the store, every path to another store of the same buffer (or the same store again) or to the exit passes an advance
        nxt = set()
        for succ in C.succ[sn]:
            nxt.add(succ)
        ok = bool(adv)
        if ok:
            for tgt in others + [C.EXIT]:
                for succ in C.succ[sn]:
                    if succ in adv:
                        continue
                    if C.can_reach(succ, tgt, blocked=set(adv)) and (tgt != sn or True):
                        ok = False
        R.check(ok, 'C03.f', m, s, f'after storing `{val}` the cursor `{cur}` advances by len({val}) before the next store / the return',
                f'after `{norm(s)}` the cursor `{cur}` is not advanced by len({val}) on every path: rows are overwritten or zero-filled gaps are returned as row 0')
    # return out[:cursor]
    for rt in [x for x in walk_own(m.node) if isinstance(x, ast.Return) and x.value is not None]:
        elts = rt.value.elts if isinstance(rt.value, ast.Tuple) else [rt.value]
        for e in elts:
            if isinstance(e, ast.Subscript) and isinstance(e.value, ast.Name) and isinstance(e.slice, ast.Slice):
                curs = {c for (_, o, c, _, _) in stores if o == e.value.id}
                if not curs:
                    continue
                ok = e.slice.lower is None and isinstance(e.slice.upper, ast.Name) and e.slice.upper.id in curs
                R.check(ok, 'C03.f', m, rt, f'returns the populated prefix of `{e.value.id}`', f'`{norm(e)}` is not the populated prefix out[:cursor]')


def pairing(P, R, m):
    n = 0
    for loop in [s for s in m.node.body if isinstance(s, ast.For) and isinstance(s.target, ast.Tuple) and len(s.target.elts) == 2]:
        a, b = [t.id for t in loop.target.elts]
        for x in ast.walk(loop):
            if isinstance(x, ast.Subscript) and (norm(x.value).endswith('._keys') or norm(x.value).endswith('._bounds')):
                sl = x.slice.elts[0] if isinstance(x.slice, ast.Tuple) else x.slice
                n += 1
                ok = isinstance(sl, ast.Slice) and isinstance(sl.lower, ast.Name) and sl.lower.id == a and isinstance(sl.upper, ast.Name) and sl.upper.id == b and sl.step is None
                R.check(ok, 'C03.g', m, x, f'keys/bounds are sliced by this iteration\'s range [{a}:{b}]', f'`{norm(x)}` is not sliced by this iteration\'s range [{a}:{b}]: masks and keys refer to different rows')
            if isinstance(x, ast.Call) and isinstance(x.func, ast.Attribute) and isinstance(x.func.value, ast.Name) and x.func.value.id == 'self' and x.args \
                    and m.cls is not None and x.func.attr not in ('_start_index', '_stop_index'):
                ok = [norm(z) for z in x.args] == [a, b]
                n += 1
                R.check(ok, 'C03.g', m, x, f'helper mask is computed for this iteration\'s range ({a}, {b})', f'`{norm(x)}` is not computed for this iteration\'s range ({a}, {b})')
    R.floor('C03.g', f'range-sliced accesses in {m.name}', n, 3)
