"""C15 — oriented() normalises ring direction without changing the shape.

 C15.a  the input is untouched: the mutating kernel receives a fresh copy of the value buffer, never the array's own buffer (effects).
 C15.b  structure preserved: the result is rebuilt from the SAME offsets at every level, innermost first, un-modified and not
        re-based, with the validity mask on the outermost level, around the copy that was oriented, and is an instance of the
        receiver's own class.
 C15.c  kernel typing: polygon offsets index rings, ring offsets index coordinates (levels (0,1) for polygons, (1,2) for multipolygons);
        the shell of each polygon is its first ring (start view of the polygon offsets, unmodified); a flipped ring has its X stride and
        its Y stride reversed over the same [start, stop).
 C15.d  from_geopandas(orient=True) calls it.
 C15.g  the result carries no state of the input (no attribute stores in oriented(); C16.c/d at oriented sites).
Does not decide: the sign convention, idempotence, effect on areas and intersections.
"""
import ast

import astq
import ordeval
from effects import effects
from units import Interp, Vals, Tup, Q, Off, OffC, ArrowArr, Obj, Arr
from model import walk_own, AnalysisError, full as norm
from rules import geom, common

EXPLANATION = (
    'Effect analysis (the in-place kernel orient_polygons only ever receives a fresh copy) plus units/levels abstract interpretation of '
    'PolygonArray.oriented / MultiPolygonArray.oriented and of orient_polygons: every ListArray.from_arrays re-wrap is typed (same offsets per level, '
    'innermost first, mask outermost), the kernel\'s polygon/ring offsets are typed by level, the shell marker must be the start view of the polygon '
    'offsets, and the two stride stores of a flip are compared.')

ORI = 'spatialpandas.geometry._algorithms.orientation'


def _loop_form(P, R, op):
    """Scalar form of orient_polygons: a loop over polygons, inside it a loop over the rings first..last of that polygon; expected direction of ring r is
    `r == first ring`.  Returns (ring loop, name of the expected flag, test guarding the flip) or None.  Also decides here: every ring of every polygon reaches
    the decision (no break / return inside the ring loop)."""
    for outer in [l for l in walk_own(op.node) if isinstance(l, ast.For)]:
        for inner in [l for l in outer.body if isinstance(l, ast.For)]:
            it = inner.iter
            if not (isinstance(it, ast.Call) and norm(it.func) in ('range', 'prange') and len(it.args) == 2 and isinstance(inner.target, ast.Name)):
                continue
            lo, hi = [astq.expand(op, a) for a in it.args]
            pv = outer.target.id if isinstance(outer.target, ast.Name) else None
            if not (norm(lo) == f'{op.params[1]}[{pv}]' and norm(hi) == f'{op.params[1]}[{pv} + 1]'):
                continue
            rv = inner.target.id
            flag = None
            for a in inner.body:
                if isinstance(a, ast.Assign) and isinstance(a.targets[0], ast.Name) and isinstance(a.value, ast.Compare) and isinstance(a.value.ops[0], ast.Eq):
                    sides = {norm(astq.expand(op, a.value.left)), norm(astq.expand(op, a.value.comparators[0]))}
                    if sides == {rv, norm(lo)}:
                        flag = a.targets[0].id
            guard = None
            for st in ast.walk(inner):
                if isinstance(st, ast.If) and any(isinstance(x, ast.Assign) and isinstance(x.targets[0], ast.Subscript) and isinstance(x.targets[0].slice, ast.Slice)
                                                  and norm(x.targets[0].value) == op.params[0] for x in ast.walk(st)):
                    guard = st
                    break
            if flag is None or guard is None:
                continue
            R.ok('C15.c', op, inner, 'the shell of each polygon is its first ring: ring r is expected counter-clockwise iff r is the first ring of its polygon')
            exits = [x for x in ast.walk(inner) if isinstance(x, (ast.Break, ast.Return))]
            R.check(not exits, 'C15.c', op, exits[0] if exits else inner, 'every ring of every polygon reaches the flip decision',
                    'the loop over the rings of a polygon can be left early (`break` / `return`): the remaining rings of that polygon (its holes) are never examined and keep their direction',
                    construct='all rings examined')
            return (inner, flag, guard)
    return None


def _flip_table(P, R, op, loop_form=None):
    nz = [c for c in astq.own_calls(op) if norm(c.func).split('.')[-1] in ('nonzero', 'flatnonzero', 'where') and c.args]
    if not nz and loop_form is None:
        R.abstain('C15.f', op, None, 'flip selection (np.nonzero(<decision>)) not recognised', construct='flip decision table')
        return
    decision = nz[0].args[0] if nz else loop_form[2].test
    exp_name = loop_form[1] if (loop_form is not None and not nz) else None
    skip_tests = []
    if loop_form is not None and not nz:
        # `if <t>: continue` before the decision: this ring is not flipped when t holds
        for st in loop_form[0].body:
            if st is loop_form[2]:
                break
            if isinstance(st, ast.If) and any(isinstance(x, ast.Continue) for x in st.body):
                skip_tests.append(st.test)
    if skip_tests:
        decision = ast.BoolOp(op=ast.And(), values=[ast.UnaryOp(op=ast.Not(), operand=t) for t in skip_tests] + [decision])
        ast.fix_missing_locations(decision)
    for s_ in walk_own(op.node):
        if exp_name is None and isinstance(s_, ast.Assign) and isinstance(s_.targets[0], ast.Subscript) and norm(s_.value) == 'True' and isinstance(s_.targets[0].value, ast.Name):
            exp_name = s_.targets[0].value.id
    NAN = float('nan')

    class Unsupported(Exception):
        pass

    def elem_defs(fn, name):
        """per-ring definitions of array `name` in fn: values stored at `name[i] = <expr>` (and whether every ring is stored)"""
        st = [x for x in walk_own(fn.node) if isinstance(x, ast.Assign) and isinstance(x.targets[0], ast.Subscript) and isinstance(x.targets[0].value, ast.Name)
              and x.targets[0].value.id == name and norm(x.value) != 'True']
        return st

    def ev(fn, e, sign, exp, ch, depth=0):
        """value of expression e of function fn for ONE ring whose signed area has the given sign (-1/0/+1) and whose expected direction is exp;
        ch() decides the outcome of tests that the sign does not determine (tolerances)."""
        if depth > 10:
            raise Unsupported('depth')
        if isinstance(e, ast.Constant) and isinstance(e.value, (int, float, bool)):
            return e.value
        if isinstance(e, ast.Attribute) and norm(e) in ('np.nan', 'numpy.nan', 'math.nan'):
            return NAN
        if isinstance(e, ast.Name):
            if fn is op and e.id == exp_name:
                return exp
            st = elem_defs(fn, e.id)
            if len(st) == 1:
                guarded = any(isinstance(p_, ast.If) for p_ in _parents(st[0], fn.node))
                if guarded and ch():
                    skipped.append(e.id)
                    # the ring was not stored: it keeps the prefill of the array
                    g_, dd = astq.unique_def(fn, e.id)
                    if isinstance(dd, ast.Call) and norm(dd.func).split('.')[-1] in ('full', 'zeros', 'empty') :
                        return ev(fn, dd.args[1], sign, exp, ch, depth + 1) if norm(dd.func).endswith('full') and len(dd.args) > 1 else 0.0
                    raise Unsupported('prefill of ' + e.id)
                return ev(fn, st[0].value, sign, exp, ch, depth + 1)
            if len(st) > 1:
                raise Unsupported('several stores into ' + e.id)
            g_, dd = astq.unique_def(fn, e.id)
            if isinstance(dd, ast.AST) and g_ is fn:
                return ev(fn, dd, sign, exp, ch, depth + 1)
            raise Unsupported(e.id)
        if isinstance(e, ast.Call):
            r_ = P.resolve_call(fn, e)
            if r_ and r_[0] == 'func' and r_[1].name == 'compute_area':
                return float(sign)              # any representative of the sign class: only comparisons with 0 may look at it
            if r_ and r_[0] == 'func':
                h = r_[1]                       # a repository helper returning one value per ring: follow its returned array
                rets = [x for x in walk_own(h.node) if isinstance(x, ast.Return) and x.value is not None]
                if len(rets) == 1:
                    return ev(h, rets[0].value, sign, exp, ch, depth + 1)
                raise Unsupported(h.name)
            fn_ = norm(e.func).split('.')[-1]
            if fn_ in ('logical_and', 'logical_or', 'logical_xor', 'not_equal', 'equal') and len(e.args) == 2:
                a_, b_ = ev(fn, e.args[0], sign, exp, ch, depth + 1), ev(fn, e.args[1], sign, exp, ch, depth + 1)
                return {'logical_and': bool(a_) and bool(b_), 'logical_or': bool(a_) or bool(b_), 'logical_xor': bool(a_) != bool(b_), 'not_equal': a_ != b_, 'equal': a_ == b_}[fn_]
            if fn_ == 'logical_not' and len(e.args) == 1:
                return not ev(fn, e.args[0], sign, exp, ch, depth + 1)
            if fn_ == 'sign' and len(e.args) == 1:
                v_ = ev(fn, e.args[0], sign, exp, ch, depth + 1)
                return (v_ > 0) - (v_ < 0)
            if fn_ in ('isnan',) and len(e.args) == 1:
                v_ = ev(fn, e.args[0], sign, exp, ch, depth + 1)
                return isinstance(v_, float) and v_ != v_
            if fn_ in ('isfinite',) and len(e.args) == 1:
                v_ = ev(fn, e.args[0], sign, exp, ch, depth + 1)
                return not (isinstance(v_, float) and v_ != v_)
            if fn_ in ('isclose', 'allclose') and len(e.args) >= 2:
                v_ = ev(fn, e.args[0], sign, exp, ch, depth + 1)
                w_ = ev(fn, e.args[1], sign, exp, ch, depth + 1)
                if w_ == 0 and isinstance(v_, float):
                    if v_ != v_:
                        return False
                    return True if v_ == 0 else ch()      # a non-zero area may or may not be within the tolerance
                raise Unsupported('isclose')
            if fn_ in ('abs', 'fabs', 'absolute') and len(e.args) == 1:
                v_ = ev(fn, e.args[0], sign, exp, ch, depth + 1)
                return abs(v_)
            if fn_ in ('zeros', 'full', 'empty', 'zeros_like', 'empty_like', 'full_like'):
                raise Unsupported('array as a whole')
            raise Unsupported(norm(e.func))
        if isinstance(e, ast.Compare) and len(e.ops) == 1:
            a_, b_ = ev(fn, e.left, sign, exp, ch, depth + 1), ev(fn, e.comparators[0], sign, exp, ch, depth + 1)
            o_ = type(e.ops[0])
            fa, fb = isinstance(a_, float) and not isinstance(a_, bool), isinstance(b_, float) and not isinstance(b_, bool)
            if (fa and isinstance(b_, (int, float)) and not isinstance(b_, bool) and b_ != 0 and a_ == a_) or (fb and isinstance(a_, (int, float)) and not isinstance(a_, bool) and a_ != 0 and b_ == b_):
                # area against a non-zero threshold: decided by the sign only when the signs differ (or the area is 0)
                area_v, thr, area_left = (a_, b_, True) if fa else (b_, a_, False)
                if area_v == 0 or (area_v > 0) != (thr > 0):
                    pass
                else:
                    return ch()
            return {ast.Lt: a_ < b_, ast.LtE: a_ <= b_, ast.Gt: a_ > b_, ast.GtE: a_ >= b_, ast.Eq: a_ == b_, ast.NotEq: a_ != b_}[o_]
        if isinstance(e, ast.BinOp) and isinstance(e.op, (ast.BitAnd, ast.BitOr, ast.BitXor)):
            a_, b_ = bool(ev(fn, e.left, sign, exp, ch, depth + 1)), bool(ev(fn, e.right, sign, exp, ch, depth + 1))
            return a_ and b_ if isinstance(e.op, ast.BitAnd) else (a_ or b_ if isinstance(e.op, ast.BitOr) else a_ != b_)
        if isinstance(e, ast.BoolOp):
            vs = [bool(ev(fn, v, sign, exp, ch, depth + 1)) for v in e.values]
            return all(vs) if isinstance(e.op, ast.And) else any(vs)
        if isinstance(e, ast.UnaryOp) and isinstance(e.op, (ast.Invert, ast.Not)):
            return not bool(ev(fn, e.operand, sign, exp, ch, depth + 1))
        if isinstance(e, ast.UnaryOp) and isinstance(e.op, ast.USub):
            return -ev(fn, e.operand, sign, exp, ch, depth + 1)
        if isinstance(e, ast.Subscript):
            return ev(fn, e.value, sign, exp, ch, depth + 1)
        raise Unsupported(type(e).__name__)

    wrong = []
    ncase = 0
    skipped = []
    try:
        for sign in (-1, 0, 1):
            for exp in (True, False):
                def world(ch, sign=sign, exp=exp):
                    del skipped[:]
                    v_ = bool(ev(op, decision, sign, exp, ch))
                    return v_, bool(skipped)
                for script, (got, skip) in ordeval.explore(world, max_worlds=64):
                    if skip and sign != 0:
                        continue        # "this ring was not stored by the guarded loop although it has area": not known to be feasible -- undecided, not reported
                    ncase += 1
                    want = False if sign == 0 else ((sign > 0) != exp)
                    if got != want:
                        wrong.append({'area_sign': sign, 'expected_ccw': exp, 'flips': got, 'wanted': want, 'undetermined_tests': list(script)})
    except Unsupported as e:
        R.abstain('C15.f', op, decision, f'flip decision uses a construct the table evaluator does not model ({e})', construct='flip decision table')
        return
    zero = [w for w in wrong if w['area_sign'] == 0]
    if not wrong:
        msg = ''
    elif zero and len(zero) == len(wrong):
        msg = f'a ring with zero area is flipped when expected_ccw={zero[0]["expected_ccw"]}: it has no orientation, so every call reverses it again and oriented() is not idempotent'
    elif not zero and all(w['wanted'] and not w['flips'] for w in wrong):
        msg = (f'a ring with non-zero area that runs the wrong way is left as it is in {len(wrong)} case(s), e.g. {wrong[0]}: the decision depends on more than the sign of the area '
               '(a tolerance, a vertex count), so small or short rings keep the wrong direction')
    else:
        msg = f'flip decision is wrong on {len(wrong)} of {ncase} (area sign, expected direction) cases, e.g. {wrong[0]}'
    R.check(not wrong, 'C15.f', op, decision, 'flip decision table: a ring with area is flipped iff it runs against its expected direction; a ring without area is never flipped (idempotence)',
            msg, construct='flip decision table', values=wrong[:6])
    R.count('flip_table_cases', ncase)


def _parents(node, stop):
    out = []
    p_ = getattr(node, '_parent', None)
    while p_ is not None and p_ is not stop:
        out.append(p_)
        p_ = getattr(p_, '_parent', None)
    return out


def orient_small_scope(P, R, op, tier):
    """C15.f (exhaustive within the scope): `orient_polygons` is interpreted by E-VEC on one polygon whose shell (and, in a second family, whose hole behind a
    fixed shell) runs through every triple of points of a 3 x 2 grid, closed, plain and with one vertex repeated (a, b, c, a / a, a, b, c, a / a, b, b, c, a /
    a, b, c, c, a).  Afterwards a ring with area is counter-clockwise if it is a shell and clockwise if it is a hole, its vertices are the same cycle (kept or
    reversed), and a ring without area is untouched - however the direction is determined (signed area, turn at a hull vertex, a helper)."""
    import itertools as _it
    import veceval
    pts = [(x, y) for x in (0, 1, 2) for y in (0, 1)]
    if tier == 'thorough':
        pts = [(x, y) for x in (0, 1, 2) for y in (0, 1, 2)]

    def shoelace(ring):
        v = ring[:-1] if len(ring) > 1 and ring[0] == ring[-1] else ring
        return sum(v[i][0] * v[(i + 1) % len(v)][1] - v[(i + 1) % len(v)][0] * v[i][1] for i in range(len(v))) / 2.0 if len(v) >= 3 else 0.0
    fixed_shell = [(-5, -5), (9, -5), (9, 9), (-5, 9), (-5, -5)]
    fixed_hole = [(3, 3), (3, 4), (4, 4), (4, 3), (3, 3)]        # clockwise already
    bad, total, undec = [], 0, None
    for a, b, c in _it.product(pts, repeat=3):
        for pat in ([a, b, c, a], [a, a, b, c, a], [a, b, b, c, a], [a, b, c, c, a], [a, b, c], [a, b, c, (-1, 3)]):      # closed, with a repeated vertex, and not closed
            for role in ('shell', 'hole', 'first of two'):
                rings = [list(pat)] if role == 'shell' else [list(fixed_shell), list(pat)] if role == 'hole' else [list(pat), list(fixed_shell), list(fixed_hole)]
                flat, roff = [], [0]
                for rg in rings:
                    for (x, y) in rg:
                        flat += [float(x), float(y)]
                    roff.append(len(flat))
                total += 1
                values = list(flat)
                poff = [0, len(rings)] if role != 'first of two' else [0, 1, 3]
                ev = veceval.VecEval(P, op, dict(zip(op.params, (values, poff, list(roff)))), 0)
                try:
                    ev.block(op.node.body)
                except veceval.Returned:
                    pass
                except veceval.Unsupported as e_:
                    undec = str(e_)
                    break
                except (IndexError, TypeError, ValueError, ZeroDivisionError) as e_:
                    bad.append({'ring': pat, 'role': role, 'error': f'{type(e_).__name__}: {e_}'})
                    continue
                out = ev.env[op.params[0]]
                k = len(rings) - 1 if role == 'hole' else 0
                got = [(out[i], out[i + 1]) for i in range(roff[k], roff[k + 1], 2)]
                before = [(float(x), float(y)) for (x, y) in rings[k]]
                a0 = shoelace(before)
                ok = got == before or got == before[::-1]
                closed = before[0] == before[-1]
                if not closed:
                    pass            # rings are closed by convention; for an unclosed one only the vertex-cycle clause is decided (the direction of an open chain is not defined here)
                elif a0 == 0:
                    ok = got == before
                elif ok:
                    a1 = shoelace(got)
                    ok = (a1 < 0) if role == 'hole' else (a1 > 0)
                # the fixed shell of the hole family is counter-clockwise already and must stay as it is
                if role == 'hole' and [(out[i], out[i + 1]) for i in range(0, roff[1], 2)] != [(float(x), float(y)) for (x, y) in fixed_shell]:
                    ok = False
                if role == 'first of two' and [(out[i], out[i + 1]) for i in range(roff[1], roff[3], 2)] != [(float(x), float(y)) for (x, y) in fixed_shell + fixed_hole]:
                    ok = False          # the second polygon (counter-clockwise shell, clockwise hole) is in order already
                if not ok and len(bad) < 30:
                    bad.append({'ring': pat, 'role': role, 'signed area before': a0, 'vertices after': got})
                elif not ok:
                    bad.append(None)
            if undec:
                break
        if undec:
            break
    if undec:
        R.abstain('C15.f', op, None, f'orient_polygons uses a construct the small-scope evaluator does not model ({undec})', construct='orient_polygons small-scope')
        return False
    R.count('typed_ops', total)
    R.exhaustive_sites[f'C15.f orient_polygons: shells and holes over all point triples of a {len(pts)}-point grid, with repeated vertices'] = True
    real = [b for b in bad if b]
    R.check(not bad, 'C15.f', op, None, f'every ring with area ends up in its expected direction as the same vertex cycle, rings without area are untouched ({total} polygons)',
            f'orient_polygons leaves {len(bad)} of {total} polygons wrong, e.g. {real[:2]}', construct='orient_polygons small-scope', counterexamples=real[:5])
    return True


def run(P, R, tier):
    op = P.func(ORI, 'orient_polygons')
    E = effects(P)
    # ---------------------------------------------------------------- C15.a
    meths = [P.func(geom.G + 'polygon', 'PolygonArray.oriented'), P.func(geom.G + 'multipolygon', 'MultiPolygonArray.oriented')]
    for m in meths:
        mut = E.mutated_params(m)
        R.check(not mut, 'C15.a', m, None, f'{m.qualname} stores into neither the array nor an argument', f'{m.qualname} stores into {sorted(mut)}: oriented() modifies the input array',
                construct=f'{m.qualname} effects')
    n = common.fresh_arguments(P, R, 'C15.a', callee_filter=lambda g: g is op, floor=1)
    # C15.g: the result is a freshly built array: nothing derived from the input (spatial index, memoised measures, ...) is stored onto it.
    # Signed areas and ring order differ between input and result, so any carried-over state describes the wrong rings.
    for m in meths:
        stores = [s_ for s_ in walk_own(m.node) if isinstance(s_, (ast.Assign, ast.AugAssign, ast.AnnAssign))
                  for t_ in (s_.targets if isinstance(s_, ast.Assign) else [s_.target])
                  for a_ in ast.walk(t_) if isinstance(a_, ast.Attribute) and isinstance(a_.ctx, ast.Store)]
        sets = [c_ for c_ in astq.own_calls(m) if norm(c_.func) in ('setattr', 'object.__setattr__') or (isinstance(c_.func, ast.Attribute) and c_.func.attr in ('__setattr__', '__dict__.update'))]
        bad = stores + sets
        R.check(not bad, 'C15.g', m, bad[0] if bad else None, f'{m.qualname} stores no attribute on the array it returns (no state of the input is carried over)',
                f'`{norm(bad[0]) if bad else ""}` in {m.qualname} stores state onto an array object: the result of oriented() has other ring directions (and signed areas) than the input, '
                'state derived from the input does not describe it', construct=f'{m.qualname} attribute stores')
    common.forward(P, R, 'C16', ['C16.c', 'C16.d'], 'C15.g', 'the oriented array is a fresh array of the receiver\'s class, without cached state', floor=0,
                   only=lambda o: 'oriented' in o.site or 'oriented' in o.detail)
    R.check('values' in E.mutated_params(op) or bool(E.mutated_params(op)), 'C15.a', op, None, 'orient_polygons is recognised as an in-place kernel (stores into its value buffer)',
            'orient_polygons no longer stores into its argument (kernel changed shape)', nontrivial=False, construct='orient_polygons in place')

    # ---------------------------------------------------------------- C15.b / C15.c through units
    I = Interp(P)
    seen = set()
    for mod, cls, L in (('polygon', 'PolygonArray', 2), ('multipolygon', 'MultiPolygonArray', 3)):
        a = geom.array(P, mod, cls, L)
        site = (f'spatialpandas/geometry/{mod}.py', f'{cls}.oriented')
        ev0 = len(I.events)
        v = geom.call(I, a, 'oriented', [], f'{cls}.oriented')
        geom.flush(R, 'C15.c', I, seen, f'{cls}.oriented')
        evs = I.events[ev0:]
        fa = [e for e in evs if e[0] == 'from_arrays']
        typed = all(isinstance(e_[3][0], Off) for e_ in fa)
        if typed or len(fa) < L:
            R.check(len(fa) == L, 'C15.b', site, None, f'{cls}.oriented rebuilds all {L} list levels', f'{cls}.oriented rebuilds {len(fa)} list level(s), the array has {L}', construct='levels rebuilt')
        else:
            R.abstain('C15.b', site, None, f'{cls}.oriented rebuilds its levels through a helper whose offsets the units analysis cannot type; level count not decided', construct='levels rebuilt')
        own = geom.get(I, a, 'buffer_offsets', f'{cls}.buffer_offsets')
        for k, (_, f, node, (offs, vals, mask)) in enumerate(fa):
            want_level = L - 1 - k
            if not isinstance(offs, Off):
                if k == len(fa) - 1:
                    R.check(mask is not None, 'C15.b', f, node, 'the outermost level carries the validity mask (missing stays missing)',
                            'the outermost level is rebuilt without the validity mask: missing polygons become empty ones')
                else:
                    R.abstain('C15.b', f, node, f'offsets of a rebuilt level could not be typed ({offs!r:.40}); level not decided')
                continue
            ok = isinstance(offs, Off) and offs.level == want_level and not getattr(offs, 'modified', False) and not getattr(offs, 'rebased', False) \
                and not getattr(offs, 'gathered', False) and offs.role is None
            if ok and isinstance(own, Tup):
                o = own.items[want_level]
                ok = offs.win == o.win and getattr(offs, 'cut', None) is not None if o.win and False else ok
            R.check(ok, 'C15.b', f, node, f'level {want_level} is rebuilt from the array\'s own, unmodified level-{want_level} offsets',
                    f'level {want_level} is rebuilt from {offs!r:.90}: part/ring counts of the result differ from the input')
            if k == 0:
                R.check(isinstance(vals, Vals) and vals.fresh and vals.base == 'abs', 'C15.b', f, node, 'the innermost level wraps the oriented COPY of the whole value buffer',
                        f'the innermost level wraps {vals!r:.60}, not the fresh copy that was oriented')
            if k == len(fa) - 1:
                R.check(mask is not None, 'C15.b', f, node, 'the outermost level carries the validity mask (missing stays missing)',
                        'the outermost level is rebuilt without the validity mask: missing polygons become empty ones')
            else:
                R.check(mask is None, 'C15.b', f, node, 'inner levels carry no element mask', 'an inner level carries the element mask', nontrivial=False)
        R.check(isinstance(v, Obj) and v.cls is a.cls, 'C15.b', site, None, f'the result is a {cls}', f'the result is {v!r:.40}', construct='result class')
        # kernel call typing
        kc = [e for e in evs if e[0] == 'call' and e[3][0] is op]
        R.floor('C15.c', f'orient_polygons calls from {cls}.oriented', len(kc), 1)
        for _, f, node, (callee, args, kwargs) in kc:
            ok = len(args) == 3 and isinstance(args[0], Vals) and args[0].fresh and isinstance(args[1], Off) and isinstance(args[2], Off) \
                and args[1].level == L - 2 and args[2].level == L - 1 and not getattr(args[1], 'cut', None) is None or \
                (len(args) == 3 and isinstance(args[1], Off) and isinstance(args[2], Off) and args[1].level == L - 2 and args[2].level == L - 1)
            if not ok and len(args) == 3 and not (isinstance(args[1], Off) and isinstance(args[2], Off)):
                R.abstain('C15.c', f, node, 'the offsets handed to the kernel could not be typed (built through a generic helper); levels not decided')
                continue
            R.check(ok, 'C15.c', f, node, f'the kernel receives (copy, polygon offsets = level {L - 2}, ring offsets = level {L - 1})',
                    f'the kernel receives {[repr(a)[:40] for a in args]}: polygon/ring offsets are not levels ({L - 2}, {L - 1})')
            if len(args) == 3 and isinstance(args[1], Off):
                whole = not (args[1].win and args[1].level > 0) and not getattr(args[1], 'modified', False)
                R.check(whole, 'C15.c', f, node, 'polygon offsets are handed over whole (their values index the un-cut ring offsets)',
                        'polygon offsets are cut/modified before the kernel while the ring offsets are not: shells are looked up in the wrong rings')
    geom.stats(R, I)
    # shell marker = start view of polygon offsets
    marks = [s for s in walk_own(op.node) if isinstance(s, ast.Assign) and isinstance(s.targets[0], ast.Subscript) and norm(s.value) == 'True']
    loop_form = None
    if not marks:
        loop_form = _loop_form(P, R, op)
        if loop_form is None:
            R.floor('C15.c', 'shell marker stores in orient_polygons', len(marks), 1)
    def _start_view(e):
        if isinstance(e, ast.Name):
            t_ = astq.trace(op, e)
            e = t_ if isinstance(t_, ast.AST) else e
        return isinstance(e, ast.Subscript) and norm(e.value) == op.params[1] and isinstance(e.slice, ast.Slice) and e.slice.lower is None \
            and e.slice.upper is not None and norm(e.slice.upper) == '-1' and e.slice.step is None

    def _ring_count(e):
        """expression equal to the number of rings: len(ring_offsets) - 1, a name bound to it, or len(<the marker array>)"""
        if isinstance(e, ast.Name):
            t_ = astq.trace(op, e)
            e = t_ if isinstance(t_, ast.AST) else e
        return norm(e) in (f'len({op.params[2]}) - 1', f'{op.params[2]}.shape[0] - 1', f'{op.params[2]}.size - 1')

    for s in marks:
        idx = s.targets[0].slice
        if isinstance(idx, ast.Name):
            t_ = astq.trace(op, idx)
            idx = t_ if isinstance(t_, ast.AST) else idx
        # accepted forms: V  |  V[V < n_rings]   with V the start view polygon_offsets[:-1]
        bounded = False
        view = idx
        msk = idx.slice if isinstance(idx, ast.Subscript) else None
        if isinstance(msk, ast.Name):
            t_ = astq.trace(op, msk)
            msk = t_ if isinstance(t_, ast.AST) else msk
        if isinstance(msk, ast.Compare):
            for l_, op_, r_ in astq.cmp_forms(msk):
                if op_ is ast.Lt and _start_view(l_) and (_ring_count(r_) or norm(r_) == f'len({norm(s.targets[0].value)})'):
                    bounded = True
                    view = idx.value
        ok = _start_view(view)
        R.check(ok, 'C15.c', op, s, 'the shell of each polygon is its first ring: rings polygon_offsets[:-1] are expected counter-clockwise',
                f'shell marker index `{norm(idx)}` is not the start view polygon_offsets[:-1]: a hole is treated as a shell (or a shell as a hole)')
        # C15.e: the start offset of a trailing polygon without rings equals the number of rings -- one past the marker array
        arr = astq.trace(op, s.targets[0].value) if isinstance(s.targets[0].value, ast.Name) else None
        if ok and isinstance(arr, ast.Call) and norm(arr.func).split('.')[-1] in ('zeros', 'full', 'empty') and arr.args:
            n_ = arr.args[0]
            exact = _ring_count(n_)
            roomy = norm(n_) in (f'len({op.params[2]})', f'{op.params[2]}.shape[0]', f'{op.params[2]}.size')
            if exact or roomy:
                R.check(bounded or roomy, 'C15.e', op, s, 'the shell marker store stays inside the per-ring array (start offsets of trailing empty polygons are excluded)',
                        f'`{norm(s)}` stores at polygon_offsets[:-1], whose last entries equal the number of rings when the array ends with polygons that have no rings (empty or missing): '
                        'the store lands one slot past the per-ring array (IndexError with bounds checking, a stray write without)', construct='shell marker store in bounds')
            else:
                R.abstain('C15.e', op, s, f'cannot relate the length `{norm(n_)}` of the marker array to the ring count')
        elif ok:
            R.abstain('C15.e', op, s, 'marker array allocation not recognised')
    # C15.f: the flip decision over the sign of the ring's area (finite table).  sign in {-, 0, +}, expected in {ccw, cw}:
    #   sign != 0: flip  <=>  (sign > 0) != expected_ccw      (every ring with area ends up in its expected direction)
    #   sign == 0: never flip                                   (no orientation to correct; flipping it again on every call breaks idempotence)
    decided = orient_small_scope(P, R, op, tier)
    # the stride idiom below presupposes the form "two reversed stride stores": it is consulted only when the evaluation of the kernel as a whole abstained;
    # the table over the sign of the area is kept where its form applies (it also covers tolerance tests, which integer rings cannot expose)
    try:
        _flip_table(P, R, op, loop_form)          # adds the tests the sign does not determine (tolerances) as free worlds
    except AnalysisError:
        if not decided:
            raise
    # flips: both strides over the same range, reversed
    flips = [s for s in ast.walk(op.node) if isinstance(s, ast.Assign) and isinstance(s.targets[0], ast.Subscript) and isinstance(s.targets[0].slice, ast.Slice)
             and s.targets[0].slice.step is not None and norm(s.targets[0].slice.step) == '2' and norm(s.targets[0].value) == op.params[0]]
    if not decided:
        R.check(len(flips) == 2, 'C15.c', op, None, 'a flip writes exactly two strides (x and y)', f'a flip writes {len(flips)} stride(s)', construct='flip strides')
    if len(flips) == 2 and not decided:
        lows = sorted(norm(s.targets[0].slice.lower) for s in flips)
        ups = {norm(s.targets[0].slice.upper) for s in flips}
        base = lows[0]
        ok = lows[1] in (f'{base} + 1', f'1 + {base}') and len(ups) == 1
        R.check(ok, 'C15.c', op, flips[0], 'x and y strides are reversed over the same [start, stop)', f'the two strides cover {lows} .. {sorted(ups)}: x and y of a ring are not reversed together')
        for s in flips:
            v = astq.trace(op, s.value.value) if isinstance(s.value, ast.Subscript) else None
            rev = isinstance(s.value, ast.Subscript) and norm(s.value.slice) == '::-1'
            same = isinstance(v, ast.Subscript) and norm(v.slice) == norm(s.targets[0].slice) and norm(v.value) == op.params[0]
            R.check(rev and same, 'C15.c', op, s, 'each stride receives its own values in reverse order', f'`{norm(s)}` does not store the reverse of the same stride: vertices are altered, not reordered')
    # ring direction is decided by compute_area: its degenerate-ring guard is shared with C14.a
    from rules import C14
    sub = type(R)(R.prop, R.tier)
    C14.kernel_rules(P, sub)
    for o in sub.obs:
        if 'degenerate' in o.detail or 'fewer than 3 vertices' in o.detail:
            R._add('C15.c', (o.path, o.site.split('::')[-1]), None, o.status, 'ring direction comes from compute_area: ' + o.detail, construct=o.construct)
    # ---------------------------------------------------------------- C15.d
    for mod, cls in (('polygon', 'PolygonArray'), ('multipolygon', 'MultiPolygonArray')):
        f = P.func(geom.G + mod, f'{cls}.from_geopandas')
        ok = any(isinstance(s, ast.If) and norm(s.test) == 'orient' and any(isinstance(x, ast.Return) and 'oriented()' in norm(x.value) for x in s.body) for s in f.node.body)
        R.check(ok, 'C15.d', f, None, 'from_geopandas(orient=True) returns the oriented array', 'from_geopandas(orient=True) does not orient', construct='from_geopandas orient', nontrivial=False)
