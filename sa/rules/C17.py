"""C17 — missing and empty geometries are inert (partially decided): the union of the inert-row rules of the other checks.

 C17.a  every public consumer of a fixed-width `flat_values` masks the null slots with the validity mask before its result (taint).
 C17.b  list kernels never turn values read before a zero-trip loop into a result (an empty range contributes nothing).
 C17.c  selection shortcuts: NaN rows/nodes are never covered and never poison R-tree reductions (C03.c); covered Dask partitions
        reach the result without per-row test (KNOWN finding D9, C06.c).
 C17.d  sjoin skips right rows without a valid box (C05.f).
 C17.e  predicates: results start all-False, are only switched on, a NaN bbox is never accepted (C01.d); missing points give False (C02.d).
 C17.f  extents and measures: isfinite guards and NaN sentinels in the bounds kernels (C13.a), NaN-ignoring Dask reductions (C06.b),
        `not missing[i]` guard and NaN prefill of the measure maps (C14.b), validity masks carried by boundary / oriented re-wraps
        (C14.d, C15.b), validity bitmap read at the array offset (C16.a).
Does not decide: the metamorphic relation as a whole (that all results for the other rows are unchanged).
"""
import ast

import astq
from model import walk_own, AnalysisError, full as norm

EXPLANATION = (
    'Union of the inert-row obligations decided by the other checks (validity-mask taint for fixed-width arrays, NaN order-type evaluation of the R-tree '
    'and of the box kernels, NaN-awareness of reductions, missing guards / NaN prefill / validity masks of re-wraps), re-evaluated on the current tree by '
    'running those rule modules, plus a zero-trip-loop rule for the measure kernel.  Each obligation is a necessary condition for inert rows; the '
    'metamorphic relation as a whole is not decided.')

PICK = [
    # (module, predicate on (rule, detail, construct), new rule)
    ('C03', lambda r, d, c: r == 'C03.c', 'C17.c'),
    ('C03', lambda r, d, c: r == 'C03.d' and 'valid children' in d, 'C17.c'),
    ('C06', lambda r, d, c: r == 'C06.c' and ('covered' in c or 'per-row' in d), 'C17.c'),
    ('C06', lambda r, d, c: r == 'C06.b', 'C17.f'),
    ('C05', lambda r, d, c: r == 'C05.f', 'C17.d'),
    ('C01', lambda r, d, c: r == 'C01.d', 'C17.e'),
    ('C01', lambda r, d, c: r == 'C01.e' and 'missing (NaN) point' in d, 'C17.e'),
    ('C02', lambda r, d, c: r == 'C02.d', 'C17.e'),
    ('C13', lambda r, d, c: r == 'C13.a' and ('isfinite' in d or 'NaN' in d or 'sentinel' in d), 'C17.f'),
    ('C14', lambda r, d, c: r == 'C14.b' and ('missing' in d or 'NaN' in d), 'C17.f'),
    ('C14', lambda r, d, c: r == 'C14.d' and 'mask' in d, 'C17.f'),
    ('C14', lambda r, d, c: r == 'C14.c' and 'missing' in d, 'C17.f'),
    ('C14', lambda r, d, c: r == 'C14.a' and 'finite' in d, 'C17.f'),
    ('C15', lambda r, d, c: r == 'C15.b' and 'mask' in d, 'C17.f'),
    ('C16', lambda r, d, c: r == 'C16.a' and ('bitmap' in d or 'bit position' in d or 'missing mask' in d or 'validity' in d or 'bitmap' in (c or '')), 'C17.f'),
    ('C03', lambda r, d, c: r in ('C03.b', 'C03.j'), 'C17.c'),
    ('C13', lambda r, d, c: r == 'C13.i', 'C17.f'),
    ('C03', lambda r, d, c: r == 'C03.e' and 'leaf pages cover' in (c or ''), 'C17.c'),
    ('C03', lambda r, d, c: r == 'C03.a' and 'small-scope' in (c or ''), 'C17.c'),
    ('C16', lambda r, d, c: r in ('C16.c', 'C16.d') and ('state' in d or '_sindex' in d), 'C17.f'),
    ('C08', lambda r, d, c: r in ('C08.b', 'C08.e', 'C08.j') and ('reduction' in d or 'NaN' in d or 'total_bounds' in d), 'C17.f'),
    ('C03', lambda r, d, c: r == 'C03.c' and d.startswith('[C13.a]'), 'C17.c'),
    ('C01', lambda r, d, c: r == 'C01.n', 'C17.e'),
    ('C13', lambda r, d, c: r == 'C13.a' and ('small-scope' in (c or '') or 'coverage' in (c or '') or 'sentinel' in (c or '')), 'C17.f'),
    ('C12', lambda r, d, c: r == 'C12.a' and ('NaN' in d or 'allow_nan' in d or 'every geometry column' in d or 'key' in (c or '')), 'C17.f'),
    ('C11', lambda r, d, c: r == 'C11.h', 'C17.f'),
    ('C14', lambda r, d, c: r == 'C14.c' and 'measure kernel' in d, 'C17.f'),
    ('C13', lambda r, d, c: r == 'C13.b' and ('validity mask' in d or 'placeholder' in d or 'missing' in d), 'C17.f'),
]


def run(P, R, tier):
    import importlib
    from rules import C13
    C13.fixed_taint(P, R, 'C17.a', None)
    zero_trip(P, R)
    dtype_from_all_elements(P, R)
    _common2_ = __import__('rules.common', fromlist=['x'])
    _common2_.masked_offsets(P, R, 'C17.f')
    from rules import common as _common2
    _common2.forward(P, R, 'C04', ['C04.a', 'C04.b', 'C04.f'], 'C17.c', 'cx never selects a missing/empty row: every row returned passed the exact test (no shortcut around it)', floor=4)
    from rules import common as _common
    _common.no_fastmath(P, R, 'C17.g', ['spatialpandas.geometry', 'spatialpandas.spatialindex', 'spatialpandas.utils'])
    cache = {}
    n = 0
    for mod, pred, new in PICK:
        if mod not in cache:
            sub, err = _common.sub_results(P, R, mod)       # shared with the forwards of the other modules (each module runs once per process)
            if err is not None and not __import__('report').unlisted(sub.obs):
                raise err
            cache[mod] = sub
        for o in cache[mod].obs:
            if pred(o.rule, o.detail, o.construct):
                n += 1
                R._add(new, (o.path, o.site.split('::')[-1]), None, o.status, f'[{o.rule}] {o.detail}', construct=o.construct, nontrivial=o.nontrivial)
        for k, v in cache[mod].counters.items():
            pass
    for sub in cache.values():
        for k, v in sub.counters.items():
            if k == 'orderings':
                R.count('orderings', 0)
    R.floor('C17', 'inert-row obligations collected from the other checks', n, 40)


def dtype_from_all_elements(P, R):
    """C17.h: a missing element in the input of a fixed-width array constructor sends the data down the element-by-element path, where the dtype is
    inferred from the elements.  The inference must look at EVERY non-missing element (promoting as it goes): taking the dtype of the first one and
    stopping makes `[None, [1, 2], [1.5, 2.5]]` an int64 array that stores (1, 2) for the last point, while the same points without the None are float64 -
    a missing element changes the other rows."""
    f = P.func('spatialpandas.geometry.basefixed', 'GeometryFixedArray.__init__')
    n = 0
    for lp in astq.own_nodes(f, ast.For):
        asg = [x for x in ast.walk(lp) if isinstance(x, ast.Assign) and any(isinstance(t, ast.Name) and 'dtype' in t.id for t in x.targets)
               and any(isinstance(y, ast.Attribute) and y.attr in ('dtype', 'numpy_dtype') for y in ast.walk(x.value)) or
               (isinstance(x, ast.Assign) and any(isinstance(t, ast.Name) and 'dtype' in t.id for t in x.targets) and isinstance(x.value, ast.Call)
                and norm(x.value.func).split('.')[-1] in ('promote_types', 'result_type', 'find_common_type'))]
        if not asg:
            continue
        n += 1
        brk = [x for x in ast.walk(lp) if isinstance(x, ast.Break)]
        promotes = any(isinstance(x.value, ast.Call) and norm(x.value.func).split('.')[-1] in ('promote_types', 'result_type', 'find_common_type') for x in asg if isinstance(x, ast.Assign))
        R.check(not brk and promotes, 'C17.h', f, brk[0] if brk else lp, 'the dtype of an array built element by element is promoted over all non-missing elements',
                'the dtype is taken from the first non-missing element only (`break`' + ('' if brk else ' missing, but no promotion') + '): a None in the input makes the other rows lose precision '
                '([None, [1, 2], [1.5, 2.5]] stores (1, 2) for the last point)', construct='dtype inferred from every element')
    R.floor('C17.h', 'dtype inference loops of the fixed-width constructor', n, 1)


def zero_trip(P, R):
    from rules import C14
    n = 0
    fam = []
    for k_ in C14.measure_kernels(P)['length']:
        for g in P.reachable([k_], follow_nested=False):
            if g.mod.name == C14.MEAS and g not in fam:
                fam.append(g)
    # (container, statements of the per-part body, its segment loops): the per-part loop of a kernel, or the body of a per-part helper
    units_ = []
    for f in fam:
        outers = [l for l in f.node.body if isinstance(l, ast.For)]
        nested = [(f, l, [s for s in l.body if isinstance(s, ast.For)]) for l in outers if any(isinstance(s, ast.For) for s in l.body)]
        if nested:
            units_ += nested
        elif outers:
            units_.append((f, f.node, outers))
    for f, outer, inner in units_:
        pre = {}
        for s in outer.body:
            if isinstance(s, ast.Assign) and isinstance(s.targets[0], ast.Name) and isinstance(s.value, ast.Subscript) and norm(s.value.value) == f.params[0]:
                pre[s.targets[0].id] = s
        for name, st in pre.items():
            n += 1
            uses = [x for x in ast.walk(outer) if isinstance(x, ast.Name) and x.id == name and isinstance(x.ctx, ast.Load)]
            inside = all(any(x is y for l in inner for y in ast.walk(l)) for x in uses)
            R.check(inside, 'C17.b', f, st, f'`{name}` (read before the segment loop) is only used inside that loop: an empty range contributes nothing',
                    f'`{name}` is read from values[start] before the segment loop and used outside it: an empty element picks up a neighbour\'s coordinate')
    R.floor('C17.b', 'pre-loop reads in the length kernels', n, 2)
