"""Sensitivity / silence battery for the checkers themselves (DESIGN §9).

Each variant is a single-site textual edit of today's source applied to a scratch copy of the package
(only spatialpandas/**.py without tests, ≈300 kB, in a fresh mkdtemp that is deleted immediately).
 expect='fire'   : the named rule must report a violation that the unmodified tree does not have;
 expect='silent' : a behaviour-preserving rewrite — no new violation may appear.
A variant that does not behave as recorded means the *checker* is broken: the thorough run ends with
ANALYSIS-ERROR (exit 2), never with a VIOLATION.  A variant whose `old` text no longer occurs in the
tree (the repository moved on) is skipped and counted.

Usage:  python3 sa/selftest.py [Cxx ...]      (all properties when none given; 16 worker processes)
"""
import importlib
import json
import os
import pathlib
import shutil
import sys
import tempfile
from concurrent.futures import ProcessPoolExecutor

HERE = os.path.dirname(os.path.abspath(__file__))
sys.path.insert(0, HERE)

from model import AnalysisError, Program, repo_root  # noqa: E402
import report  # noqa: E402


def load_catalogue():
    import importlib.util
    p = pathlib.Path(HERE).parent / 'selftest' / 'variants.py'
    spec = importlib.util.spec_from_file_location('verif_variants', p)
    m = importlib.util.module_from_spec(spec)
    spec.loader.exec_module(m)
    return m.VARIANTS


def _copy_tree(src_root, dst_root):
    src = pathlib.Path(src_root) / 'spatialpandas'
    for p in src.rglob('*.py'):
        rel = p.relative_to(src_root)
        if 'tests' in rel.parts:
            continue
        q = pathlib.Path(dst_root) / rel
        q.parent.mkdir(parents=True, exist_ok=True)
        shutil.copyfile(p, q)


def violations_of(prop, root):
    mod = importlib.import_module(f'rules.{prop}')
    P = Program(root)
    res = report.Results(prop, 'quick')
    try:
        mod.run(P, res, 'quick')
        res.raise_deferred()
    except AnalysisError:
        if not report.unlisted(res.obs):
            raise
    return {(o.rule, o.site, o.construct, o.detail) for o in res.obs if o.status == 'violated'}


def run_variant(args):
    v, base_root = args
    out = {'id': v['id'], 'props': v['props'], 'expect': v['expect'], 'status': None, 'detail': ''}
    src = pathlib.Path(base_root) / v['file']
    if not src.exists():
        out['status'] = 'skipped'
        out['detail'] = 'file missing'
        return out
    text = src.read_text()
    if text.count(v['old']) < 1:
        out['status'] = 'skipped'
        out['detail'] = 'pattern no longer present'
        return out
    more = []
    for (f2, o2, n2) in v.get('more', ()):          # further edits of the same variant (two cooperating sites)
        p2 = pathlib.Path(base_root) / f2
        if not p2.exists() or p2.read_text().count(o2) < 1:
            out['status'] = 'skipped'
            out['detail'] = 'pattern of a further edit no longer present'
            return out
        more.append((f2, o2, n2))
    d = tempfile.mkdtemp(prefix='verif_selftest_')
    try:
        _copy_tree(base_root, d)
        (pathlib.Path(d) / v['file']).write_text(text.replace(v['old'], v['new'], 1))
        for f2, o2, n2 in more:
            q2 = pathlib.Path(d) / f2
            q2.write_text(q2.read_text().replace(o2, n2, 1))
        for prop in v['props']:
            try:
                base = violations_of(prop, base_root)
                got = violations_of(prop, d)
            except AnalysisError as e:
                if v['expect'] == 'fire' and v.get('analysis_error_ok'):
                    out['status'] = 'ok'
                    out['detail'] += f'{prop}: analysis error (accepted): {e}; '
                    continue
                out['status'] = 'FAILED'
                out['detail'] += f'{prop}: AnalysisError {e}; '
                continue
            new = got - base
            if v['expect'] == 'undecided':
                # a behaviour-breaking edit that lies in a clause the static rules declare undecided: recorded, no expectation
                out['status'] = out['status'] or 'ok'
                out['detail'] += f'{prop}: {"reported " + str(sorted({x[0] for x in new})) if new else "not reported (declared blind spot)"}; '
                continue
            if v['expect'] == 'fire':
                want = v.get('rules', {}).get(prop) if isinstance(v.get('rules'), dict) else v.get('rule')
                hit = [x for x in new if (want is None or x[0] == want or x[0].startswith(want))]
                if hit:
                    out['status'] = out['status'] or 'ok'
                    out['detail'] += f'{prop}: fired {sorted({x[0] for x in hit})}; '
                else:
                    out['status'] = 'FAILED'
                    out['detail'] += f'{prop}: expected rule {want} to fire, new violations: {sorted({x[0] for x in new})}; '
            else:
                if new:
                    out['status'] = 'FAILED'
                    out['detail'] += f'{prop}: behaviour-preserving variant raised {sorted(new)[:3]}; '
                else:
                    out['status'] = out['status'] or 'ok'
                    out['detail'] += f'{prop}: silent; '
    finally:
        shutil.rmtree(d, ignore_errors=True)
    return out


def run(props=None, jobs=16, base_root=None):
    base_root = str(base_root or repo_root())
    cat = [v for v in load_catalogue() if props is None or set(v['props']) & set(props)]
    if props is not None:
        cat = [dict(v, props=[p for p in v['props'] if p in props]) for v in cat]
    if not cat:
        return []
    with ProcessPoolExecutor(max_workers=min(jobs, len(cat))) as ex:
        return list(ex.map(run_variant, [(v, base_root) for v in cat]))


def run_for_property(prop, res):
    """Called by the thorough tier: run this property's variants; record counts; raise AnalysisError when a
    variant does not behave as recorded.  Skipped when the tree under analysis already violates the property
    (the verdict is then exit 1 and the battery's baseline would be polluted)."""
    if any(o.status == 'violated' for o in res.obs):
        known = {(k['rule'], k['site'], k['construct']) for k in report.load_known() if k.get('property') == prop and k.get('status') == 'known'}
        if any(o.status == 'violated' and o.key() not in known for o in res.obs):
            res.notes.append('self-test battery skipped: the analysed tree already has unlisted violations')
            return
    results = run([prop])
    fired = sum(1 for r in results if r['status'] == 'ok' and r['expect'] == 'fire')
    silent = sum(1 for r in results if r['status'] == 'ok' and r['expect'] == 'silent')
    skipped = [r['id'] for r in results if r['status'] == 'skipped']
    failed = [r for r in results if r['status'] == 'FAILED']
    res.counters['selftest_firing_variants_ok'] = fired
    res.counters['selftest_silent_variants_ok'] = silent
    res.counters['selftest_skipped'] = len(skipped)
    res.notes.append(f'self-test battery: {fired} firing variants reported at the named rule, {silent} behaviour-preserving variants silent, '
                     f'{len(skipped)} skipped (pattern no longer in tree)')
    for r in results[:6]:
        res.sample({'selftest_variant': r['id'], 'expect': r['expect'], 'status': r['status'], 'detail': r['detail']})
    if failed:
        raise AnalysisError('self-test variants did not behave as recorded: ' + '; '.join(f"{r['id']}: {r['detail']}" for r in failed[:5]))


def _transform_job(args):
    kind, prop, base_root = args
    import subprocess
    d = tempfile.mkdtemp(prefix='verif_benign_')
    try:
        env = dict(os.environ, BENIGN_SRC=str(base_root))
        subprocess.run([sys.executable, str(pathlib.Path(HERE).parent / 'tools' / 'benign.py'), kind, d], check=True, env=env, capture_output=True)
        try:
            base = violations_of(prop, base_root)
            got = violations_of(prop, d)
        except AnalysisError as e:
            return kind, f'AnalysisError {e}'
        new = got - base
        return kind, (sorted(new)[:3] if new else None)
    finally:
        shutil.rmtree(d, ignore_errors=True)


def run_transforms_for_property(prop, res, jobs=8):
    """Thorough tier: the property's rules must stay silent on the eight whole-package behaviour-preserving transforms (tools/benign.py T1..T8)."""
    if any(o.status == 'violated' for o in res.obs):
        known = {(k['rule'], k['site'], k['construct']) for k in report.load_known() if k.get('property') == prop and k.get('status') == 'known'}
        if any(o.status == 'violated' and o.key() not in known for o in res.obs):
            return
    kinds = ['T1', 'T2', 'T3', 'T4', 'T5', 'T6', 'T7', 'T8']
    base_root = str(repo_root())
    with ProcessPoolExecutor(max_workers=jobs) as ex:
        out = list(ex.map(_transform_job, [(k, prop, base_root) for k in kinds]))
    bad = [(k, v) for k, v in out if v]
    res.counters['benign_transforms_silent'] = len(out) - len(bad)
    res.notes.append(f'behaviour-preserving whole-package transforms {kinds}: {len(out) - len(bad)} silent')
    if bad:
        raise AnalysisError('rules are not silent on a behaviour-preserving transform of the package: ' + '; '.join(f'{k}: {v}' for k, v in bad[:3]))


def run_silent_everywhere(jobs=16, base_root=None):
    """Every behaviour-preserving variant against EVERY claimed property (not only the ones it was written for)."""
    base_root = str(base_root or repo_root())
    man = json.load(open(pathlib.Path(HERE).parent / 'MANIFEST.json'))
    allp = [c['property_id'] for c in man['checks']]
    # `not_silent_for`: properties under which the rewrite is NOT behaviour-preserving (e.g. a lazily created class-level table is a real race for C18)
    cat = [dict(v, props=[p for p in allp if p not in v.get('not_silent_for', ())]) for v in load_catalogue() if v['expect'] == 'silent']
    with ProcessPoolExecutor(max_workers=min(jobs, len(cat))) as ex:
        return list(ex.map(run_variant, [(v, base_root) for v in cat]))


if __name__ == '__main__':
    if sys.argv[1:] == ['--silent-everywhere']:
        rs = run_silent_everywhere()
        bad = 0
        for r in rs:
            if r['status'] == 'FAILED':
                bad += 1
                print(f"FAILED {r['id']:40s} " + '; '.join(x for x in r['detail'].split('; ') if 'silent' not in x))
        print(f'{len(rs)} silent variants x all properties, {bad} failed')
        sys.exit(2 if bad else 0)
    if sys.argv[1:2] == ['--only']:
        ids = set(sys.argv[2:])
        cat = [v for v in load_catalogue() if v['id'] in ids]
        with ProcessPoolExecutor(max_workers=min(16, max(1, len(cat)))) as ex:
            rs = list(ex.map(run_variant, [(v, str(repo_root())) for v in cat]))
    else:
        props = sys.argv[1:] or None
        rs = run(props)
    bad = 0
    for r in rs:
        print(f"{r['status']:8s} {r['expect']:6s} {r['id']:40s} {r['detail']}")
        bad += r['status'] == 'FAILED'
    print(f'{len(rs)} variants, {bad} failed')
    sys.exit(2 if bad else 0)
