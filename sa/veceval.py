"""Small-scope evaluator for index arithmetic (E-VEC): interprets pure integer / integer-vector fragments of the repository in the
analyser's own interpreter -- structural integers only (positions, lengths), never coordinate data.  Vectors are Python lists.
Supports what index-manipulating fast paths are written with: len, int, slicing, element-wise comparisons and +,-,*, np.all / np.any /
np.diff / min / max / arange / array_equal, if / return / assignment, calls of repository helpers (inlined).  Anything else raises Unsupported.
"""
import ast


class Unsupported(Exception):
    pass


class Returned(Exception):
    def __init__(self, node, value):
        self.node, self.value = node, value


class SelfSlice:
    """`self[a:b]` (or self.data[a:b]) -- the positions range(a, b) of the receiver."""

    def __init__(self, lo, hi, step=None):
        self.lo, self.hi, self.step = lo, hi, step

    def positions(self, n):
        return list(range(*slice(self.lo, self.hi, self.step).indices(n)))


class Stub:
    """A structural stand-in for a library object: plain Python attributes / methods supplied by the rule."""
    pass


class Buf(list):
    """A byte buffer (pa.Buffer / memoryview stand-in): truthy when present, unlike a numpy vector."""
    pass


class PyList(list):
    """A python list (list display or list comprehension): `+` concatenates, unlike a numpy vector."""
    pass


class _Break(Exception):
    pass


class _Continue(Exception):
    pass


_UNPARSE = {}
EXTERNAL_CONSTANTS = {
    'sys.float_info.max': 1.7976931348623157e308, 'sys.float_info.min': 2.2250738585072014e-308, 'sys.float_info.epsilon': 2.220446049250313e-16,
    'np.finfo(np.float64).max': 1.7976931348623157e308, 'np.finfo(np.float64).min': -1.7976931348623157e308, 'np.finfo(np.float64).tiny': 2.2250738585072014e-308,
    'np.finfo(float).max': 1.7976931348623157e308, 'np.finfo(float).min': -1.7976931348623157e308, 'np.finfo(float).tiny': 2.2250738585072014e-308,
    'np.inf': float('inf'), 'numpy.inf': float('inf'), 'math.inf': float('inf'), 'np.nan': float('nan'), 'math.nan': float('nan'),
    "float('inf')": float('inf'), "float('-inf')": float('-inf'), "float('nan')": float('nan'), '-np.inf': float('-inf'), '-math.inf': float('-inf'),
    'sys.maxsize': 2 ** 63 - 1,
}


class Gather:
    """self.take(v) / self.data.take(v): the positions v."""

    def __init__(self, idx):
        self.idx = list(idx)


def _ew(op, a, b):
    va, vb = isinstance(a, list), isinstance(b, list)
    if va and vb:
        if len(a) != len(b):
            raise Unsupported('shape mismatch')
        return [op(x, y) for x, y in zip(a, b)]
    if va:
        return [op(x, b) for x in a]
    if vb:
        return [op(a, y) for y in b]
    return op(a, b)


_CMP = {ast.Lt: lambda a, b: a < b, ast.LtE: lambda a, b: a <= b, ast.Gt: lambda a, b: a > b, ast.GtE: lambda a, b: a >= b,
        ast.Eq: lambda a, b: a == b, ast.NotEq: lambda a, b: a != b}
_BIN = {ast.Pow: lambda a, b: a ** b, ast.Add: lambda a, b: a + b, ast.Sub: lambda a, b: a - b, ast.Mult: lambda a, b: a * b, ast.FloorDiv: lambda a, b: a // b, ast.Mod: lambda a, b: a % b,
        ast.BitAnd: lambda a, b: a & b, ast.BitOr: lambda a, b: a | b, ast.LShift: lambda a, b: a << b, ast.RShift: lambda a, b: a >> b, ast.BitXor: lambda a, b: a ^ b}


_ONLY_CMP = {}


def _only_compared(tree, name):
    """Is the module-level constant `name` used only as an operand of comparisons (a threshold), never in arithmetic, indexing or calls?"""
    k = (id(tree), name)
    if k not in _ONLY_CMP:
        ok, uses = True, 0
        parents = {}
        for n in ast.walk(tree):
            for ch in ast.iter_child_nodes(n):
                parents[id(ch)] = n
        for n in ast.walk(tree):
            if isinstance(n, ast.Name) and n.id == name and isinstance(n.ctx, ast.Load):
                uses += 1
                if not isinstance(parents.get(id(n)), ast.Compare):
                    ok = False
        _ONLY_CMP[k] = ok and uses > 0
    return _ONLY_CMP[k]


class VecEval:
    def __init__(self, P, func, env, n_self):
        self.P, self.func, self.env, self.n = P, func, dict(env), n_self

    # ------------------------------------------------------------------ statements
    def block(self, body):
        for s in body:
            self.stmt(s)

    def stmt(self, s):
        if isinstance(s, ast.Assign):
            v = self.expr(s.value)
            for t in s.targets:
                self.assign(t, v)
        elif isinstance(s, ast.If):
            c = self.expr(s.test)
            if isinstance(c, Buf):
                c = True
            if isinstance(c, PyList):
                c = len(c) > 0
            if isinstance(c, list):
                raise Unsupported('truth value of a vector')
            self.block(s.body if c else s.orelse)
        elif isinstance(s, ast.Return):
            raise Returned(s, self.expr(s.value) if s.value is not None else None)
        elif isinstance(s, ast.Expr) and isinstance(s.value, ast.Constant):
            pass
        elif isinstance(s, ast.Expr):
            self.expr(s.value)
        elif isinstance(s, ast.For):
            it = self.expr(s.iter)
            if not isinstance(it, (list, range, tuple)):
                raise Unsupported('loop over a non-sequence')
            for v in it:
                self.assign(s.target, v)
                try:
                    self.block(s.body)
                except _Continue:
                    continue
                except _Break:
                    break
        elif isinstance(s, ast.AugAssign) and type(s.op) in _BIN:
            if isinstance(s.target, ast.Name):
                cur = self.expr(ast.Name(id=s.target.id, ctx=ast.Load()))
            elif isinstance(s.target, ast.Subscript) and isinstance(s.target.value, ast.Name):
                cur = self.expr(ast.Subscript(value=s.target.value, slice=s.target.slice, ctx=ast.Load()))
            else:
                raise Unsupported('augmented assignment target')
            self.assign(s.target, _ew(_BIN[type(s.op)], cur, self.expr(s.value)))
        elif isinstance(s, ast.Pass):
            pass
        elif isinstance(s, ast.Break):
            raise _Break()
        elif isinstance(s, ast.Continue):
            raise _Continue()
        elif isinstance(s, ast.While):
            guard = 0
            while True:
                c = self.expr(s.test)
                if isinstance(c, PyList):
                    c = len(c) > 0
                if isinstance(c, list):
                    raise Unsupported('truth value of a vector')
                if not c:
                    break
                guard += 1
                if guard > 10000:
                    raise Unsupported('loop bound')
                try:
                    self.block(s.body)
                except _Continue:
                    continue
                except _Break:
                    break
        elif isinstance(s, ast.Raise):
            raise Returned(s, 'raise')
        elif isinstance(s, ast.Assert):
            pass
        else:
            raise Unsupported(type(s).__name__)

    def assign(self, t, v):
        if isinstance(t, ast.Name):
            self.env[t.id] = v
        elif isinstance(t, (ast.Tuple, ast.List)) and isinstance(v, (tuple, list)) and len(v) == len(t.elts):
            for e, x in zip(t.elts, v):
                self.assign(e, x)
        elif isinstance(t, ast.Subscript) and isinstance(t.value, ast.Name) and isinstance(self.env.get(t.value.id), list):
            base = self.env[t.value.id]          # numpy semantics: stores go into the same buffer (out-parameters)
            i = self.expr(t.slice)
            if isinstance(i, list) and len(i) == len(base) and all(isinstance(x, bool) for x in i):
                pos = [k for k, m in enumerate(i) if m]
                vals = v if isinstance(v, list) else [v] * len(pos)
                if len(vals) != len(pos):
                    raise Unsupported('masked store shape')
                for k, x in zip(pos, vals):
                    base[k] = x
            elif isinstance(i, int):
                base[i] = v
            elif isinstance(i, tuple) and len(i) == 1 and isinstance(i[0], list) and all(isinstance(x, int) and not isinstance(x, bool) for x in i[0]):
                vals = v if isinstance(v, list) else [v] * len(i[0])
                for k, x in zip(i[0], vals):
                    base[k] = x
            elif isinstance(i, list) and not (len(i) == len(base) and all(isinstance(x, bool) for x in i)) and all(isinstance(x, int) and not isinstance(x, bool) for x in i):
                vals = v if isinstance(v, list) else [v] * len(i)
                if len(vals) != len(i):
                    raise Unsupported('fancy store shape')
                for k, x in zip(i, vals):
                    base[k] = x
            elif isinstance(i, slice):
                pos = list(range(*i.indices(len(base))))
                vals = list(v) if isinstance(v, (list, tuple)) else [v] * len(pos)
                if len(vals) != len(pos):
                    raise Unsupported('slice store shape')
                for k, x in zip(pos, vals):
                    base[k] = x
            elif isinstance(i, tuple) and len(i) == 2 and isinstance(i[0], slice) and isinstance(i[1], slice) and (not base or isinstance(base[0], list)):
                rows_ = range(*i[0].indices(len(base)))
                for r_ in rows_:
                    cols_ = range(*i[1].indices(len(base[r_])))
                    vals_ = list(v) if isinstance(v, (list, tuple)) else [v] * len(cols_)
                    if vals_ and isinstance(vals_[0], list):
                        raise Unsupported('2-d block store')
                    for c_, x in zip(cols_, vals_):
                        base[r_][c_] = x
            elif isinstance(i, tuple) and len(i) == 2 and isinstance(i[0], int) and isinstance(i[1], int) and not isinstance(i[0], bool) and isinstance(base[i[0]], list):
                base[i[0]][i[1]] = v
            elif isinstance(i, tuple) and len(i) == 2 and isinstance(i[0], slice) and i[0] == slice(None) and isinstance(i[1], int) and (not base or isinstance(base[0], list)):
                col = list(v) if isinstance(v, (tuple, list)) else [v] * len(base)
                if len(col) != len(base):
                    raise Unsupported('column store shape')
                for row, x in zip(base, col):
                    row[i[1]] = x
            elif isinstance(i, tuple) and len(i) == 2 and isinstance(i[0], int) and isinstance(i[1], slice) and i[1] == slice(None) and isinstance(base[i[0]], list):
                row = list(v) if isinstance(v, (tuple, list)) else [v] * len(base[i[0]])
                if len(row) != len(base[i[0]]):
                    raise Unsupported('row store shape')
                base[i[0]] = row
            else:
                raise Unsupported('store index')
            self.env[t.value.id] = base
        else:
            raise Unsupported('assignment target')

    # ------------------------------------------------------------------ expressions
    def expr(self, e):
        if isinstance(e, ast.Constant):
            return e.value
        if isinstance(e, ast.Name):
            if e.id in self.env:
                return self.env[e.id]
            g = self.func.mod.globals.get(e.id) if hasattr(self.func.mod, 'globals') else None
            for a in self.func.mod.tree.body:
                if isinstance(a, ast.Assign) and len(a.targets) == 1 and isinstance(a.targets[0], ast.Name) and a.targets[0].id == e.id and isinstance(a.value, ast.Constant) \
                        and isinstance(a.value.value, (int, float)):
                    v_ = a.value.value
                    if getattr(self, 'scale_thresholds', False) and isinstance(v_, int) and not isinstance(v_, bool) and v_ > 2 and _only_compared(self.func.mod.tree, e.id):
                        return 2          # a size threshold of a fast path (only ever compared): scaled down so that the small scope reaches the fast path
                    return v_
                if isinstance(a, ast.Assign) and len(a.targets) == 1 and isinstance(a.targets[0], ast.Name) and a.targets[0].id == e.id and ast.unparse(a.value) in EXTERNAL_CONSTANTS:
                    return EXTERNAL_CONSTANTS[ast.unparse(a.value)]
                if isinstance(a, ast.Assign) and len(a.targets) == 1 and isinstance(a.targets[0], ast.Name) and a.targets[0].id == e.id and isinstance(a.value, ast.BinOp) \
                        and all(isinstance(x, (ast.Constant, ast.BinOp, ast.operator)) for x in ast.walk(a.value)):
                    v_ = eval(compile(ast.Expression(a.value), '<const>', 'eval'), {'__builtins__': {}})        # literal arithmetic only (1 << 16, 8 * 1024)
                    if getattr(self, 'scale_thresholds', False) and isinstance(v_, int) and v_ > 2 and _only_compared(self.func.mod.tree, e.id):
                        return 2
                    return v_
            raise Unsupported(f'name {e.id}')
        if isinstance(e, ast.Tuple):
            return tuple(self.expr(x) for x in e.elts)
        if isinstance(e, ast.List):
            return PyList(self.expr(x) for x in e.elts)
        if isinstance(e, ast.ListComp) and len(e.generators) == 1 and not e.generators[0].is_async:
            g = e.generators[0]
            it = self.expr(g.iter)
            if not isinstance(it, (list, range, tuple)):
                raise Unsupported('comprehension over a non-sequence')
            out = PyList()
            for v in it:
                self.assign(g.target, v)
                if all(self.expr(c) for c in g.ifs):
                    out.append(self.expr(e.elt))
            return out
        if isinstance(e, (ast.Attribute, ast.Call, ast.UnaryOp)):
            t_ = _UNPARSE.get(id(e))
            if t_ is None:
                t_ = _UNPARSE[id(e)] = (ast.unparse(e), e)
            if t_[0] in EXTERNAL_CONSTANTS:
                return EXTERNAL_CONSTANTS[t_[0]]
        if isinstance(e, ast.JoinedStr):
            return 'str'
        if isinstance(e, ast.Slice):
            return slice(self.expr(e.lower) if e.lower is not None else None, self.expr(e.upper) if e.upper is not None else None,
                         self.expr(e.step) if e.step is not None else None)
        if isinstance(e, ast.UnaryOp):
            v = self.expr(e.operand)
            if isinstance(e.op, ast.Not):
                if isinstance(v, Buf):
                    return False
                if isinstance(v, list):
                    raise Unsupported('not vector')
                return not v
            if isinstance(e.op, ast.USub):
                return _ew(lambda a, b: -a, v, 0)
            if isinstance(e.op, ast.Invert):
                return _ew(lambda a, b: not a, v, 0)
            raise Unsupported('unary')
        if isinstance(e, ast.BoolOp):
            if isinstance(e.op, ast.And):
                r = True
                for x in e.values:
                    r = self.expr(x)
                    if isinstance(r, Buf):
                        r = True
                    if isinstance(r, list):
                        raise Unsupported('and on vector')
                    if not r:
                        return r
                return r
            r = False
            for x in e.values:
                r = self.expr(x)
                if isinstance(r, Buf):
                    r = True
                if isinstance(r, list):
                    raise Unsupported('or on vector')
                if r:
                    return r
            return r
        if isinstance(e, ast.Compare):
            left = self.expr(e.left)
            res = True
            for op, c in zip(e.ops, e.comparators):
                right = self.expr(c)
                if isinstance(op, (ast.Is, ast.IsNot)):
                    r = (left is right) if isinstance(op, ast.Is) else (left is not right)
                    if right is None or left is None:
                        r = (left is None and right is None) if isinstance(op, ast.Is) else not (left is None and right is None)
                elif isinstance(op, (ast.In, ast.NotIn)) and isinstance(right, (tuple, list, str)) and not isinstance(left, list):
                    r = (left in right) if isinstance(op, ast.In) else (left not in right)
                elif type(op) in _CMP:
                    r = _ew(_CMP[type(op)], left, right)
                else:
                    raise Unsupported('comparison operator')
                if isinstance(r, list):
                    if len(e.ops) > 1:
                        raise Unsupported('chained vector comparison')
                    return r
                res = res and r
                left = right
            return res
        if isinstance(e, ast.BinOp) and type(e.op) in _BIN:
            l_, r_ = self.expr(e.left), self.expr(e.right)
            if isinstance(e.op, ast.Add) and isinstance(l_, PyList) and isinstance(r_, PyList):
                return PyList(list(l_) + list(r_))
            return _ew(_BIN[type(e.op)], l_, r_)
        if isinstance(e, ast.BinOp) and isinstance(e.op, ast.Div):
            return _ew(lambda a, b: a / b, self.expr(e.left), self.expr(e.right))
        if isinstance(e, ast.IfExp):
            return self.expr(e.body) if self.expr(e.test) else self.expr(e.orelse)
        if isinstance(e, ast.Subscript):
            t_ = _UNPARSE.get(id(e.value))
            if t_ is None:
                t_ = _UNPARSE[id(e.value)] = (ast.unparse(e.value), e.value)
            base_txt = t_[0]
            if base_txt in ('self', 'self.data') and isinstance(e.slice, ast.Slice):
                lo = self.expr(e.slice.lower) if e.slice.lower is not None else None
                hi = self.expr(e.slice.upper) if e.slice.upper is not None else None
                st = self.expr(e.slice.step) if e.slice.step is not None else None
                return SelfSlice(lo, hi, st)
            if base_txt in ('self', 'self.data') and not isinstance(e.slice, ast.Slice):
                i_ = self.expr(e.slice)
                if isinstance(i_, slice):
                    return SelfSlice(i_.start, i_.stop, i_.step)
                raise Unsupported('subscript of self')
            base = self.expr(e.value)
            if isinstance(base, (list, tuple)):
                if not isinstance(e.slice, ast.Slice):
                    i_ = self.expr(e.slice)
                    if isinstance(i_, slice) and isinstance(base, list):
                        return list(base[i_])
                if isinstance(e.slice, ast.Slice):
                    lo = self.expr(e.slice.lower) if e.slice.lower is not None else None
                    hi = self.expr(e.slice.upper) if e.slice.upper is not None else None
                    st = self.expr(e.slice.step) if e.slice.step is not None else None
                    return list(base[lo:hi:st]) if isinstance(base, list) else base[lo:hi:st]
                i = self.expr(e.slice)
                if isinstance(i, tuple) and len(i) == 2 and isinstance(base, list) and (not base or isinstance(base[0], list)):
                    r_, c_ = i
                    if isinstance(r_, list) and all(isinstance(x, int) and not isinstance(x, bool) for x in r_) and isinstance(c_, slice):
                        return [list(base[x][c_]) for x in r_]
                    rows = base[r_] if isinstance(r_, slice) else [base[r_]] if isinstance(r_, int) else None
                    if rows is None:
                        raise Unsupported('2-d row index')
                    if isinstance(c_, int):
                        col = [row[c_] for row in rows]
                    elif isinstance(c_, slice):
                        col = [list(row[c_]) for row in rows]
                    else:
                        raise Unsupported('2-d column index')
                    return col if isinstance(r_, slice) else col[0]
                if isinstance(i, tuple) and len(i) == 1 and isinstance(i[0], list) and isinstance(base, list):
                    i = i[0]          # result of np.nonzero used as an index
                if isinstance(i, list) and isinstance(base, list):
                    if i and all(isinstance(x, bool) for x in i):
                        return [b for b, m in zip(base, i) if m]
                    return [base[x] for x in i]
                if isinstance(i, int):
                    return base[i]
            raise Unsupported('subscript')
        if isinstance(e, ast.Attribute):
            t_ = _UNPARSE.get(id(e))
            if t_ is None:
                t_ = _UNPARSE[id(e)] = (ast.unparse(e), e)
            txt_ = t_[0]
            if txt_ in ('np.uint32', 'np.int64', 'np.intp', 'np.uint64', 'np.int32'):
                return 'int'
            if txt_ in ('np.inf', 'numpy.inf', 'math.inf', 'np.Inf', 'np.PINF'):
                return float('inf')
            if txt_ in ('np.nan', 'numpy.nan', 'math.nan', 'np.NaN'):
                return float('nan')
            if txt_ in ('np.float64', 'np.float32', 'np.bool_'):
                return 'dtype'
            if isinstance(e.value, ast.Name) and e.value.id == 'self' and isinstance(self.env.get('self'), Stub) and hasattr(self.env['self'], e.attr):
                return getattr(self.env['self'], e.attr)
            base = self.expr(e.value) if not (isinstance(e.value, ast.Name) and e.value.id in ('np', 'numpy', 'self', 'pa', 'pd')) else None
            if isinstance(base, list) and e.attr == 'size':
                return len(base) * (len(base[0]) if base and isinstance(base[0], list) else 1)
            if isinstance(base, list) and e.attr == 'shape':
                return (len(base), len(base[0])) if base and isinstance(base[0], list) else (len(base),) + ((getattr(self, 'ncols', None),) if not base and getattr(self, 'ncols', None) else ())
            if isinstance(base, list) and e.attr == 'dtype':
                d_ = Stub()
                d_.kind = 'b' if base and all(isinstance(x, bool) for x in base) else 'i'
                return d_
            if isinstance(base, slice) and e.attr in ('start', 'stop', 'step'):
                return getattr(base, e.attr)
            if isinstance(base, Stub) and hasattr(base, e.attr):
                return getattr(base, e.attr)
            raise Unsupported(f'attribute {ast.unparse(e)}')
        if isinstance(e, ast.Call):
            return self.call(e)
        raise Unsupported(type(e).__name__)

    def call(self, e):
        t_ = _UNPARSE.get(id(e.func))
        if t_ is None:
            t_ = _UNPARSE[id(e.func)] = (ast.unparse(e.func), e.func)
        fn = t_[0]
        short = fn.split('.')[-1]
        if fn in ('self.__class__', 'type(self)', 'self._constructor', 'self.__class__._from_arrow') and e.args:
            return self.expr(e.args[0])          # re-wrapping arrow data in the receiver's class keeps the positions
        if fn in ('pa.array', 'pyarrow.array', 'np.asarray', 'numpy.asarray', 'np.ascontiguousarray') and e.args:
            v = self.expr(e.args[0])
            if isinstance(v, (list, tuple)):
                m = next((self.expr(k.value) for k in e.keywords if k.arg == 'mask'), None)
                if isinstance(m, list) and any(m):
                    return [None if mk else x for x, mk in zip(v, m)]
                return list(v)
            raise Unsupported('array of a non-vector')
        if fn == 'isinstance' and len(e.args) == 2:
            v = self.expr(e.args[0])
            names = [ast.unparse(x).split('.')[-1] for x in (e.args[1].elts if isinstance(e.args[1], ast.Tuple) else [e.args[1]])]
            if isinstance(v, bool):
                kinds = {'bool', 'bool_'}
            elif isinstance(v, int):
                kinds = {'int', 'Integral', 'integer', 'Number', 'Real'}
            elif isinstance(v, slice):
                kinds = {'slice'}
            elif isinstance(v, list):
                kinds = {'ndarray', 'Iterable', 'Sequence', 'Sized', 'Collection'}       # integer / boolean vectors are modelled as numpy arrays
            elif v is None:
                kinds = set()
            else:
                raise Unsupported('isinstance of an unmodelled value')
            return any(n_ in kinds for n_ in names)
        if fn in ('pd.isna', 'pd.isnull', 'pandas.isna') and len(e.args) == 1:
            v = self.expr(e.args[0])
            return _ew(lambda a, b: a is None or (isinstance(a, float) and a != a), v, 0)
        if fn in ('np.nonzero', 'numpy.nonzero', 'np.flatnonzero') and len(e.args) == 1:
            v = self.expr(e.args[0])
            if isinstance(v, list):
                pos = [k for k, m in enumerate(v) if m]
                return pos if fn.endswith('flatnonzero') else (pos,)
            raise Unsupported('nonzero of a non-vector')
        if isinstance(e.func, ast.Attribute) and isinstance(e.func.value, ast.Name) and isinstance(self.env.get(e.func.value.id), PyList) and e.func.attr in ('append', 'extend', 'pop', 'insert', 'clear'):
            lst = self.env[e.func.value.id]
            args_ = [self.expr(a) for a in e.args]
            if e.func.attr == 'append':
                lst.append(args_[0])
                return None
            if e.func.attr == 'extend':
                lst.extend(list(args_[0]))
                return None
            if e.func.attr == 'pop':
                return lst.pop(*args_)
            if e.func.attr == 'insert':
                lst.insert(*args_)
                return None
            lst.clear()
            return None
        if fn in ('np.isscalar', 'numpy.isscalar') and e.args:
            return not isinstance(self.expr(e.args[0]), (list, tuple))
        if isinstance(e.func, ast.Attribute) and isinstance(e.func.value, ast.Name) and e.func.value.id == 'self' and fn not in ('self.take',) and self.func.cls is not None:
            ci, mem = self.P.lookup(self.func.cls, e.func.attr)
            if mem is not None and mem[0] == 'func' and mem[1].kind == 'method' and not e.keywords and len(e.args) == len(mem[1].params) - 1:
                h = mem[1]
                sub = VecEval(self.P, h, dict(zip(h.params[1:], [self.expr(a) for a in e.args])), self.n)
                if 'self' in self.env:
                    sub.env['self'] = self.env['self']
                sub.ncols = getattr(self, 'ncols', None)
                sub.scale_thresholds = getattr(self, 'scale_thresholds', False)
                sub.inline_take = getattr(self, 'inline_take', False)
                try:
                    sub.block(h.node.body)
                except Returned as ret:
                    if ret.value == 'raise':
                        raise
                    return ret.value
                return None
        if fn in ('self.data.slice', 'self.data._data.slice') and 1 <= len(e.args) <= 2:
            # (S17) pyarrow Array.slice(offset, length): a window clipped at the end of the array; a negative length is an error
            off_ = self.expr(e.args[0])
            ln_ = self.expr(e.args[1]) if len(e.args) > 1 else None
            if not isinstance(off_, int) or (ln_ is not None and not isinstance(ln_, int)):
                raise Unsupported('slice of the arrow data with non-integer bounds')
            if ln_ is not None and ln_ < 0:
                raise ValueError('Length must be non-negative')
            if off_ < 0:
                raise IndexError('Negative array slice offset')
            return SelfSlice(min(off_, self.n), self.n if ln_ is None else min(off_ + ln_, self.n))
        if isinstance(e.func, ast.Attribute) and e.func.attr == 'indices' and len(e.args) == 1:
            sv_ = self.expr(e.func.value)
            if isinstance(sv_, slice):
                return tuple(sv_.indices(self.expr(e.args[0])))
        if fn == 'self.take' and getattr(self, 'inline_take', False) and self.func.cls is not None:
            ci, mem = self.P.lookup(self.func.cls, 'take')
            if mem is not None and mem[0] == 'func':
                h = mem[1]
                env = dict(zip(h.params[1:], [self.expr(a) for a in e.args]))
                for k in e.keywords:
                    env[k.arg] = self.expr(k.value)
                nd = len(h.node.args.defaults)
                for p_, d_ in zip(h.params[len(h.params) - nd:], h.node.args.defaults):
                    if p_ not in env:
                        env[p_] = self.expr(d_)
                for p_ in list(env):
                    if isinstance(env[p_], list):
                        env[p_] = list(env[p_])
                sub = VecEval(self.P, h, env, self.n)
                sub.scale_thresholds = getattr(self, 'scale_thresholds', False)
                try:
                    sub.block(h.node.body)
                except Returned as ret:
                    if ret.value == 'raise':
                        raise
                    return ret.value
                return None
        if isinstance(e.func, ast.Attribute) and fn in ('self.take', 'self.data.take'):
            v = self.expr(e.args[0])
            if isinstance(v, list):
                return Gather(v)
            raise Unsupported('take of a non-vector')
        if isinstance(e.func, ast.Attribute) and short == 'astype' and e.args and not (isinstance(e.func.value, ast.Name) and e.func.value.id in ('np', 'numpy')):
            tname = ast.unparse(e.args[0]).strip("'\"")
            if tname.split('.')[-1] in ('int64', 'int', 'intp', 'int32', 'uint64', 'uint32', 'int_', 'i8'):
                def _to_int(a, b):
                    # float -> integer conversion truncates toward zero; NaN and the infinities give the most negative integer (x86 / numpy behaviour, seed S13)
                    if isinstance(a, float):
                        if a != a or a in (float('inf'), float('-inf')):
                            return -2 ** 63
                        return int(a)
                    return a
                return _ew(_to_int, self.expr(e.func.value), 0)
        if fn in ('np.nan_to_num', 'numpy.nan_to_num') and e.args:
            def _n2n(a, b):
                if isinstance(a, float) and a != a:
                    return 0.0
                if a == float('inf'):
                    return 1.7976931348623157e308
                if a == float('-inf'):
                    return -1.7976931348623157e308
                return a
            return _ew(_n2n, self.expr(e.args[0]), 0)
        if isinstance(e.func, ast.Attribute) and short == 'clip' and not (isinstance(e.func.value, ast.Name) and e.func.value.id in ('np', 'numpy')):
            v_ = self.expr(e.func.value)
            kw = {k.arg: self.expr(k.value) for k in e.keywords}
            pos = [self.expr(a) for a in e.args]
            lo_ = kw.get('lower', kw.get('min', pos[0] if pos else None))
            hi_ = kw.get('upper', kw.get('max', pos[1] if len(pos) > 1 else None))
            if isinstance(v_, (int, float, list)) and not isinstance(v_, bool):
                def _cl(a, b):
                    if a != a:
                        return a
                    if lo_ is not None:
                        a = max(a, lo_)
                    if hi_ is not None:
                        a = min(a, hi_)
                    return a
                return _ew(_cl, v_, 0)
        if fn in ('np.minimum', 'np.maximum', 'np.fmin', 'np.fmax', 'numpy.minimum', 'numpy.maximum') and len(e.args) == 2:
            a_, b_ = self.expr(e.args[0]), self.expr(e.args[1])
            ignore = 'fm' in fn
            pick = min if 'min' in fn else max

            def _mm(x, y):
                xn, yn = isinstance(x, float) and x != x, isinstance(y, float) and y != y
                if xn or yn:
                    return (y if xn else x) if ignore and not (xn and yn) else float('nan')
                return pick(x, y)
            return _ew(_mm, a_, b_)
        if fn in ('np.clip', 'numpy.clip') and len(e.args) == 3:
            v_, lo_, hi_ = (self.expr(a) for a in e.args)
            return _ew(lambda a, b: a if a != a else min(max(a, lo_), hi_), v_, 0)
        if fn in ('np.floor', 'numpy.floor', 'math.floor', 'np.trunc') and len(e.args) == 1:
            import math as _m
            return _ew(lambda a, b: a if (isinstance(a, float) and (a != a or a in (float('inf'), float('-inf')))) else float(_m.floor(a) if 'floor' in fn else _m.trunc(a)), self.expr(e.args[0]), 0)
        if fn in ('np.where', 'numpy.where') and len(e.args) == 3:
            c_, a_, b_ = (self.expr(a) for a in e.args)
            if isinstance(c_, list):
                al = a_ if isinstance(a_, list) else [a_] * len(c_)
                bl = b_ if isinstance(b_, list) else [b_] * len(c_)
                return [x if m else y for m, x, y in zip(c_, al, bl)]
        if isinstance(e.func, ast.Attribute) and short in ('astype', 'copy', 'ravel', 'flatten', 'tolist') and not (isinstance(e.func.value, ast.Name) and e.func.value.id in ('np', 'numpy')):
            return self.expr(e.func.value)
        if isinstance(e.func, ast.Attribute) and short in ('all', 'any', 'min', 'max', 'sum') and not (isinstance(e.func.value, ast.Name) and e.func.value.id in ('np', 'numpy')):
            v = self.expr(e.func.value)
            if isinstance(v, list):
                if short in ('min', 'max') and not v:
                    raise Unsupported('reduction of an empty vector')
                if short in ('min', 'max') and any(isinstance(x, float) and x != x for x in v):
                    return float('nan')
                return {'all': all, 'any': any, 'min': min, 'max': max, 'sum': sum}[short](v)
        if isinstance(e.func, ast.Name) and callable(self.env.get(e.func.id)):
            return self.env[e.func.id](*[self.expr(a) for a in e.args])
        if fn in ('prange', 'numba.prange') and e.args:
            a_ = [self.expr(x) for x in e.args]
            if all(isinstance(x, int) for x in a_):
                return range(*a_)
        if fn == 'len' and len(e.args) == 1 and ast.unparse(e.args[0]) in ('self', 'self.data'):
            return self.n
        if isinstance(e.func, ast.Attribute) and not fn.startswith(('np.', 'numpy.')):
            try:
                recv = self.expr(e.func.value)
            except Unsupported:
                recv = None
            if isinstance(recv, Stub) and callable(getattr(recv, e.func.attr, None)):
                return getattr(recv, e.func.attr)(*[self.expr(a) for a in e.args])
        if fn in ('np.unpackbits', 'numpy.unpackbits') and e.args:
            by = self.expr(e.args[0])
            kw = {k.arg: self.expr(k.value) for k in e.keywords}
            if not isinstance(by, list):
                raise Unsupported('unpackbits of a non-vector')
            order = kw.get('bitorder', 'big')
            bits = []
            for b in by:
                ks = range(8) if order == 'little' else range(7, -1, -1)
                bits.extend((b >> k) & 1 for k in ks)
            cnt = kw.get('count')
            if cnt is not None:
                bits = (bits + [0] * max(0, cnt - len(bits)))[:cnt] if cnt >= 0 else bits[:cnt]
            return bits
        if fn in ('np.frombuffer', 'numpy.frombuffer', 'memoryview', 'bytes', 'bytearray') and e.args:
            v = self.expr(e.args[0])
            if isinstance(v, list):
                return Buf(v) if fn == 'memoryview' else list(v)
            raise Unsupported('buffer')
        if fn in ('np.full', 'numpy.full') and len(e.args) >= 2:
            n_, v_ = self.expr(e.args[0]), self.expr(e.args[1])
            if isinstance(n_, int):
                return [v_] * n_
            if isinstance(n_, tuple) and len(n_) == 2 and all(isinstance(x, int) for x in n_):
                return [[v_] * n_[1] for _ in range(n_[0])]
        if fn in ('np.empty', 'numpy.empty') and e.args:
            n_ = self.expr(e.args[0])
            poison = float('nan')        # uninitialised memory: any value that reaches a result unchanged shows up as a wrong (NaN) entry
            if isinstance(n_, tuple) and len(n_) == 2 and all(isinstance(x, int) for x in n_):
                return [[poison] * n_[1] for _ in range(n_[0])]
            if isinstance(n_, int):
                return [poison] * n_
        if fn in ('np.zeros', 'numpy.zeros', 'np.ones', 'numpy.ones') and e.args:
            n_ = self.expr(e.args[0])
            if isinstance(n_, tuple) and len(n_) == 2 and all(isinstance(x, int) for x in n_):
                return [[1 if 'ones' in fn else 0] * n_[1] for _ in range(n_[0])]
            if isinstance(n_, int):
                return [('ones' in fn)] * n_ if any(k.arg == 'dtype' and 'bool' in ast.unparse(k.value) for k in e.keywords) else [1 if 'ones' in fn else 0] * n_
        if fn == 'divmod' and len(e.args) == 2:
            a_, b_ = self.expr(e.args[0]), self.expr(e.args[1])
            return divmod(a_, b_)
        args = [self.expr(a) for a in e.args]
        if fn == 'len' and len(args) == 1 and isinstance(args[0], Stub):
            return getattr(self, 'stub_len', {}).get(id(args[0]), self.n)
        if fn in ('len',) and isinstance(args[0], (list, tuple)):
            return len(args[0])
        if fn in ('int', 'np.intp', 'np.int64', 'bool', 'abs') and len(args) == 1 and not isinstance(args[0], list):
            if fn == 'int' and isinstance(args[0], float) and (args[0] != args[0] or args[0] in (float('inf'), float('-inf'))):
                raise Unsupported('int() of a non-finite value')
            return {'bool': bool, 'abs': abs}.get(fn, int)(args[0])
        if fn in ('np.isfinite', 'numpy.isfinite', 'math.isfinite', 'isfinite') and len(args) == 1:
            return _ew(lambda a, b: isinstance(a, (int, float)) and a == a and a not in (float('inf'), float('-inf')), args[0], 0)
        if fn in ('np.isnan', 'numpy.isnan', 'math.isnan', 'isnan') and len(args) == 1:
            return _ew(lambda a, b: isinstance(a, float) and a != a, args[0], 0)
        if fn in ('np.isinf', 'numpy.isinf') and len(args) == 1:
            return _ew(lambda a, b: a in (float('inf'), float('-inf')), args[0], 0)
        if fn == 'float' and len(args) == 1 and not isinstance(args[0], list):
            return float(args[0])
        if fn in ('np.nanmin', 'np.nanmax', 'numpy.nanmin', 'numpy.nanmax', 'np.fmin.reduce', 'np.fmax.reduce') and len(args) == 1 and isinstance(args[0], list):
            vs = [x for x in args[0] if x == x]
            return (min(vs) if 'min' in fn else max(vs)) if vs else float('nan')
        if fn in ('np.min', 'np.max', 'numpy.min', 'numpy.max', 'np.amin', 'np.amax') and len(args) == 1 and isinstance(args[0], list):
            if not args[0]:
                raise Unsupported('reduction of an empty vector')
            if any(x != x for x in args[0]):
                return float('nan')
            return (min if 'min' in fn else max)(args[0])
        if fn in ('np.all', 'all', 'numpy.all') and isinstance(args[0], list):
            return all(args[0])
        if fn in ('np.any', 'any', 'numpy.any') and isinstance(args[0], list):
            return any(args[0])
        if fn in ('np.diff', 'numpy.diff') and isinstance(args[0], list):
            return [b - a for a, b in zip(args[0], args[0][1:])]
        if fn in ('min', 'max', 'np.min', 'np.max') and len(args) == 1 and isinstance(args[0], list) and args[0]:
            return (min if 'min' in fn else max)(args[0])
        if fn in ('min', 'max') and len(args) >= 2 and not any(isinstance(a, list) for a in args):
            if any(isinstance(a, float) and a != a for a in args):
                raise Unsupported('scalar min/max with NaN operand (order dependent)')
            return (min if fn == 'min' else max)(args)
        if fn in ('np.argsort', 'numpy.argsort') and args and isinstance(args[0], list):
            return sorted(range(len(args[0])), key=lambda k: args[0][k])        # stable, like kind='stable'; ties are the caller's business
        if fn in ('np.ceil', 'math.ceil', 'numpy.ceil') and len(args) == 1 and isinstance(args[0], (int, float)):
            import math as _m
            return float(_m.ceil(args[0])) if fn.startswith(('np.', 'numpy.')) else _m.ceil(args[0])
        if fn in ('np.log2', 'math.log2', 'numpy.log2') and len(args) == 1 and isinstance(args[0], (int, float)):
            import math as _m
            return _m.log2(args[0]) if args[0] > 0 else float('-inf')
        if fn in ('np.arange', 'numpy.arange', 'range') and all(isinstance(a, int) for a in args):
            return list(range(*args))
        if fn in ('np.array_equal', 'numpy.array_equal') and len(args) == 2:
            return list(args[0]) == list(args[1])
        if fn in ('np.asarray', 'np.array', 'numpy.asarray', 'list', 'np.sort', 'sorted') and args and isinstance(args[0], list):
            return sorted(args[0]) if short in ('sort', 'sorted') else list(args[0])
        if fn in ('np.unique', 'numpy.unique') and args and isinstance(args[0], list):
            return sorted(set(args[0]))
        if fn == 'slice' and 1 <= len(args) <= 3:
            return slice(*args)
        # repository helper: inline
        r = self.P.resolve_call(self.func, e)
        if r and r[0] == 'func' and not e.keywords and len(args) == len(r[1].params) and not isinstance(r[1].node, ast.Lambda):
            sub = VecEval(self.P, r[1], dict(zip(r[1].params, args)), self.n)
            sub.scale_thresholds = getattr(self, 'scale_thresholds', False)
            try:
                sub.block(r[1].node.body)
            except Returned as ret:
                if ret.value == 'raise':
                    raise
                return ret.value
            return None
        raise Unsupported(f'call {fn}')
