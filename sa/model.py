"""E-MODEL: the resolved program (modules, imports, classes with C3 MRO, functions incl. nested
functions and lambdas, resolved decorators, call resolution).  Pure `ast`; nothing is imported or run.

The repository root is taken from $VERIF_REPO (default /repo) so that the self-test battery can point
the same analyses at a scratch copy.
"""
import ast
import hashlib
import os
import pathlib


def repo_root():
    return pathlib.Path(os.environ.get('VERIF_REPO', '/repo'))


class AnalysisError(Exception):
    """The analysis could not be completed (anchor vanished, unparsable source, ...): exit 2, never a verdict."""


class _Normalise(ast.NodeTransformer):
    """Semantics-preserving canonical forms applied to every module before any rule looks at it, so that rules do not depend on
    incidental statement shapes:
      N0  `pass` in a body that has other statements is dropped;
      N1  `X = e` immediately followed by `return X`, X not mentioned anywhere else in the function  ->  `return e`;
      N2  `if not c: A else: B` (no elif)  ->  `if c: B else: A`;
      N3  operands of a single `==` / `!=` in canonical order (constant on the right, otherwise by source text).
    Line numbers of the surviving nodes are the original ones."""

    def __init__(self):
        self.fn_stack = []
        self.count_stack = []

    def _counts(self, fn):
        c = {}
        for n in ast.walk(fn):
            if isinstance(n, ast.Name):
                c[n.id] = c.get(n.id, 0) + 1
            elif isinstance(n, (ast.Global, ast.Nonlocal)):
                for x in n.names:
                    c[x] = c.get(x, 0) + 10
        return c

    @staticmethod
    def _is_pair(s, nxt):
        return (isinstance(s, ast.Assign) and len(s.targets) == 1 and isinstance(s.targets[0], ast.Name) and isinstance(nxt, ast.Return)
                and isinstance(nxt.value, ast.Name) and nxt.value.id == s.targets[0].id)

    def _inlinable(self, fn):
        counts = self._counts(fn)
        pairs = {}
        for n in ast.walk(fn):
            for field in ('body', 'orelse', 'finalbody'):
                b = getattr(n, field, None)
                if isinstance(b, list):
                    b = [x for x in b if not isinstance(x, ast.Pass)]
                    for a, c in zip(b, b[1:]):
                        if self._is_pair(a, c):
                            pairs[a.targets[0].id] = pairs.get(a.targets[0].id, 0) + 1
        return {x for x, k in pairs.items() if counts.get(x, 0) == 2 * k}

    def visit_FunctionDef(self, fn):
        self.fn_stack.append(self._inlinable(fn))
        self.count_stack.append(self._counts(fn))
        self.generic_visit(fn)
        self.fn_stack.pop()
        self.count_stack.pop()
        return fn

    visit_AsyncFunctionDef = visit_FunctionDef

    def _body(self, body):
        if not isinstance(body, list) or not body or not isinstance(body[0], ast.stmt):
            return body
        out = [s for s in body if not isinstance(s, ast.Pass)] or body[:1]
        if self.fn_stack:
            counts = self.fn_stack[-1]
            res = []
            i = 0
            while i < len(out):
                s = out[i]
                nxt = out[i + 1] if i + 1 < len(out) else None
                if self._is_pair(s, nxt) and s.targets[0].id in counts:
                    r = ast.Return(value=s.value)
                    ast.copy_location(r, s)
                    r.end_lineno = getattr(s, 'end_lineno', s.lineno)
                    res.append(r)
                    i += 2
                    continue
                res.append(s)
                i += 1
            out = res
        return out

    def _inline_single_use(self, body):
        """N4: `t = e` immediately followed by a simple statement that contains the ONLY other occurrence of `t` in the function -> that statement with e
        substituted (e is not a lambda / comprehension / yield, the use is not inside a lambda, comprehension or nested function)."""
        if not self.count_stack or os.environ.get('VERIF_NO_N4'):
            return body
        counts = self.count_stack[-1]
        out = list(body)
        i = 0
        while i + 1 < len(out):
            s, nxt = out[i], out[i + 1]
            if (isinstance(s, ast.Assign) and len(s.targets) == 1 and isinstance(s.targets[0], ast.Name) and counts.get(s.targets[0].id, 0) == 2
                    and not isinstance(s.value, (ast.Yield, ast.YieldFrom, ast.Await))
                    and isinstance(nxt, (ast.Assign, ast.Expr, ast.Return, ast.AugAssign))):
                name = s.targets[0].id
                uses = []

                def find(n, blocked=False):
                    for ch in ast.iter_child_nodes(n):
                        b2 = blocked or isinstance(ch, (ast.Lambda, ast.ListComp, ast.SetComp, ast.DictComp, ast.GeneratorExp, ast.FunctionDef))
                        if isinstance(ch, ast.Name) and ch.id == name and isinstance(ch.ctx, ast.Load):
                            uses.append((n, ch, b2))
                        find(ch, b2)
                find(nxt)
                if len(uses) == 1 and not uses[0][2]:
                    parent, use, _ = uses[0]
                    for field, val in ast.iter_fields(parent):
                        if val is use:
                            setattr(parent, field, s.value)
                        elif isinstance(val, list):
                            for k, x in enumerate(val):
                                if x is use:
                                    val[k] = s.value
                    del out[i]
                    if i > 0:
                        i -= 1
                    continue
            i += 1
        return out

    def generic_visit(self, node):
        super().generic_visit(node)
        for field in ('body', 'orelse', 'finalbody'):
            b = getattr(node, field, None)
            if isinstance(b, list):
                setattr(node, field, self._inline_single_use(self._body(b)))
        if isinstance(node, ast.Try):
            for h in node.handlers:
                h.body = self._body(h.body)
        return node

    def visit_Compare(self, n):
        self.generic_visit(n)
        if len(n.ops) == 1 and isinstance(n.ops[0], (ast.Eq, ast.NotEq)):
            l, r = n.left, n.comparators[0]
            lc, rc = isinstance(l, ast.Constant), isinstance(r, ast.Constant)
            if (lc and not rc) or (not lc and not rc and ast.unparse(l) > ast.unparse(r)):
                n.left, n.comparators = r, [l]
        return n

    def visit_If(self, n):
        self.generic_visit(n)
        if (isinstance(n.test, ast.UnaryOp) and isinstance(n.test.op, ast.Not) and n.orelse
                and not (len(n.orelse) == 1 and isinstance(n.orelse[0], ast.If))):
            n.test, n.body, n.orelse = n.test.operand, n.orelse, n.body
        return n


def normalise(tree):
    tree = _Normalise().visit(tree)
    ast.fix_missing_locations(tree)
    return tree


class Mod:
    def __init__(self, name, path, src, is_pkg):
        self.name, self.path, self.src, self.is_pkg = name, path, src, is_pkg
        try:
            self.tree = normalise(ast.parse(src, path))
        except SyntaxError as e:
            raise AnalysisError(f'syntax error in {path}: {e}')
        self.globals = {}
        self.funcs = {}     # qualname -> FuncInfo
        for n in ast.walk(self.tree):
            for c in ast.iter_child_nodes(n):
                c._parent = n

    def __repr__(self):
        return f'<mod {self.name}>'


class ClassInfo:
    def __init__(self, mod, node):
        self.mod, self.node, self.name = mod, node, node.name
        self.members = {}   # name -> ('func', FuncInfo) | ('assign', expr)
        self.bases = []
        self.mro = None
        self.decorators = []

    @property
    def qualname(self):
        return self.name

    def __repr__(self):
        return f'<class {self.mod.name}.{self.name}>'


class FuncInfo:
    def __init__(self, mod, node, qualname, parent, cls, kind):
        self.mod, self.node, self.qualname, self.parent, self.cls, self.kind = mod, node, qualname, parent, cls, kind
        self._local_assign = None
        self.tags = {}      # resolved decorator facts: 'jit': {kw...}, 'retry': True, 'delayed': True, ...
        self.nested = {}    # name -> FuncInfo (directly nested defs)
        self.lambdas = []

    @property
    def name(self):
        return getattr(self.node, 'name', '<lambda>')

    @property
    def params(self):
        a = self.node.args
        return [x.arg for x in a.posonlyargs + a.args] + ([a.vararg.arg] if a.vararg else []) + \
               [x.arg for x in a.kwonlyargs] + ([a.kwarg.arg] if a.kwarg else [])

    @property
    def body(self):
        b = self.node.body
        return b if isinstance(b, list) else [ast.Expr(b)]

    @property
    def key(self):
        return f'{self.mod.path}::{self.qualname}'

    def __repr__(self):
        return f'<func {self.mod.name}:{self.qualname}>'


class Program:
    def __init__(self, root=None, package='spatialpandas'):
        self.root = pathlib.Path(root) if root else repo_root()
        self.package = package
        self.mods = {}
        pk = self.root / package
        if not pk.is_dir():
            raise AnalysisError(f'{pk} is not a directory')
        h = hashlib.sha256()
        for p in sorted(pk.rglob('*.py')):
            rel = p.relative_to(self.root)
            if 'tests' in rel.parts:
                continue
            parts = list(rel.with_suffix('').parts)
            is_pkg = parts[-1] == '__init__'
            if is_pkg:
                parts = parts[:-1]
            name = '.'.join(parts)
            src = p.read_text()
            h.update(str(rel).encode() + b'\0' + src.encode())
            self.mods[name] = Mod(name, str(rel), src, is_pkg)
        self.digest = h.hexdigest()[:16]
        self.classes = {}
        for m in self.mods.values():
            self._index(m)
        for m in self.mods.values():
            for v in list(m.globals.values()):
                if v[0] == 'class':
                    self._link(v[1])
        for m in self.mods.values():
            for f in m.funcs.values():
                self._decorate(f)

    # ------------------------------------------------------------------ indexing
    def _absmod(self, m, level, module):
        if level == 0:
            return module
        base = m.name.split('.')
        if not m.is_pkg:
            base = base[:-1]
        base = base[:len(base) - (level - 1)]
        return '.'.join(base + ([module] if module else []))

    def _index(self, m):
        def visit_top(body):
            for n in body:
                if isinstance(n, (ast.FunctionDef, ast.AsyncFunctionDef)):
                    fi = self._mkfunc(m, n, n.name, None, None, 'func')
                    m.globals[n.name] = ('func', fi)
                elif isinstance(n, ast.ClassDef):
                    ci = ClassInfo(m, n)
                    m.globals[n.name] = ('class', ci)
                    self.classes[f'{m.name}.{n.name}'] = ci
                    ci.decorators = n.decorator_list
                    for c in n.body:
                        if isinstance(c, (ast.FunctionDef, ast.AsyncFunctionDef)):
                            kind = 'method'
                            for d in c.decorator_list:
                                dn = d.id if isinstance(d, ast.Name) else getattr(d, 'attr', None)
                                if dn in ('property', 'classmethod', 'staticmethod'):
                                    kind = dn
                                if dn == 'setter':
                                    kind = 'setter'
                            fi = self._mkfunc(m, c, f'{n.name}.{c.name}', ci, ci, kind)
                            if kind != 'setter':
                                ci.members[c.name] = ('func', fi)
                        elif isinstance(c, ast.Assign):
                            for t in c.targets:
                                if isinstance(t, ast.Name):
                                    ci.members[t.id] = ('assign', c.value)
                        elif isinstance(c, ast.AnnAssign) and isinstance(c.target, ast.Name) and c.value is not None:
                            ci.members[c.target.id] = ('assign', c.value)
                elif isinstance(n, ast.ImportFrom):
                    mod = self._absmod(m, n.level, n.module)
                    for a in n.names:
                        m.globals[a.asname or a.name] = ('import', (mod, a.name))
                elif isinstance(n, ast.Import):
                    for a in n.names:
                        if a.asname:
                            m.globals[a.asname] = ('extmod', a.name)
                        else:
                            m.globals[a.name.split('.')[0]] = ('extmod', a.name.split('.')[0])
                elif isinstance(n, ast.Assign):
                    for t in n.targets:
                        if isinstance(t, ast.Name):
                            m.globals[t.id] = ('assign', n.value)
                elif isinstance(n, (ast.If, ast.Try)):
                    visit_top(n.body)
                    visit_top(getattr(n, 'orelse', []))
                    for h in getattr(n, 'handlers', []):
                        visit_top(h.body)
        visit_top(m.tree.body)

    def _mkfunc(self, m, node, qualname, parent, cls, kind):
        fi = FuncInfo(m, node, qualname, parent, cls, kind)
        m.funcs[qualname] = fi
        node._fi = fi
        # nested functions and lambdas (direct children only; recursion handles deeper levels)
        counter = [0]

        def scan(n):
            for c in ast.iter_child_nodes(n):
                if isinstance(c, (ast.FunctionDef, ast.AsyncFunctionDef)):
                    sub = self._mkfunc(m, c, f'{qualname}.{c.name}', fi, cls, 'nested')
                    fi.nested[c.name] = sub
                elif isinstance(c, ast.Lambda):
                    counter[0] += 1
                    sub = self._mkfunc(m, c, f'{qualname}.<lambda#{counter[0]}>', fi, cls, 'lambda')
                    fi.lambdas.append(sub)
                elif isinstance(c, ast.ClassDef):
                    continue
                else:
                    scan(c)
        if isinstance(node, ast.Lambda):
            scan(node)
        else:
            for s in node.body:
                if isinstance(s, (ast.FunctionDef, ast.AsyncFunctionDef)):
                    sub = self._mkfunc(m, s, f'{qualname}.{s.name}', fi, cls, 'nested')
                    fi.nested[s.name] = sub
                elif isinstance(s, ast.Lambda):
                    counter[0] += 1
                    sub = self._mkfunc(m, s, f'{qualname}.<lambda#{counter[0]}>', fi, cls, 'lambda')
                    fi.lambdas.append(sub)
                else:
                    scan(s)
            for d in node.args.defaults + node.args.kw_defaults:
                if d is not None:
                    scan(d)
        return fi

    # ------------------------------------------------------------------ name resolution
    def resolve_global(self, m, name, seen=()):
        """-> ('func', FuncInfo) | ('class', ClassInfo) | ('assign', Mod, expr) | ('ext', dotted) | ('mod', Mod) | None"""
        v = m.globals.get(name)
        if v is None:
            return None
        if v[0] == 'func':
            return ('func', v[1])
        if v[0] == 'class':
            return ('class', v[1])
        if v[0] == 'assign':
            return ('assign', m, v[1])
        if v[0] == 'extmod':
            return ('ext', v[1])
        modname, attr = v[1]
        if modname in self.mods:
            key = (modname, attr)
            if key in seen:
                return None
            r = self.resolve_global(self.mods[modname], attr, seen + (key,))
            if r is None and f'{modname}.{attr}' in self.mods:
                return ('mod', self.mods[f'{modname}.{attr}'])
            return r
        if modname and modname.split('.')[0] == self.package:
            return None
        return ('ext', f'{modname}.{attr}' if modname else attr)

    def _link(self, ci):
        if ci.mro is not None:
            return
        ci.mro = [ci]
        ci.bases = []
        for b in ci.node.bases:
            r = None
            if isinstance(b, ast.Name):
                r = self.resolve_global(ci.mod, b.id)
            elif isinstance(b, ast.Attribute):
                r = self.resolve_expr_static(ci.mod, b)
            ci.bases.append(r[1] if r and r[0] == 'class' else (('ext', r[1]) if r and r[0] == 'ext' else None))
        for b in ci.bases:
            if isinstance(b, ClassInfo):
                self._link(b)
        real = [b for b in ci.bases if isinstance(b, ClassInfo)]
        seqs = [list(b.mro) for b in real] + [list(real)]
        mro = [ci]
        while any(seqs):
            for s in seqs:
                if not s:
                    continue
                h = s[0]
                if not any(h in t[1:] for t in seqs):
                    break
            else:
                raise AnalysisError(f'inconsistent MRO for {ci}')
            mro.append(h)
            for s in seqs:
                if s and s[0] is h:
                    del s[0]
        ci.mro = mro

    def resolve_expr_static(self, m, e, local=None):
        """Resolve a Name / dotted Attribute expression at module level (or with a local scope FuncInfo)."""
        if isinstance(e, ast.Name):
            if local is not None:
                f = local
                while f is not None and isinstance(f, FuncInfo):
                    if e.id in f.nested:
                        return ('func', f.nested[e.id])
                    a = self.local_assignment(f, e.id)
                    if a is not None:
                        return ('localassign', f, a)
                    if e.id in f.params:
                        return ('param', f, e.id)
                    f = f.parent if isinstance(f.parent, FuncInfo) else None
            return self.resolve_global(m, e.id)
        if isinstance(e, ast.Attribute):
            base = self.resolve_expr_static(m, e.value, local)
            if base is None:
                return None
            if base[0] == 'ext':
                return ('ext', base[1] + '.' + e.attr)
            if base[0] == 'mod':
                r = self.resolve_global(base[1], e.attr)
                if r is None and f'{base[1].name}.{e.attr}' in self.mods:
                    return ('mod', self.mods[f'{base[1].name}.{e.attr}'])
                return r
            if base[0] == 'class':
                ci, mem = self.lookup(base[1], e.attr)
                if mem is None:
                    return None
                return ('func', mem[1]) if mem[0] == 'func' else ('assign', ci.mod, mem[1])
        return None

    def local_assignment(self, f, name):
        """The unique simple assignment `name = expr` in f's own body (not nested), or None."""
        table = getattr(f, '_local_assign', None)
        if table is None:
            table = {}
            for n in walk_own(f.node):
                if isinstance(n, ast.Assign) and len(n.targets) == 1 and isinstance(n.targets[0], ast.Name):
                    table.setdefault(n.targets[0].id, []).append(n.value)
            f._local_assign = table
        found = table.get(name, ())
        return found[0] if len(found) == 1 else None

    def lookup(self, ci, name):
        for c in ci.mro:
            if name in c.members:
                return c, c.members[name]
        return None, None

    def cls(self, dotted):
        if dotted in self.classes:
            return self.classes[dotted]
        raise AnalysisError(f'class {dotted} not found (anchor vanished)')

    def func(self, modname, qualname):
        m = self.mods.get(modname)
        if m is None or qualname not in m.funcs:
            raise AnalysisError(f'function {modname}:{qualname} not found (anchor vanished)')
        return m.funcs[qualname]

    def find_func(self, modname, qualname):
        m = self.mods.get(modname)
        return m.funcs.get(qualname) if m else None

    def all_funcs(self):
        for m in self.mods.values():
            yield from m.funcs.values()

    # ------------------------------------------------------------------ decorators
    def _decorate(self, f):
        if isinstance(f.node, ast.Lambda):
            return
        for d in f.node.decorator_list:
            self._apply_decorator(f, d)

    def _apply_decorator(self, f, d, depth=0):
        if depth > 5:
            return
        local = f.parent if isinstance(f.parent, FuncInfo) else None
        if isinstance(d, ast.Call):
            r = self.resolve_expr_static(f.mod, d.func, local)
            kws = {k.arg: k.value for k in d.keywords if k.arg}
            if r and r[0] == 'ext':
                self._tag_ext(f, r[1], kws, d)
            elif r and r[0] == 'func':
                f.tags.setdefault('wrapped_by', []).append(r[1])
            elif isinstance(d.func, ast.Attribute) and d.func.attr == 'register':
                f.tags.setdefault('register', []).append(d)
            return
        r = self.resolve_expr_static(f.mod, d, local)
        if r is None:
            if isinstance(d, ast.Attribute) and d.attr in ('setter', 'getter'):
                return
            if isinstance(d, ast.Name) and d.id in ('property', 'classmethod', 'staticmethod'):
                return
            f.tags.setdefault('unresolved', []).append(ast.unparse(d))
            return
        if r[0] == 'ext':
            self._tag_ext(f, r[1], {}, d)
        elif r[0] == 'func':
            f.tags.setdefault('wrapped_by', []).append(r[1])     # a decorator defined in the repository
        elif r[0] == 'assign':
            v = r[2]
            if isinstance(v, ast.Call):
                rr = self.resolve_expr_static(r[1], v.func)
                if rr and rr[0] == 'ext':
                    self._tag_ext(f, rr[1], {k.arg: k.value for k in v.keywords if k.arg}, v)
        elif r[0] == 'localassign':
            v = r[2]
            if isinstance(v, ast.Call):
                rr = self.resolve_expr_static(f.mod, v.func, r[1])
                if rr and rr[0] == 'ext':
                    self._tag_ext(f, rr[1], {k.arg: k.value for k in v.keywords if k.arg}, v)

    def _tag_ext(self, f, dotted, kws, node):
        last = dotted.split('.')[-1]
        if dotted.startswith('numba') and last in ('jit', 'njit'):
            flags = {}
            for k, v in kws.items():
                if isinstance(v, ast.Constant):
                    flags[k] = v.value
                else:
                    flags[k] = ('expr', ast.unparse(v))
            if last == 'njit':
                flags['nopython'] = True
            f.tags['jit'] = flags
        elif last == 'jitclass':
            f.tags['jitclass'] = True
        elif dotted.startswith('retrying') and last == 'retry':
            f.tags['retry'] = True
        elif last == 'delayed':
            f.tags['delayed'] = True
        elif last in ('property', 'classmethod', 'staticmethod', 'total_ordering'):
            pass
        else:
            f.tags.setdefault('ext', []).append(dotted)

    def is_jit(self, f):
        if 'jit' in f.tags:
            return True
        # methods of a jitclass
        if f.cls is not None and any(self._is_jitclass_decorator(f.cls, d) for d in f.cls.decorators):
            return True
        return False

    def _is_jitclass_decorator(self, ci, d):
        e = d.func if isinstance(d, ast.Call) else d
        r = self.resolve_expr_static(ci.mod, e)
        return bool(r and r[0] == 'ext' and r[1].split('.')[-1] == 'jitclass')

    def is_parallel(self, f):
        return bool(f.tags.get('jit', {}).get('parallel'))

    # ------------------------------------------------------------------ calls
    def resolve_call(self, f, call):
        """Resolve the callee of `call` occurring in function f.
        -> ('func', FuncInfo) | ('class', ClassInfo) | ('ext', dotted) | ('method', name, recv_expr) | None"""
        fn = call.func
        local = f
        if isinstance(fn, ast.Name):
            r = self.resolve_expr_static(f.mod, fn, local)
            if r is None:
                # function-local import?
                imp = self.local_import(f, fn.id)
                if imp:
                    return imp
                return None
            if r[0] in ('func', 'class', 'ext'):
                return r
            if r[0] == 'localassign':
                v = r[2]
                # x = delayed(g) ; x(...)  => calls g
                if isinstance(v, ast.Call):
                    inner = self.resolve_expr_static(f.mod, v.func, r[1])
                    if inner and inner[0] == 'ext' and inner[1].split('.')[-1] == 'delayed' and v.args:
                        g = self.resolve_expr_static(f.mod, v.args[0], r[1])
                        if g and g[0] == 'func':
                            return ('func', g[1])
                return None
            if r[0] == 'param':
                return ('param', r[2])
            return None
        if isinstance(fn, ast.Attribute):
            # self.m(...)
            if isinstance(fn.value, ast.Name) and fn.value.id in ('self', 'cls') and f.cls is not None:
                ci, mem = self.lookup(f.cls, fn.attr)
                if mem is not None and mem[0] == 'func':
                    return ('func', mem[1])
                return ('method', fn.attr, fn.value)
            if isinstance(fn.value, ast.Call) and isinstance(fn.value.func, ast.Name) and fn.value.func.id == 'super' and f.cls is not None:
                for c in f.cls.mro[1:]:
                    if fn.attr in c.members and c.members[fn.attr][0] == 'func':
                        return ('func', c.members[fn.attr][1])
                return ('ext', 'super.' + fn.attr)
            r = self.resolve_expr_static(f.mod, fn, local)
            if r is not None and r[0] in ('func', 'class', 'ext'):
                return r
            imp = None
            if isinstance(fn.value, ast.Name):
                imp = self.local_import(f, fn.value.id)
            if imp and imp[0] == 'ext':
                return ('ext', imp[1] + '.' + fn.attr)
            return ('method', fn.attr, fn.value)
        if isinstance(fn, ast.Call):
            # delayed(g)(...) / dask.delayed(g, pure=False)(...)
            inner = self.resolve_call(f, fn)
            if inner and inner[0] == 'ext' and inner[1].split('.')[-1] == 'delayed' and fn.args:
                g = self.resolve_expr_static(f.mod, fn.args[0], local)
                if g and g[0] == 'func':
                    return ('func', g[1])
        return None

    def local_import(self, f, name):
        g = f
        while isinstance(g, FuncInfo):
            for n in walk_own(g.node):
                if isinstance(n, ast.ImportFrom):
                    mod = self._absmod(g.mod, n.level, n.module)
                    for a in n.names:
                        if (a.asname or a.name) == name:
                            if mod in self.mods:
                                r = self.resolve_global(self.mods[mod], a.name)
                                if r is None and f'{mod}.{a.name}' in self.mods:
                                    return ('mod', self.mods[f'{mod}.{a.name}'])
                                return r
                            return ('ext', f'{mod}.{a.name}')
                elif isinstance(n, ast.Import):
                    for a in n.names:
                        if (a.asname or a.name.split('.')[0]) == name:
                            return ('ext', a.name if a.asname else a.name.split('.')[0])
            g = g.parent if isinstance(g.parent, FuncInfo) else None
        return None

    def callees(self, f):
        """Resolved repository callees (FuncInfo) called directly in f's own body."""
        out = []
        for n in walk_own(f.node):
            if isinstance(n, ast.Call):
                r = self.resolve_call(f, n)
                if r and r[0] == 'func':
                    out.append((n, r[1]))
        return out

    def reachable(self, roots, follow_nested=True):
        seen = {}
        work = list(roots)
        while work:
            f = work.pop()
            if f.key in seen:
                continue
            seen[f.key] = f
            for _, g in self.callees(f):
                work.append(g)
            if follow_nested:
                work.extend(f.nested.values())
                work.extend(f.lambdas)
        return list(seen.values())


def walk_own(node):
    """Walk a function's own body without entering nested function/lambda/class bodies
    (the nested def statement itself is yielded).  Cached per node (the trees are never modified)."""
    cached = getattr(node, '_own_nodes', None)
    if cached is not None:
        return cached
    out = []
    stack = list(ast.iter_child_nodes(node))
    while stack:
        n = stack.pop()
        out.append(n)
        if isinstance(n, (ast.FunctionDef, ast.AsyncFunctionDef, ast.Lambda, ast.ClassDef)):
            continue
        stack.extend(ast.iter_child_nodes(n))
    try:
        node._own_nodes = out
    except AttributeError:
        pass
    return out


def norm(node):
    """Normalised text of a construct (position independent)."""
    try:
        s = ast.unparse(node)
    except Exception:
        s = ast.dump(node)
    s = ' '.join(s.split())
    return s if len(s) <= 160 else s[:157] + '...'


def full(node):
    """Full (untruncated) normalised source of a node, for containment tests."""
    try:
        return ' '.join(ast.unparse(node).split())
    except Exception:
        return ast.dump(node)


def stmt_of(node):
    """Enclosing statement of an expression node."""
    n = node
    while n is not None and not isinstance(n, ast.stmt):
        n = getattr(n, '_parent', None)
    return n


def enclosing_func(node):
    n = getattr(node, '_parent', None)
    while n is not None:
        if hasattr(n, '_fi'):
            return n._fi
        n = getattr(n, '_parent', None)
    return None


_PROGRAM_CACHE = {}


def load_program(root=None):
    root = str(root or repo_root())
    if root not in _PROGRAM_CACHE:
        _PROGRAM_CACHE[root] = Program(root)
    return _PROGRAM_CACHE[root]
